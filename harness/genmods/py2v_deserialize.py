"""py2v_deserialize: translation of the DESERIALIZATION side of typedpy/serialization/serialization.py

    deserialize_list_like  deserialize_array  deserialize_deque  deserialize_tuple  deserialize_set
    deserialize_multifield_wrapper  deserialize_map  deserialize_single_field
    construct_fields_map  deserialize_structure_internal  get_processed_input

into Gallina over Base/PyOps.v, PyOps2.v, PyObj.v, PyOpsFields.v, PyOpsVersioned.v, PyOpsDerive.v and
PyOpsDeserialize.v, rewritten on every run from the working tree of core.REPO into
coq/theories/Gen/DeserializeSrc.v.  Ser/DeserializeSrcProofs.v proves the generated functions equal to the
hand-written model of Ser/Deserialize.v (deser_val, deser_fields, the extra-key filter of deser_struct) for EVERY
field declaration / class description and document.  The source is read by `ast` only; typedpy is never imported.

Shape of the output
  * `recs`: one entry per translated function (all its parameters, keyword-only ones included, in the order
    of the `def`).  EVERY call of a translated function goes through this record (open recursion), so each
    `src_<f> h ext R <params>` is a plain Definition.
  * `src_field_fix h ext outer fuel : recs` ties the knot of the FIELD-level functions (FIELD_KNOT) with
    explicit fuel: one unit per call; the structure-level entries are those of `outer` (in the hand-written
    model they are the `rec` parameter of deser_val).
  * calls that leave the translated functions go to the oracle `ext` of Base/PyOpsDeserialize.v:
    a module-level / imported function that is not translated by its name, `o.m(args)` of an object as ".m",
    the call of a class object as "()".
  * a `for` loop is a top-level Fixpoint by structural recursion on the list of elements (accumulators = the
    locals the body re-binds, continuation = the code after the loop); a comprehension is a top-level
    Definition `<f>_comp_<target>`; an `if` whose branches both fall through binds the code after it ONCE
    (`let kj := fun <re-bound locals> => ... in`); a `try` binds its handlers ONCE (`let hj := fun x <locals the
    body re-binds> => ...`) and every operation of the body that can raise hands the handler the values the
    locals have AT THAT POINT (`bind_or`), as CPython does.
  * tables READ from the source: `src_class_table` (every class statement of the package -> all its proper
    ancestors inside the package), `src_exn_table` (the package's exception classes -> all their ancestors).

Subset of Python (fail closed: anything else makes the definition `<name>_UNTRANSLATABLE : unit := tt`, and with
it the knot, so that the bridging lemma stops type-checking):
  statements   docstring, pass, x = e, a, b = e, x[k] = e / x.append(e) / x.update(e) / x += e for a container
               the function itself created and has not let escape, x += e otherwise (immutable operands),
               an expression statement, return [e], raise Exc(text) [from e], if/elif/else, for (over e,
               enumerate(e), e.items() / .keys() / .values(); no else), continue, break, try/except (no else /
               finally; no loop, continue or break inside the try body).
  expressions  locals (a local some path leaves unassigned is read through `py_local`), constants, [] {} [a, b]
               (a, b) {a, b} {**a, **b}, classes of the package, builtin classes, collections.deque, members of enum
               classes, string constants imported from the package, getattr(o, NAME[, d]), getattr(o, e, d), o.attr,
               o.m() (a parameterless query: the attribute "m()"), o.m(args), f(args, *a, k=v, **kw) for a translated
               function / an untranslated function / a callable value, len, e[i], e[a:b], a + b, f-strings (text
               is not modelled beyond concatenation of str operands), e1 if c else e2, and/or/not, comparisons,
               in / not in, is / is not (None, True, False, a class, an enum member), isinstance / issubclass,
               list and dict comprehensions with one generator.
  The TEXT of exception messages is outside the model: the argument of a raised exception is only checked to be
  built from locals, constants and the total text helpers str / repr / len / wrap_val / join / startswith; any other
  expression interpolated in an f-string argument (an attribute read, getattr without a default) is EVALUATED before
  the raise -- it can raise itself -- and its text is dropped."""
import ast
import builtins
import os
import re

from harness import core
from harness import coqemit as E
from harness.genmods.py2v import Unsupported, KNOWN_CLASSES
from harness.genmods.py2v_trusted import Repo

MODULE = "typedpy.serialization.serialization"
TARGETS = ["deserialize_list_like", "deserialize_array", "deserialize_deque", "deserialize_tuple",
           "deserialize_set", "deserialize_multifield_wrapper", "deserialize_map", "deserialize_single_field",
           "construct_fields_map", "deserialize_structure_internal", "get_processed_input"]
FIELD_KNOT = ["deserialize_list_like", "deserialize_array", "deserialize_deque", "deserialize_tuple",
              "deserialize_set", "deserialize_multifield_wrapper", "deserialize_map", "deserialize_single_field",
              "get_processed_input"]
OUT = os.path.join("theories", "Gen", "DeserializeSrc.v")

RESERVED = {"h", "ext", "R", "l", "fuel", "outer", "k_after", "tt", "fix", "in", "let", "match", "end", "fun", "if",
            "then", "else", "return", "as", "at", "with", "forall", "exists", "Type", "Set", "Prop", "c", "b", "o",
            "res", "ref", "bref", "bind", "recs", "heap", "extern", "pyval", "exn", "list", "nat", "unit", "bool",
            "Ok", "Raise", "Some", "None", "map", "fst", "snd", "app", "rev", "length", "x", "zint"}
BUILTIN_CLASS_VALUES = {"list", "tuple", "set", "frozenset", "dict", "str", "int", "float", "bool"}
STDLIB_CLASSES = {("collections", "deque"): "deque"}
EXN_CTORS = {"TypeError", "ValueError", "IndexError", "KeyError", "AttributeError", "OverflowError",
             "ZeroDivisionError", "NotImplementedError", "RuntimeError", "InvalidStructureErr"}
# the classes an except clause may name: those Base/PyOpsDeserialize.v [exn_caught] decides
EXCEPT_BUILTINS = {"TypeError", "ValueError", "IndexError", "KeyError", "AttributeError", "OverflowError",
                   "ZeroDivisionError", "NotImplementedError", "RuntimeError", "LookupError", "ArithmeticError",
                   "Exception", "BaseException"}
TEXT_HELPERS = {"str", "repr", "len", "wrap_val"}
TEXT_METHODS = {"join", "startswith", "endswith", "format"}
LIST_MUTATORS = {"append": "PyOpsDerive.py_list_append"}
DICT_MUTATORS = {"update": "py_dict_update"}
VIEW_METHODS = ("items", "values", "keys")


def coq_fn(name):
    return "src" + (name if name.startswith("_") else "_" + name)


def rec_field(name):
    return "r_" + name.lstrip("_")


class Var:
    """a local at the current program point: its Coq atom; is it certainly assigned; is it a container the function
    created itself and has not handed to anybody (so that mutating it is re-binding it); poison = a name CPython
    still (or no longer) binds but the translation does not follow (a loop target after its loop, `as e` after its
    handler): reading it is refused; text = a local that only ever holds a piece of message text (it may be
    mentioned in messages, nowhere else)"""
    __slots__ = ("atom", "bound", "fresh", "poison", "text")

    def __init__(self, atom, bound=True, fresh=False, poison=False, text=False):
        self.atom, self.bound, self.fresh, self.poison, self.text = atom, bound, fresh, poison, text

    def copy(self):
        return Var(self.atom, self.bound, self.fresh, self.poison, self.text)


def copy_env(env):
    return {k: v.copy() for k, v in env.items()}


class Kont:
    """the code that runs when control falls off the end of a block; cheap = emitting it twice costs nothing"""
    def __init__(self, fn, cheap):
        self.fn, self.cheap = fn, cheap

    def __call__(self):
        return self.fn()


class LoopCtx:
    def __init__(self, cont, brk):
        self.cont, self.brk = cont, brk


def falls(stmts):
    """may control fall off the end of this block?"""
    for s in stmts:
        if isinstance(s, (ast.Return, ast.Raise, ast.Continue, ast.Break)):
            return False
        if isinstance(s, ast.If) and s.orelse and not falls(s.body) and not falls(s.orelse):
            return False
        if isinstance(s, ast.Try) and not falls(s.body) and not any(falls(hd.body) for hd in s.handlers):
            return False
    return True


def assigned_names(stmts, skip_exc=True):
    """names a block (re-)binds, in first-occurrence order: assignment targets, the base of an item store, the
    receiver of a mutator call (translated as a re-binding); loop targets and `as e` names are NOT included"""
    out = []

    def add(n):
        if n not in out:
            out.append(n)

    def target(t):
        if isinstance(t, ast.Name):
            add(t.id)
        elif isinstance(t, (ast.Tuple, ast.List)):
            for x in t.elts:
                target(x)
        elif isinstance(t, ast.Subscript) and isinstance(t.value, ast.Name):
            add(t.value.id)
        elif isinstance(t, ast.Starred):
            target(t.value)

    for s in stmts:
        for n in ast.walk(s):
            if isinstance(n, ast.Assign):
                for t in n.targets:
                    target(t)
            elif isinstance(n, (ast.AugAssign, ast.AnnAssign)):
                target(n.target)
            elif isinstance(n, ast.NamedExpr):
                target(n.target)
            elif isinstance(n, ast.Expr) and isinstance(n.value, ast.Call) and isinstance(n.value.func, ast.Attribute) \
                    and isinstance(n.value.func.value, ast.Name) \
                    and n.value.func.attr in (set(LIST_MUTATORS) | set(DICT_MUTATORS)):
                add(n.value.func.value.id)
    return out


def loop_targets(stmts):
    out = []
    for s in stmts:
        for n in ast.walk(s):
            if isinstance(n, ast.For):
                for m in ast.walk(n.target):
                    if isinstance(m, ast.Name) and m.id not in out:
                        out.append(m.id)
            elif isinstance(n, ast.ExceptHandler) and n.name and n.name not in out:
                out.append(n.name)
            elif isinstance(n, ast.comprehension):
                for m in ast.walk(n.target):
                    if isinstance(m, ast.Name) and m.id not in out:
                        out.append(m.id)
    return out


# --------------------------------------------------------------------------- translator of one function

class TrD:
    def __init__(self, gen, fname, params):
        self.gen = gen
        self.fname = fname
        self.env = {p: Var(c) for p, c in params}
        self.n = 0
        self.hoisted = []                # Fixpoints / Definitions that precede the function (text)
        self.nloops = 0
        self.comp_names = set()
        self.handlers = []               # innermost last: xterm -> term that hands the exception to the handler
        self.exn_vars = []               # Coq names of the exceptions being handled (for a bare `raise`)
        self.comp_hint = None
        self.local_fns = {}              # nested def name -> (coq name, captured outer names, arity)

    # ------------------------------------------------------------------ small things
    def fresh(self, base="t"):
        self.n += 1
        return "%s%d" % (base, self.n)

    @staticmethod
    def pseq(binds, last):
        """expression-level sequencing: an exception is the expression's outcome"""
        return "(" + "".join("%s <- %s ;; " % (n, t) for n, t in binds) + last + ")"

    def snap(self):
        """the innermost handler, closed over the values the locals have NOW: xterm -> term (None: no handler)"""
        if not self.handlers:
            return None
        return self.handlers[-1]()

    def raise_term(self, xterm):
        hn = self.snap()
        if hn is not None:
            return hn(xterm)
        return "(Raise %s)" % xterm

    def sbind(self, name, term, body, hnow):
        """statement-level bind: inside a try body an exception goes to the handler, with the values the locals had
        when the statement began (hnow)"""
        if hnow is not None:
            x = self.fresh("x")
            return "(bind_or (%s) (fun %s => %s) (fun %s => %s))" % (term, x, hnow(x), name, body)
        return "(%s <- %s ;; %s)" % (name, term, body)

    def sseq(self, binds, last, hnow):
        out = last
        for n, t in reversed(binds):
            out = self.sbind(n, t, out, hnow)
        return out

    def valterm(self, e):
        b, a = self.val(e)
        return self.pseq(b, "Ok %s" % a)

    # ------------------------------------------------------------------ locals
    def read(self, name, escape=True):
        v = self.env[name]
        if v.poison:
            raise Unsupported("read of %s after the loop / handler that bound it" % name)
        if v.text:
            raise Unsupported("the message text %s is used as a value" % name)
        if escape and v.fresh:
            v.fresh = False
        if not v.bound:
            t = self.fresh()
            return [(t, "py_local %s" % v.atom)], t
        return [], v.atom

    def val_ne(self, e):
        """value of e in a position that does not let a container escape (len, in, subscription, iteration, truth)"""
        if isinstance(e, ast.Name) and e.id in self.env:
            return self.read(e.id, escape=False)
        return self.val(e)

    def bind_local(self, name, atom, fresh=False):
        self.env[name] = Var(atom, True, fresh, False)

    # ------------------------------------------------------------------ names of the module
    def attr_name(self, e):
        if isinstance(e, ast.Constant) and isinstance(e.value, str):
            return e.value
        if isinstance(e, ast.Name) and e.id not in self.env:
            c = self.gen.string_const(e.id)
            if c is not None:
                return c
        return None

    def global_value(self, name):
        """a non-local name used as a value"""
        k = self.gen.class_name(name)
        if k is not None:
            self.gen.need_table()
            return "(ref %s)" % E.pstr(k)
        c = self.gen.string_const(name)
        if c is not None:
            return "(PStr %s)" % E.pstr(c)
        if name in BUILTIN_CLASS_VALUES and self.gen.is_builtin(name):
            return "(bref %s)" % E.pstr(name)
        if self.gen.opaque_global(name):
            # a module-level object created once by a call (a sentinel): opaque, equal only to itself
            return "(PyOpsVersioned.py_global %s)" % E.pstr(name)
        raise Unsupported("free name %s" % name)

    # ------------------------------------------------------------------ exception messages: text only
    def benign_text(self, e):
        if isinstance(e, ast.Constant):
            return True
        if isinstance(e, ast.Name):
            return e.id in self.env or self.gen.string_const(e.id) is not None
        if isinstance(e, ast.JoinedStr):
            return all(self.benign_text(v) for v in e.values)
        if isinstance(e, ast.FormattedValue):
            return self.benign_text(e.value) and (e.format_spec is None or self.benign_text(e.format_spec))
        if isinstance(e, ast.BinOp) and isinstance(e.op, ast.Add):
            return self.benign_text(e.left) and self.benign_text(e.right)
        if isinstance(e, ast.IfExp):
            return self.benign_text(e.test) and self.benign_text(e.body) and self.benign_text(e.orelse)
        if isinstance(e, ast.Attribute) and e.attr in ("__class__", "__name__"):
            return self.benign_text(e.value)
        if isinstance(e, ast.Call) and not e.keywords and all(self.benign_text(a) for a in e.args):
            f = e.func
            if isinstance(f, ast.Name) and f.id in TEXT_HELPERS and f.id not in self.env \
                    and (self.gen.is_builtin(f.id) or self.gen.is_function(f.id)):
                return True
            if isinstance(f, ast.Attribute) and f.attr in TEXT_METHODS and self.benign_text(f.value):
                return True
        return False

    def fstring(self, e):
        if not self.benign_text(e):
            raise Unsupported("f-string %s" % ast.unparse(e)[:70])
        binds, parts = [], []
        for v in e.values:
            if isinstance(v, ast.Constant) and isinstance(v.value, str):
                parts.append("(PStr %s)" % E.pstr(v.value))
            elif isinstance(v, ast.FormattedValue) and isinstance(v.value, ast.Name) and v.value.id in self.env \
                    and not self.env[v.value.id].text and v.conversion == -1 and v.format_spec is None:
                b, a = self.read(v.value.id, escape=False)
                binds += b
                parts.append(a)
            else:
                parts.append("opaque_text")
        return binds, "(py_fstr [%s])" % "; ".join(parts)

    # ------------------------------------------------------------------ values
    def val(self, e):
        if isinstance(e, ast.Name):
            if e.id in self.env:
                return self.read(e.id)
            return [], self.global_value(e.id)
        if isinstance(e, ast.Constant):
            c = e.value
            if c is None:
                return [], "PNone"
            if isinstance(c, bool):
                return [], "(PBool %s)" % E.blit(c)
            if isinstance(c, int):
                return [], "(zint %s)" % E.zlit(c)
            if isinstance(c, str):
                return [], "(PStr %s)" % E.pstr(c)
            raise Unsupported("constant %r" % (c,))
        if isinstance(e, (ast.List, ast.Tuple, ast.Set)):
            binds, atoms = [], []
            for x in e.elts:
                if isinstance(x, ast.Starred):
                    raise Unsupported("starred element of a display")
                b, a = self.val(x)
                binds += b
                atoms.append(a)
            if isinstance(e, ast.Set):
                t = self.fresh()
                return binds + [(t, "PyOpsDerive.py_set_display [%s]" % "; ".join(atoms))], t
            return binds, "(%s [%s])" % ("PList" if isinstance(e, ast.List) else "PTuple", "; ".join(atoms))
        if isinstance(e, ast.Dict):
            if not e.keys:
                return [], "(PDict [])"
            if all(k is None for k in e.keys):          # {**a, **b, ...}
                binds, atoms = [], []
                for x in e.values:
                    b, a = self.val(x)
                    binds += b
                    atoms.append(a)
                acc = "(PDict [])" if len(atoms) == 1 else atoms[0]
                rest = atoms if len(atoms) == 1 else atoms[1:]
                for a in rest:
                    t = self.fresh()
                    binds.append((t, "py_dict_merge %s %s" % (acc, a)))
                    acc = t
                return binds, acc
            raise Unsupported("dict display with entries")
        if isinstance(e, ast.JoinedStr):
            return self.fstring(e)
        if isinstance(e, ast.Attribute):
            if isinstance(e.value, ast.Name) and e.value.id not in self.env:
                std = self.gen.stdlib_class(e.value.id, e.attr)
                if std is not None:
                    return [], "(bref %s)" % E.pstr(std)
                m = self.gen.enum_member(e.value.id, e.attr)
                if m is not None:
                    return [], m
            b, o = self.val_ne(e.value)
            t = self.fresh()
            if e.attr == "__class__":
                return b + [(t, "fld_class_of %s" % o)], t
            return b + [(t, "fld_getattr h %s %s" % (o, E.pstr(e.attr)))], t
        if isinstance(e, ast.Subscript):
            b1, c = self.val_ne(e.value)
            t = self.fresh()
            if isinstance(e.slice, ast.Slice):
                if e.slice.step is not None:
                    raise Unsupported("slice with a step")
                binds, bounds = list(b1), []
                for part in (e.slice.lower, e.slice.upper):
                    if part is None:
                        bounds.append("None")
                    else:
                        b, a = self.val(part)
                        binds += b
                        bounds.append("(Some %s)" % a)
                return binds + [(t, "PyOpsVersioned.py_slice %s %s %s" % (c, bounds[0], bounds[1]))], t
            b2, k = self.val(e.slice)
            return b1 + b2 + [(t, "py_subscript %s %s" % (c, k))], t
        if isinstance(e, ast.Call):
            return self.call(e)
        if isinstance(e, ast.IfExp):
            c = self.cond(e.test)
            t = self.fresh()
            saved = copy_env(self.env)
            tb = self.valterm(e.body)
            env_t = self.env
            self.env = copy_env(saved)
            te = self.valterm(e.orelse)
            self.merge_flags([env_t, self.env])
            return [(t, "(c <- %s ;; if c then %s else %s)" % (c, tb, te))], t
        if isinstance(e, ast.BoolOp):
            op = "py_and_val" if isinstance(e.op, ast.And) else "py_or_val"
            terms = [self.valterm(v) for v in e.values]
            out = terms[-1]
            for x in reversed(terms[:-1]):
                out = "(%s %s (fun _ => %s))" % (op, x, out)
            t = self.fresh()
            return [(t, out)], t
        if isinstance(e, ast.BinOp) and isinstance(e.op, ast.Add):
            b1, a1 = self.val(e.left)
            b2, a2 = self.val(e.right)
            t = self.fresh()
            return b1 + b2 + [(t, "PyOpsVersioned.py_add %s %s" % (a1, a2))], t
        if isinstance(e, (ast.Compare, ast.UnaryOp)):
            t = self.fresh()
            return [(t, "(b <- %s ;; Ok (PBool b))" % self.cond(e))], t
        if isinstance(e, (ast.ListComp, ast.DictComp)):
            return self.comprehension(e)
        raise Unsupported("value expression %s" % ast.dump(e)[:80])

    def merge_flags(self, envs):
        """after alternative evaluations that bind nothing new: a container that escaped on one path has escaped"""
        for name, v in self.env.items():
            for ev in envs:
                if name in ev and not ev[name].fresh:
                    v.fresh = False

    # ------------------------------------------------------------------ calls
    def arguments(self, e):
        """-> (binds, [positional segment], [keyword segment]); a segment is ('one', atom) / ('star', list term) for
        positional arguments and ('kw', name, atom) / ('starstar', list term) for keywords, in evaluation order"""
        binds, pos, kws = [], [], []
        for a in e.args:
            if isinstance(a, ast.Starred):
                b, v = self.val_ne(a.value)
                t = self.fresh()
                binds += b + [(t, "py_star_args %s" % v)]
                pos.append(("star", t))
            else:
                b, v = self.val(a)
                binds += b
                pos.append(("one", v))
        for k in e.keywords:
            if k.arg is None:
                b, v = self.val_ne(k.value)
                t = self.fresh()
                binds += b + [(t, "py_star_kwargs %s" % v)]
                kws.append(("starstar", t))
            else:
                b, v = self.val(k.value)
                binds += b
                kws.append(("kw", k.arg, v))
        return binds, pos, kws

    @staticmethod
    def pos_term(pos, first=None):
        segs, cur = [], ([first] if first else [])
        for p in pos:
            if p[0] == "one":
                cur.append(p[1])
            else:
                if cur:
                    segs.append("[%s]" % "; ".join(cur))
                    cur = []
                segs.append(p[1])
        if cur or not segs:
            segs.append("[%s]" % "; ".join(cur))
        return segs[0] if len(segs) == 1 else "(%s)%%list" % " ++ ".join(segs)

    @staticmethod
    def kw_term(kws):
        segs, cur = [], []
        for p in kws:
            if p[0] == "kw":
                cur.append("(%s, %s)" % (E.pstr(p[1]), p[2]))
            else:
                if cur:
                    segs.append("[%s]" % "; ".join(cur))
                    cur = []
                segs.append(p[1])
        if cur or not segs:
            segs.append("[%s]" % "; ".join(cur))
        return segs[0] if len(segs) == 1 else "(%s)%%list" % " ++ ".join(segs)

    def call_target(self, fname, e):
        sig = self.gen.signature(fname)
        if sig is None:
            raise Unsupported("calls %s, whose parameter list is not supported" % fname)
        binds, pos, kws = self.arguments(e)
        if any(p[0] != "one" for p in pos) or any(k[0] != "kw" for k in kws):
            raise Unsupported("*args / **kwargs in a call of the translated function %s" % fname)
        names = [p for p, _, _ in sig]
        npos = sum(1 for _, kind, _ in sig if kind == "pos")
        if len(pos) > npos:
            raise Unsupported("too many positional arguments for %s" % fname)
        given = {}
        for i, p in enumerate(pos):
            given[names[i]] = p[1]
        for _, k, v in kws:
            if k not in names or k in given:
                raise Unsupported("keyword %s in a call of %s" % (k, fname))
            given[k] = v
        atoms = []
        for p, _, default in sig:
            if p in given:
                atoms.append(given[p])
            elif default is not None:
                atoms.append(default)
            else:
                raise Unsupported("call of %s without its required parameter %s" % (fname, p))
        t = self.fresh()
        return binds + [(t, "%s R %s" % (rec_field(fname), " ".join(atoms)))], t

    def call(self, e):
        f = e.func
        if isinstance(f, ast.Name) and f.id not in self.env:
            if f.id == "getattr" and self.gen.is_builtin("getattr") and not e.keywords and len(e.args) in (2, 3) \
                    and not any(isinstance(a, ast.Starred) for a in e.args):
                b0, o = self.val_ne(e.args[0])
                name = self.attr_name(e.args[1])
                t = self.fresh()
                if name == "__class__":
                    raise Unsupported("getattr(..., '__class__')")
                if name is None:
                    if len(e.args) != 3:
                        raise Unsupported("getattr with a computed name and no default")
                    bn, n = self.val(e.args[1])
                    bd, d = self.val(e.args[2])
                    return b0 + bn + bd + [(t, "fld_getattr_dyn_def h %s %s %s" % (o, n, d))], t
                if len(e.args) == 3:
                    bd, d = self.val(e.args[2])
                    return b0 + bd + [(t, "fld_getattr_def h %s %s %s" % (o, E.pstr(name), d))], t
                return b0 + [(t, "fld_getattr h %s %s" % (o, E.pstr(name)))], t
            if f.id == "len" and self.gen.is_builtin("len") and len(e.args) == 1 and not e.keywords \
                    and not isinstance(e.args[0], ast.Starred):
                b, a = self.val_ne(e.args[0])
                t = self.fresh()
                return b + [(t, "py_len %s" % a)], t
            if f.id in ("isinstance", "issubclass") and self.gen.is_builtin(f.id):
                t = self.fresh()
                return [(t, "(b <- %s ;; Ok (PBool b))" % self.cond(e))], t
            if f.id in BUILTIN_CLASS_VALUES and self.gen.is_builtin(f.id) and len(e.args) == 1 and not e.keywords \
                    and isinstance(e.args[0], ast.Call) and isinstance(e.args[0].func, ast.Attribute) \
                    and e.args[0].func.attr in ("keys", "values") and not e.args[0].args and not e.args[0].keywords:
                # K(d.keys()) / K(d.values()): the view is only iterated
                b, o = self.val_ne(e.args[0].func.value)
                v, t = self.fresh(), self.fresh()
                return b + [(v, "py_dict_%s %s" % (e.args[0].func.attr, o)),
                            (t, "py_call ext (bref %s) [PList %s] []" % (E.pstr(f.id), v))], t
            if f.id in self.local_fns:
                cname, captured, arity = self.local_fns[f.id]
                binds, pos, kws = self.arguments(e)
                if kws or any(p[0] != "one" for p in pos) or len(pos) != arity:
                    raise Unsupported("call of the nested function %s" % f.id)
                caps = []
                for n in captured:
                    b, a = self.read(n)
                    binds += b
                    caps.append(a)
                t = self.fresh()
                return binds + [(t, " ".join([cname, "h", "ext", "R"] + caps + [p[1] for p in pos]))], t
            if f.id in self.gen.fn_status:
                return self.call_target(f.id, e)
            binds, pos, kws = self.arguments(e)
            t = self.fresh()
            if self.gen.is_function(f.id):
                return binds + [(t, "ext %s %s %s" % (E.pstr(f.id), self.pos_term(pos), self.kw_term(kws)))], t
            callee = self.global_value(f.id)              # a class of the package / a builtin class
            return binds + [(t, "py_call ext %s %s %s" % (callee, self.pos_term(pos), self.kw_term(kws)))], t
        if isinstance(f, ast.Name):                       # a callable local
            b0, callee = self.read(f.id, escape=False)
            binds, pos, kws = self.arguments(e)
            t = self.fresh()
            return b0 + binds + [(t, "py_call ext %s %s %s" % (callee, self.pos_term(pos), self.kw_term(kws)))], t
        if isinstance(f, ast.Attribute):
            if f.attr in VIEW_METHODS and not e.args and not e.keywords:
                raise Unsupported("%s() outside an iteration" % f.attr)
            if f.attr in LIST_MUTATORS or f.attr in DICT_MUTATORS:
                raise Unsupported("%s(...) used as a value" % f.attr)
            if isinstance(f.value, ast.Name) and f.value.id not in self.env and self.gen.is_module(f.value.id):
                raise Unsupported("call of %s.%s" % (f.value.id, f.attr))
            if not e.args and not e.keywords:
                # o.m(): a parameterless query method of an object, seen as the attribute "m()"
                b0, o = self.val_ne(f.value)
                t = self.fresh()
                return b0 + [(t, "fld_getattr h %s %s" % (o, E.pstr(f.attr + "()")))], t
            b0, o = self.val_ne(f.value)
            binds, pos, kws = self.arguments(e)
            t = self.fresh()
            return b0 + binds + [(t, "py_meth ext %s %s %s %s" % (o, E.pstr(f.attr), self.pos_term(pos),
                                                                 self.kw_term(kws)))], t
        raise Unsupported("call %s" % ast.unparse(e)[:70])

    # ------------------------------------------------------------------ iteration
    def iter_of(self, e):
        """-> (binds, coq list term, 'single' | 'pair')"""
        if isinstance(e, ast.Call) and isinstance(e.func, ast.Attribute) and not e.args and not e.keywords \
                and e.func.attr in VIEW_METHODS:
            b, o = self.val_ne(e.func.value)
            t = self.fresh()
            return b + [(t, "py_dict_%s %s" % (e.func.attr, o))], t, ("pair" if e.func.attr == "items" else "single")
        if isinstance(e, ast.Call) and isinstance(e.func, ast.Name) and e.func.id == "enumerate" \
                and "enumerate" not in self.env and self.gen.is_builtin("enumerate") and len(e.args) == 1 \
                and not e.keywords and not isinstance(e.args[0], ast.Starred):
            b, a = self.val_ne(e.args[0])
            t = self.fresh()
            return b + [(t, "py_iter %s" % a)], "(py_enumerate %s)" % t, "pair"
        b, a = self.val_ne(e)
        t = self.fresh()
        return b + [(t, "py_iter %s" % a)], t, "single"

    def bind_target(self, target, kind):
        """binds the loop / comprehension target in self.env; -> coq pattern"""
        if kind == "single":
            if not isinstance(target, ast.Name):
                raise Unsupported("loop target %s" % ast.dump(target)[:60])
            v = self.fresh("v_" + target.id + "_")
            self.bind_local(target.id, v)
            return v
        if not (isinstance(target, ast.Tuple) and len(target.elts) == 2
                and all(isinstance(x, ast.Name) for x in target.elts)
                and target.elts[0].id != target.elts[1].id):
            raise Unsupported("target of a pair iteration %s" % ast.dump(target)[:60])
        vs = []
        for x in target.elts:
            v = self.fresh("v_" + x.id + "_")
            self.bind_local(x.id, v)
            vs.append(v)
        return "(%s, %s)" % tuple(vs)

    def used_names(self, nodes):
        out = []
        for nd in nodes:
            for m in ast.walk(nd):
                if isinstance(m, ast.Name) and m.id not in out:
                    out.append(m.id)
        return out

    def comprehension(self, e):
        if len(e.generators) != 1:
            raise Unsupported("comprehension with several generators")
        g = e.generators[0]
        if g.is_async:
            raise Unsupported("async comprehension")
        hint, self.comp_hint = self.comp_hint, None
        binds, lst, kind = self.iter_of(g.iter)
        inner_nodes = ([e.elt] if isinstance(e, ast.ListComp) else [e.key, e.value]) + list(g.ifs)
        targets = [m.id for m in ast.walk(g.target) if isinstance(m, ast.Name)]
        inv = [n for n in self.used_names(inner_nodes) if n in self.env and n not in targets]
        outer_env, outer_handlers = self.env, self.handlers
        self.env, self.handlers = {}, []
        inv_params, pre = [], []
        for n in inv:
            ov = outer_env[n]
            if ov.poison:
                raise Unsupported("read of %s after the loop / handler that bound it" % n)
            if ov.text:
                self.env[n] = ov.copy()
                continue
            p = "i_" + n
            self.env[n] = Var(p, ov.bound, False, False)
            inv_params.append(p)
        inv = [n for n in inv if not outer_env[n].text]
        try:
            pat = self.bind_target(g.target, kind)
            if isinstance(e, ast.ListComp):
                b, a = self.val(e.elt)
                elt = self.pseq(b, "Ok (Some %s)" % a)
                out_ty = "pyval"
            else:
                bk, ak = self.val(e.key)
                bv, av = self.val(e.value)
                elt = self.pseq(bk + bv, "Ok (Some (%s, %s))" % (ak, av))
                out_ty = "(pyval * pyval)"
            body = elt
            for c in reversed(g.ifs):
                body = "(c <- %s ;; if c then %s else Ok None)" % (self.cond(c), body)
        finally:
            self.env, self.handlers = outer_env, outer_handlers
        for n in inv:                                    # a container mentioned inside has been read, not handed out,
            pass                                         # unless the element expression IS the container
        for n in inv:
            if any(isinstance(x, ast.Name) and x.id == n for x in
                   ([e.elt] if isinstance(e, ast.ListComp) else [e.key, e.value])):
                self.env[n].fresh = False
        base = "%s_comp_%s" % (coq_fn(self.fname), hint if hint else "e")
        cname, i = base, 1
        while cname in self.comp_names:
            i += 1
            cname = "%s%d" % (base, i)
        self.comp_names.add(cname)
        elt_ty = "pyval" if kind == "single" else "(pyval * pyval)"
        lam = "(fun %s => %s)" % (pat if kind == "single" else "'" + pat, body)
        self.hoisted.append(
            "Definition %s (h : heap) (ext : extern) (R : recs) %s(l : list %s) : res (list %s) :=\n  filterM %s l." % (
                cname, "".join("(%s : pyval) " % p for p in inv_params), elt_ty, out_ty, lam))
        r, t = self.fresh("r"), self.fresh()
        call = ("%s h ext R %s %s" % (cname, " ".join(outer_env[n].atom for n in inv), lst)).replace("  ", " ")
        if isinstance(e, ast.ListComp):
            return binds + [(r, call)], "(PList %s)" % r
        return binds + [(r, call), (t, "py_dict_of %s" % r)], t

    # ------------------------------------------------------------------ conditions
    def classes(self, e):
        """-> ('builtin', [K_..]) | ('pkg', coq term : list pystr) | None (not a static class expression)"""
        if isinstance(e, ast.Name) and e.id not in self.env:
            if e.id in KNOWN_CLASSES and self.gen.is_builtin(e.id):
                return "builtin", [KNOWN_CLASSES[e.id]]
            k = self.gen.class_name(e.id)
            if k is not None:
                self.gen.need_table()
                return "pkg", "[%s]" % E.pstr(k)
            return None
        if isinstance(e, ast.Attribute) and isinstance(e.value, ast.Name) and e.value.id not in self.env:
            std = self.gen.stdlib_class(e.value.id, e.attr)
            if std in KNOWN_CLASSES:
                return "builtin", [KNOWN_CLASSES[std]]
            return None
        if isinstance(e, ast.Tuple) and e.elts:
            parts = [self.classes(x) for x in e.elts]
            if any(p is None for p in parts):
                raise Unsupported("class tuple %s" % ast.unparse(e)[:60])
            kinds = {p[0] for p in parts}
            if len(kinds) != 1:
                raise Unsupported("isinstance against builtin and package classes together")
            if kinds == {"builtin"}:
                return "builtin", [k for p in parts for k in p[1]]
            return "pkg", "(%s)%%list" % " ++ ".join(p[1] for p in parts)
        return None

    def cond(self, e):
        if isinstance(e, ast.BoolOp):
            op = "py_and" if isinstance(e.op, ast.And) else "py_or"
            terms = [self.cond(v) for v in e.values]
            out = terms[-1]
            for t in reversed(terms[:-1]):
                out = "(%s %s (fun _ => %s))" % (op, t, out)
            return out
        if isinstance(e, ast.UnaryOp) and isinstance(e.op, ast.Not):
            return "(py_not %s)" % self.cond(e.operand)
        if isinstance(e, ast.Compare):
            if len(e.ops) != 1:
                raise Unsupported("chained comparison")
            op, r = e.ops[0], e.comparators[0]
            if isinstance(op, (ast.Is, ast.IsNot)):
                b, a = self.val_ne(e.left)
                neg = isinstance(op, ast.IsNot)
                if isinstance(r, ast.Constant) and (r.value is None or isinstance(r.value, bool)):
                    fn = "py_is_none" if r.value is None else ("py_is_true" if r.value else "py_is_false")
                    t = "%s %s" % (fn, a)
                    return self.pseq(b, "Ok (%s)" % (("negb (%s)" % t) if neg else t))
                if isinstance(r, ast.Name) and r.id not in self.env and self.gen.class_name(r.id) is not None:
                    t = "py_is_classobj %s %s" % (a, E.pstr(self.gen.class_name(r.id)))
                    return self.pseq(b, ("py_not (%s)" % t) if neg else t)
                if isinstance(r, ast.Attribute) and isinstance(r.value, ast.Name) and r.value.id not in self.env:
                    m = self.gen.enum_member(r.value.id, r.attr)
                    if m is not None:
                        t = "py_is_member %s %s" % (a, m)
                        return self.pseq(b, "Ok (%s)" % (("negb (%s)" % t) if neg else t))
                raise Unsupported("is-comparison with %s" % ast.dump(r)[:50])
            if isinstance(op, (ast.In, ast.NotIn)):
                b1, a1 = self.val(e.left)
                if isinstance(r, (ast.List, ast.Tuple)):
                    b2, atoms = [], []
                    for x in r.elts:
                        bx, ax = self.val(x)
                        b2 += bx
                        atoms.append(ax)
                    t = "py_in_lit %s [%s]" % (a1, "; ".join(atoms))
                else:
                    b2, a2 = self.val_ne(r)
                    t = "py_in_dyn %s %s" % (a1, a2)
                if isinstance(op, ast.NotIn):
                    t = "py_not (%s)" % t
                return self.pseq(b1 + b2, t)
            fn = {ast.Lt: "py_lt", ast.LtE: "py_le", ast.Gt: "py_gt", ast.GtE: "py_ge",
                  ast.Eq: "py_eqv", ast.NotEq: "py_ne"}.get(type(op))
            if fn is None:
                raise Unsupported("comparison operator")
            b1, a1 = self.val_ne(e.left)
            b2, a2 = self.val_ne(r)
            return self.pseq(b1 + b2, "%s %s %s" % (fn, a1, a2))
        if isinstance(e, ast.Call) and not e.keywords and isinstance(e.func, ast.Name) \
                and e.func.id in ("isinstance", "issubclass") and e.func.id not in self.env \
                and self.gen.is_builtin(e.func.id) and len(e.args) == 2 \
                and not any(isinstance(a, ast.Starred) for a in e.args):
            b, a = self.val_ne(e.args[0])
            ks = self.classes(e.args[1])
            if e.func.id == "issubclass":
                if ks is None or ks[0] != "pkg":
                    raise Unsupported("issubclass against %s" % ast.unparse(e.args[1])[:50])
                return self.pseq(b, "obj_issubclass h %s %s" % (a, ks[1]))
            if ks is None:
                b2, a2 = self.val(e.args[1])
                return self.pseq(b + b2, "py_isinstance_dyn %s %s" % (a, a2))
            if ks[0] == "builtin":
                return self.pseq(b, "Ok (py_isinstance %s [%s])" % (a, "; ".join(ks[1])))
            return self.pseq(b, "cls_isinstance src_class_table %s %s" % (a, ks[1]))
        b, a = self.val_ne(e)
        return self.pseq(b, "Ok (py_truthy %s)" % a)

    # ------------------------------------------------------------------ statements (continuation-passing)
    def is_text(self, e):
        """an expression that only builds a piece of message text out of text helpers"""
        if isinstance(e, ast.IfExp):
            return self.benign_text(e.test) and self.is_text(e.body) and self.is_text(e.orelse)
        if isinstance(e, ast.Constant):
            return isinstance(e.value, str)
        if isinstance(e, ast.JoinedStr):
            return self.benign_text(e)
        if isinstance(e, ast.BinOp) and isinstance(e.op, ast.Add):
            return self.is_text(e.left) and self.is_text(e.right)
        if isinstance(e, ast.Call) and isinstance(e.func, ast.Name) and e.func.id in ("str", "repr") \
                and e.func.id not in self.env and self.gen.is_builtin(e.func.id):
            return self.benign_text(e)
        if isinstance(e, ast.Call) and isinstance(e.func, ast.Attribute) and e.func.attr == "join":
            return self.benign_text(e)
        return False

    def message_binds(self, a):
        """the argument of a raised exception: -> binds that evaluate, in order, the interpolated expressions of an
        f-string that are not benign text (an attribute read, getattr without default, ...): they can raise before
        the `raise` does; their text is not modelled"""
        if self.benign_text(a):
            return []
        if not isinstance(a, ast.JoinedStr):
            raise Unsupported("argument of the raised exception %s" % ast.unparse(a)[:70])
        binds = []
        for v in a.values:
            if self.benign_text(v):
                continue
            if not (isinstance(v, ast.FormattedValue) and v.conversion == -1 and v.format_spec is None):
                raise Unsupported("argument of the raised exception %s" % ast.unparse(a)[:70])
            b, _ = self.val_ne(v.value)
            binds += b
        return binds

    def exn_ctor(self, r):
        """-> (binds evaluated before the raise, the exception term)"""
        x = r.exc
        binds = []
        if isinstance(x, ast.Call):
            if x.keywords or any(isinstance(a, ast.Starred) for a in x.args):
                raise Unsupported("argument of the raised exception %s" % ast.unparse(x)[:70])
            for a in x.args:
                binds += self.message_binds(a)
            x = x.func
        return binds, self.exn_class(r, x)

    def exn_class(self, r, x):
        if r.cause is not None and not (isinstance(r.cause, ast.Name) and r.cause.id in self.env) \
                and not (isinstance(r.cause, ast.Subscript) and isinstance(r.cause.value, ast.Name)
                         and r.cause.value.id in self.env and isinstance(r.cause.slice, ast.Constant)):
            raise Unsupported("cause of a raise")
        if isinstance(x, ast.Name) and x.id not in self.env:
            name = x.id
            if self.gen.is_builtin(name) and name in EXN_CTORS:
                return name
            k = self.gen.class_name(name)
            if k is not None and self.gen.is_exception_class(k):
                return k if k in EXN_CTORS else "(OtherExn %s)" % E.pstr(k)
        raise Unsupported("raise of %s" % ast.dump(r)[:60])

    def join(self, names, envs_at_falls):
        """`let kj := fun <names> => REST in`: -> (kj, the continuation of the branches)"""
        kj = self.fresh("kj")

        def k():
            atoms = []
            for n in names:
                v = self.env.get(n)
                atoms.append(v.atom if v is not None and not v.poison and not v.text else "py_unbound")
            envs_at_falls.append(copy_env(self.env))
            return "(%s %s)" % (kj, " ".join(atoms) if atoms else "tt")
        return kj, Kont(k, True)

    def after_join(self, names, dropped, base_env, envs):
        """the environment in which the code after a join is translated; -> parameter text"""
        self.env = copy_env(base_env)
        params = []
        for n in names:
            p = self.fresh("v_" + n + "_")
            params.append(p)
            ok = all(n in ev and not ev[n].poison and not ev[n].text for ev in envs)
            bound = ok and all(ev[n].bound for ev in envs)
            fresh = ok and all(ev[n].fresh for ev in envs)
            self.env[n] = Var(p, bound, fresh, poison=not ok and any(n in ev and (ev[n].poison or ev[n].text)
                                                                      for ev in envs))
        for n in dropped:                               # re-bound inside, not needed afterwards: not followed
            self.env[n] = Var("py_unbound", False, False, True)
        for n, v in self.env.items():                   # a container handed out on some path has been handed out
            if n not in names and n not in dropped:
                for ev in envs:
                    if n in ev and not ev[n].fresh:
                        v.fresh = False
                    if n in ev and ev[n].poison:
                        v.poison = True
        return "".join("(%s : pyval) " % p for p in params) if params else "(_ : unit) "

    def block(self, body, k, lc, live):
        """k: Kont for falling off the end of this block under the CURRENT environment;
        lc: the innermost loop (continue / break), or None;
        live: the names the code that runs after this block may still read"""
        if not body:
            return k()
        s, rest = body[0], body[1:]
        live_s = set(self.used_names(rest)) | set(live)
        nxt = Kont(lambda: self.block(rest, k, lc, live), (not rest) and k.cheap)
        hnow = self.snap()
        if isinstance(s, ast.Expr) and isinstance(s.value, ast.Constant):
            return nxt()
        if isinstance(s, ast.Pass):
            return nxt()
        if isinstance(s, ast.Raise):
            if s.exc is None:
                if not self.exn_vars:
                    raise Unsupported("bare raise outside a handler")
                return self.raise_term(self.exn_vars[-1])
            b, xt = self.exn_ctor(s)
            return self.sseq(b, self.raise_term(xt), hnow)
        if isinstance(s, ast.Return):
            if s.value is None:
                return "(Ok PNone)"
            b, a = self.val(s.value)
            return self.sseq(b, "(Ok %s)" % a, hnow)
        if isinstance(s, ast.Continue):
            if lc is None:
                raise Unsupported("continue outside a loop")
            return lc.cont()
        if isinstance(s, ast.Break):
            if lc is None:
                raise Unsupported("break outside a loop")
            return lc.brk()
        if isinstance(s, ast.If):
            return self.stmt_if(s, nxt, lc, live_s, hnow)
        if isinstance(s, ast.Try):
            return self.stmt_try(s, nxt, lc, live_s)
        if isinstance(s, ast.For):
            return self.for_loop(s, nxt, live_s)
        if isinstance(s, ast.Assign) and len(s.targets) == 1:
            return self.stmt_assign(s.targets[0], s.value, nxt, hnow)
        if isinstance(s, ast.AugAssign) and isinstance(s.op, ast.Add) and isinstance(s.target, ast.Name):
            name = s.target.id
            if name not in self.env:
                raise Unsupported("augmented assignment to the unassigned %s" % name)
            own = self.env[name].fresh
            b0, a0 = self.read(name, escape=False)
            b1, a1 = self.val_ne(s.value) if own else self.val(s.value)
            t = self.fresh()
            v = self.fresh("v_" + name + "_")
            op = "py_list_extend" if own else "py_iadd"
            self.bind_local(name, v, fresh=own)
            return self.sseq(b0 + b1 + [(t, "%s %s %s" % (op, a0, a1))], "let %s := %s in %s" % (v, t, nxt()), hnow)
        if isinstance(s, ast.Expr) and isinstance(s.value, ast.Call):
            c = s.value
            f = c.func
            if isinstance(f, ast.Attribute) and isinstance(f.value, ast.Name) and f.value.id in self.env \
                    and (f.attr in LIST_MUTATORS or f.attr in DICT_MUTATORS):
                name = f.value.id
                if not self.env[name].fresh:
                    raise Unsupported("%s.%s(...) on a container the function does not own" % (name, f.attr))
                if len(c.args) != 1 or c.keywords or isinstance(c.args[0], ast.Starred):
                    raise Unsupported("arguments of %s.%s" % (name, f.attr))
                b0, a0 = self.read(name, escape=False)
                b1, a1 = self.val(c.args[0])
                op = LIST_MUTATORS.get(f.attr) or DICT_MUTATORS[f.attr]
                t = self.fresh()
                v = self.fresh("v_" + name + "_")
                self.bind_local(name, v, fresh=True)
                return self.sseq(b0 + b1 + [(t, "%s %s %s" % (op, a0, a1))], "let %s := %s in %s" % (v, t, nxt()),
                                 hnow)
            b, _ = self.val(c)
            return self.sseq(b, nxt(), hnow)
        raise Unsupported("statement %s" % ast.dump(s)[:80])

    def stmt_assign(self, target, value, nxt, hnow):
        if isinstance(target, ast.Name):
            name = target.id
            if self.is_text(value) and not isinstance(value, (ast.Constant, ast.JoinedStr)):
                # a piece of message text: not evaluated, mentionable in messages only
                self.env[name] = Var("opaque_text", True, False, False, True)
                return nxt()
            is_fresh = (isinstance(value, (ast.List, ast.Dict)) and not (value.elts if isinstance(value, ast.List)
                                                                         else value.keys)) \
                or isinstance(value, (ast.ListComp, ast.DictComp))
            if isinstance(value, (ast.ListComp, ast.DictComp)):
                self.comp_hint = name
            b, a = self.val(value)
            self.comp_hint = None
            v = self.fresh("v_" + name + "_")
            self.bind_local(name, v, fresh=is_fresh)
            return self.sseq(b, "let %s := %s in %s" % (v, a, nxt()), hnow)
        if isinstance(target, ast.Tuple) and all(isinstance(x, ast.Name) for x in target.elts) \
                and len({x.id for x in target.elts}) == len(target.elts):
            names = [x.id for x in target.elts]
            if isinstance(value, ast.Tuple) and len(value.elts) == len(names) \
                    and not any(isinstance(x, ast.Starred) for x in value.elts):
                binds, atoms = [], []
                for x in value.elts:
                    b, a = self.val(x)
                    binds += b
                    atoms.append(a)
                lets = ""
                for n, a in zip(names, atoms):
                    v = self.fresh("v_" + n + "_")
                    lets += "let %s := %s in " % (v, a)
                    self.bind_local(n, v)
                return self.sseq(binds, lets + nxt(), hnow)
            b, a = self.val(value)
            t = self.fresh()
            vs = []
            for n in names:
                v = self.fresh("v_" + n + "_")
                self.bind_local(n, v)
                vs.append(v)
            return self.sseq(b + [(t, "PyOpsDerive.py_unpack %d%%nat false %s" % (len(names), a))],
                             "match %s with [%s] => %s | _ => Raise Unmodelled end" % (t, "; ".join(vs), nxt()), hnow)
        if isinstance(target, ast.Subscript) and isinstance(target.value, ast.Name) \
                and not isinstance(target.slice, ast.Slice):
            name = target.value.id
            if name not in self.env or not self.env[name].fresh:
                raise Unsupported("item store into %s, which the function does not own" % name)
            bv, av = self.val(value)                    # CPython: the right-hand side first, then the subscript
            bk, ak = self.val(target.slice)
            b0, a0 = self.read(name, escape=False)
            t = self.fresh()
            v = self.fresh("v_" + name + "_")
            self.bind_local(name, v, fresh=True)
            return self.sseq(bv + bk + b0 + [(t, "PyOpsDerive.py_setitem %s %s %s" % (a0, ak, av))],
                             "let %s := %s in %s" % (v, t, nxt()), hnow)
        raise Unsupported("assignment target %s" % ast.dump(target)[:60])

    def stmt_if(self, s, nxt, lc, live, hnow):
        c = self.cond(s.test)
        base = copy_env(self.env)
        need_join = falls(s.body) and falls(s.orelse) and not nxt.cheap
        if not need_join:
            tb = self.block(s.body, nxt, lc, live)
            env_t = self.env
            self.env = copy_env(base)
            te = self.block(s.orelse, nxt, lc, live)
            self.merge_flags([env_t])
            return self.sbind("c", c, "\n   if c then %s\n   else %s" % (tb, te), hnow)
        hidden = loop_targets([s])
        assigned = [n for n in assigned_names([s]) if n not in hidden]
        names = [n for n in assigned if n in live]
        dropped = [n for n in assigned_names([s]) + hidden if n not in names]
        envs = []
        kj, kb = self.join(names, envs)
        tb = self.block(s.body, kb, lc, live)
        self.env = copy_env(base)
        te = self.block(s.orelse, kb, lc, live)
        params = self.after_join(names, dropped, base, envs)
        after = nxt()
        return "(let %s := (fun %s=> %s) in\n   %s)" % (
            kj, params, after, self.sbind("c", c, "\n   if c then %s\n   else %s" % (tb, te), hnow))

    def stmt_try(self, s, nxt, lc, live):
        if s.orelse or s.finalbody:
            raise Unsupported("try with else / finally")
        if self.handlers:
            raise Unsupported("try inside a try body")
        for n in s.body:
            for m in ast.walk(n):
                if isinstance(m, (ast.For, ast.While, ast.Continue, ast.Break, ast.Try, ast.With)):
                    raise Unsupported("%s inside a try body" % type(m).__name__)
        exc_names = [hd.name for hd in s.handlers if hd.name]
        hidden = [n for n in loop_targets([s]) if n not in exc_names]
        tvars = [n for n in assigned_names(s.body)]
        assigned = [n for n in assigned_names([s]) if n not in hidden]
        for n in exc_names:
            if n in self.env or n in tvars or n in assigned:
                raise Unsupported("`as %s` re-uses a local" % n)
        nfalls = (1 if falls(s.body) else 0) + sum(1 for hd in s.handlers if falls(hd.body))
        base = copy_env(self.env)
        envs = []
        need_join = nfalls >= 2 and not nxt.cheap
        jvars = [n for n in assigned if n in live]
        dropped = [n for n in assigned + hidden if n not in jvars]
        if need_join:
            kj, kb = self.join(jvars, envs)
        else:
            kj, kb = None, nxt
        # ---- the handlers, once:  hj x <locals the body re-binds>
        hj = self.fresh("hj")
        x = self.fresh("x")
        hparams = []
        for n in tvars:
            p = self.fresh("w_" + n + "_")
            hparams.append(p)
            old = base.get(n)
            rebound = any(isinstance(m, ast.Assign) and not isinstance(m.targets[0], ast.Subscript)
                          and n in assigned_names([m]) for st in s.body for m in ast.walk(st))
            keeps_fresh = old is not None and old.fresh and not rebound
            self.env[n] = Var(p, bool(old is not None and old.bound and not old.poison and not old.text),
                              keeps_fresh, False)
        henv = copy_env(self.env)
        chain = self.raise_term(x)                      # not caught here: the enclosing handler, or the caller
        self.exn_vars.append(x)
        handler_envs = []
        try:
            for hd in reversed(s.handlers):
                self.env = copy_env(henv)
                ks = self.exn_classes(hd.type)
                if hd.name:
                    self.env[hd.name] = Var("(exn_val %s)" % x)
                body = self.block(hd.body, kb, lc, live)
                handler_envs.append(self.env)
                chain = "(if exn_caught src_exn_table %s %s then %s\n   else %s)" % (x, ks, body, chain)
        finally:
            self.exn_vars.pop()
        hdef = "(fun (%s : exn) %s=> %s)" % (x, "".join("(%s : pyval) " % p for p in hparams), chain)
        # ---- the body: every operation that can raise hands the handler the current values
        self.env = copy_env(base)
        for ev in handler_envs:                          # what a handler handed out is handed out
            for n, v in self.env.items():
                if n in ev and not ev[n].fresh and n not in tvars:
                    v.fresh = False

        def handler_factory():
            atoms = []
            for n in tvars:
                v = self.env.get(n)
                atoms.append(v.atom if v is not None and not v.poison and not v.text else "py_unbound")
            return lambda xterm: ("(%s %s %s" % (hj, xterm, " ".join(atoms))).strip() + ")"
        def leave_try():                                # the code after the try is not covered by its handlers
            saved, self.handlers = self.handlers, []
            try:
                return kb()
            finally:
                self.handlers = saved
        self.handlers.append(handler_factory)
        try:
            tb = self.block(s.body, Kont(leave_try, kb.cheap), None, live)
        finally:
            self.handlers.pop()
        if need_join:
            params = self.after_join(jvars, dropped, base, envs)
            for n in exc_names:
                self.env[n] = Var("py_unbound", False, False, True)
            after = nxt()
            return "(let %s := (fun %s=> %s) in\n   let %s := %s in\n   %s)" % (kj, params, after, hj, hdef, tb)
        for n in exc_names + hidden:
            self.env[n] = Var("py_unbound", False, False, True)
        return "(let %s := %s in\n   %s)" % (hj, hdef, tb)

    def exn_classes(self, t):
        """the classes of an except clause -> coq list of names"""
        if t is None:
            return "[%s]" % E.pstr("BaseException")
        elts = t.elts if isinstance(t, ast.Tuple) else [t]
        names = []
        for x in elts:
            if not (isinstance(x, ast.Name) and x.id not in self.env):
                raise Unsupported("except clause %s" % ast.unparse(t)[:60])
            if self.gen.is_builtin(x.id) and x.id in EXCEPT_BUILTINS:
                names.append(x.id)
                continue
            k = self.gen.class_name(x.id)
            if k is not None and self.gen.is_exception_class(k) and k in EXN_CTORS:
                names.append(k)
                continue
            raise Unsupported("except clause names %s, not an exception class" % x.id)
        self.gen.need_exn_table()
        return "[%s]" % "; ".join(E.pstr(n) for n in names)

    def for_loop(self, s, nxt, live):
        if s.orelse:
            raise Unsupported("for ... else")
        if self.handlers:
            raise Unsupported("for inside a try body")
        hnow = None
        binds, lst, kind = self.iter_of(s.iter)
        targets = [m.id for m in ast.walk(s.target) if isinstance(m, ast.Name)]
        inner_targets = loop_targets(s.body)
        body_assigned = assigned_names(s.body)
        for n in targets:
            if n in body_assigned:
                raise Unsupported("the loop body re-binds its target %s" % n)
        assigned = [n for n in body_assigned if n not in targets and n not in inner_targets]
        used = self.used_names(s.body)
        state = [n for n in assigned if n in self.env and (n in used or n in live)]
        local = [n for n in assigned if n not in state]
        inv = [n for n in self.env if n in used and n not in state and n not in targets and n not in local]
        self.nloops += 1
        lname = "%s_loop%d" % (coq_fn(self.fname), self.nloops)
        st_ty = "".join("pyval -> " for _ in state) if state else "unit -> "
        outer_env = self.env
        for n in state + inv:
            if outer_env[n].poison:
                raise Unsupported("read of %s after the loop / handler that bound it" % n)
        inner_live = set(used) | set(live)

        # ---- the loop as a Fixpoint of its own
        self.env = {}
        inv_params = []
        for n in inv:
            if outer_env[n].text:
                self.env[n] = outer_env[n].copy()
                continue
            p = "i_" + n
            self.env[n] = Var(p, outer_env[n].bound, outer_env[n].fresh, False)
            inv_params.append(p)
        inv = [n for n in inv if not outer_env[n].text]
        st_params = []
        head_fresh = {}
        for n in state:
            if outer_env[n].text:
                raise Unsupported("the loop re-binds the message text %s" % n)
            p = self.fresh("s_" + n + "_")
            self.env[n] = Var(p, outer_env[n].bound, outer_env[n].fresh, False)
            head_fresh[n] = outer_env[n].fresh
            st_params.append(p)
        pat = self.bind_target(s.target, kind)
        head = re.sub(r"  +", " ", "%s h ext R %s k_after l'" % (lname, " ".join(inv_params)))
        escaped_inv = []

        def check_invariant():
            for n in state:
                v = self.env.get(n)
                if v is None or v.poison or v.text:
                    raise Unsupported("loop state %s is lost inside the loop" % n)
                if head_fresh[n] and not v.fresh:
                    raise Unsupported("the loop lets its own container %s escape" % n)
            for n in inv:
                v = self.env.get(n)
                if v is not None and outer_env[n].fresh and not v.fresh:
                    escaped_inv.append(n)

        def again():
            check_invariant()
            return "(%s %s)" % (head, " ".join(self.env[n].atom for n in state)) if state else "(%s)" % head

        def leave():
            check_invariant()
            return "(k_after %s)" % (" ".join(self.env[n].atom for n in state) if state else "tt")
        saved_handlers, self.handlers = self.handlers, []
        try:
            body = self.block(s.body, Kont(again, True), LoopCtx(again, leave), inner_live)
        finally:
            self.env = outer_env
            self.handlers = saved_handlers
        for n in escaped_inv:
            self.env[n].fresh = False
        elt_ty = "pyval" if kind == "single" else "(pyval * pyval)"
        sig = "Fixpoint %s (h : heap) (ext : extern) (R : recs) %s(k_after : %sres pyval) (l : list %s) %s{struct l} : res pyval :=" % (
            lname, "".join("(%s : pyval) " % p for p in inv_params), st_ty, elt_ty,
            "".join("(%s : pyval) " % p for p in st_params))
        exit_ = "k_after %s" % (" ".join(st_params) if st_params else "tt")
        self.hoisted.append("%s\n  match l with\n  | [] => %s\n  | %s :: l' =>\n   %s\n  end." % (sig, exit_, pat, body))

        # ---- the call: the code after the loop is the continuation
        inv_atoms = [outer_env[n].atom for n in inv]
        st_atoms = [outer_env[n].atom for n in state]
        k_params = []
        for n in state:
            p = self.fresh("v_" + n + "_")
            old = self.env[n]
            self.env[n] = Var(p, old.bound, old.fresh, False)
            k_params.append(p)
        for n in targets + local + inner_targets:
            if n not in state:
                self.env[n] = Var("py_unbound", False, False, True)
        after = nxt()
        kfun = "(fun %s => %s)" % (" ".join(k_params) if k_params else "_", after)
        call = "%s h ext R %s %s %s %s" % (lname, " ".join(inv_atoms), kfun, lst, " ".join(st_atoms))
        return self.sseq(binds, re.sub(r"  +", " ", call).strip(), hnow)


# --------------------------------------------------------------------------- the module

class Gen:
    def __init__(self):
        self.repo = Repo()
        if MODULE not in self.repo.trees:
            raise OSError("module %s not readable" % MODULE)
        self.tree = self.repo.tree(MODULE)
        self.fns = {}
        for n in self.tree.body:
            if isinstance(n, ast.FunctionDef):
                self.fns.setdefault(n.name, []).append(n)
        self.assigns = {}
        for n in self.tree.body:
            if isinstance(n, ast.Assign):
                for t in n.targets:
                    for m in ast.walk(t):
                        if isinstance(m, ast.Name):
                            self.assigns[m.id] = n.value
            elif isinstance(n, (ast.AnnAssign, ast.AugAssign)) and isinstance(n.target, ast.Name):
                self.assigns[n.target.id] = n.value
        self.globals_rebound = set()
        for n in ast.walk(self.tree):
            if isinstance(n, ast.Global):
                self.globals_rebound.update(n.names)
        self.module_names = self.module_level_names()
        self.fn_status = {f: "pending" for f in TARGETS}
        self.enum_defs = {}
        self.table_needed = False
        self.table_text = None
        self.table_error = None
        self.table_names = None
        self.exn_needed = False
        self.exn_text = None
        self.exn_error = None
        self._exn_classes = None
        self._sigs = {}

    # ---- names of the module
    def module_level_names(self):
        out = set(self.fns) | set(self.assigns)
        names, _ = self.repo.imports(MODULE)
        out |= set(names)
        for n in self.tree.body:
            if isinstance(n, ast.ClassDef):
                out.add(n.name)
        return out

    def is_builtin(self, name):
        """the name denotes Python's builtin (nothing at module level shadows it; star imports are checked too)"""
        if name in self.module_names or name in self.globals_rebound or not hasattr(builtins, name):
            return False
        _, stars = self.repo.imports(MODULE)
        return not stars

    def opaque_global(self, name):
        """NAME = f(...) once at module level, never re-bound, no function or class of that name"""
        v = self.assigns.get(name)
        hits = sum(1 for n in self.tree.body if isinstance(n, (ast.Assign, ast.AnnAssign, ast.AugAssign))
                   for m in ast.walk(n) if isinstance(m, ast.Name) and isinstance(m.ctx, ast.Store) and m.id == name)
        return (v is not None and isinstance(v, ast.Call) and hits == 1 and name not in self.globals_rebound
                and name not in self.fns and self.repo.classdef(MODULE, name) is None)

    def is_module(self, name):
        names, _ = self.repo.imports(MODULE)
        return name in names and names[name][0] == "mod" and name not in self.assigns and name not in self.fns

    def stdlib_class(self, mod, attr):
        names, _ = self.repo.imports(MODULE)
        imp = names.get(mod)
        if imp and imp[0] == "mod" and mod not in self.assigns and mod not in self.fns:
            return STDLIB_CLASSES.get((imp[1], attr))
        return None

    def is_function(self, name):
        """a module-level function of this module, or a function imported from a module of the package"""
        if name in self.assigns or name in self.globals_rebound:
            return False
        if name in self.fns:
            return len(self.fns[name]) == 1
        names, _ = self.repo.imports(MODULE)
        imp = names.get(name)
        seen = 0
        while imp and imp[0] == "from" and imp[1] in self.repo.trees and seen < 12:
            seen += 1
            mod, orig = imp[1], imp[2]
            defs = [n for n in self.repo.tree(mod).body if isinstance(n, ast.FunctionDef) and n.name == orig]
            if defs:
                return True
            imp = self.repo.imports(mod)[0].get(orig)
        return False

    def class_name(self, name):
        if name in self.assigns or name in self.fns or name in self.globals_rebound:
            return None
        r = self.repo.resolve(MODULE, name)
        return r[1] if r is not None else None

    def string_const(self, name, mod=MODULE, depth=0):
        if depth > 12 or mod not in self.repo.trees:
            return None
        tree = self.repo.tree(mod)
        hits = [n for n in tree.body if isinstance(n, ast.Assign) and any(
            isinstance(t, ast.Name) and t.id == name for t in n.targets)]
        if hits:
            if len(hits) == 1 and len(hits[0].targets) == 1 and isinstance(hits[0].value, ast.Constant) \
                    and isinstance(hits[0].value.value, str) and not any(
                        isinstance(g, ast.Global) and name in g.names for g in ast.walk(tree)):
                return hits[0].value.value
            return None
        if any(isinstance(n, (ast.FunctionDef, ast.ClassDef)) and n.name == name for n in tree.body):
            return None
        imp = self.repo.imports(mod)[0].get(name)
        if imp and imp[0] == "from":
            return self.string_const(imp[2], imp[1], depth + 1)
        return None

    def enum_member(self, cls, member):
        if cls in self.assigns or cls in self.fns:
            return None
        r = self.repo.resolve(MODULE, cls)
        if r is None:
            return None
        ms = self.repo.enum_members(r)
        if ms is None:
            return None
        for n, v in ms:
            if n == member:
                self.enum_defs[r[1]] = ms
                return "(PEnum %s %s (zint %s))" % (E.pstr(r[1]), E.pstr(n), E.zlit(v))
        raise Unsupported("%s has no member %s" % (cls, member))

    # ---- tables
    def all_classes(self):
        out = []
        for mod in sorted(self.repo.trees):
            for n in self.repo.tree(mod).body:
                if isinstance(n, ast.ClassDef):
                    out.append((mod, n.name))
        return out

    def need_table(self):
        self.table_needed = True
        if self.table_text is None and self.table_error is None:
            try:
                rows, seen = [], {}
                for key in self.all_classes():
                    anc = [a[1] for a in self.repo.ancestors(key)]
                    if key[1] in seen:
                        if seen[key[1]] != anc:
                            raise Unsupported("two classes named %s with different ancestors" % key[1])
                        continue
                    seen[key[1]] = anc
                    rows.append("(%s, [%s])" % (E.pstr(key[1]), "; ".join(E.pstr(a) for a in anc)))
                if not rows:
                    raise Unsupported("no class statement found")
                self.table_names = set(seen)
                self.table_text = ("(* every class statement of the package -> all its proper ancestors inside the package *)\n"
                                   "Definition src_class_table : class_table :=\n  [ %s ]." % ";\n    ".join(rows))
            except Unsupported as e:
                self.table_error = str(e)
        if self.table_error:
            raise Unsupported("class table: %s" % self.table_error)

    def exception_classes(self):
        """package class name -> all its ancestors (package and builtin), for the classes that are exceptions"""
        if self._exn_classes is None:
            out = {}
            for key in self.all_classes():
                chain = []

                def walk(k, depth=0):
                    cd = self.repo.classdef(*k)
                    for b in cd.bases if cd is not None and depth < 12 else []:
                        if not isinstance(b, ast.Name):
                            continue
                        r = self.repo.resolve(k[0], b.id)
                        if r is not None:
                            if r[1] not in chain:
                                chain.append(r[1])
                            walk(r, depth + 1)
                            continue
                        bi = getattr(builtins, b.id, None)
                        shadow = b.id in self.repo.imports(k[0])[0] or any(
                            isinstance(n, (ast.FunctionDef, ast.Assign)) and getattr(n, "name", None) == b.id
                            for n in self.repo.tree(k[0]).body)
                        if isinstance(bi, type) and issubclass(bi, BaseException) and not shadow:
                            for c in bi.__mro__:
                                if c is not object and c.__name__ not in chain:
                                    chain.append(c.__name__)
                walk(key)
                if "BaseException" in chain:
                    if key[1] in out and out[key[1]] != chain:
                        out[key[1]] = None
                    else:
                        out[key[1]] = chain
            self._exn_classes = out
        return self._exn_classes

    def is_exception_class(self, name):
        return self.exception_classes().get(name) is not None

    def need_exn_table(self):
        self.exn_needed = True
        if self.exn_text is None and self.exn_error is None:
            ex = self.exception_classes()
            bad = [k for k, v in ex.items() if v is None]
            if bad:
                self.exn_error = "two exception classes named %s" % bad[0]
            else:
                rows = ["(%s, [%s])" % (E.pstr(k), "; ".join(E.pstr(a) for a in ex[k])) for k in sorted(ex)]
                self.exn_text = ("(* the exception classes the package defines -> all their proper ancestors *)\n"
                                 "Definition src_exn_table : class_table :=\n  [ %s ]." % ";\n    ".join(rows))
        if self.exn_error:
            raise Unsupported("exception table: %s" % self.exn_error)

    # ---- signatures
    def signature(self, fname):
        """[(python name, 'pos' | 'kw', coq default atom or None)] for all parameters; None = unsupported"""
        if fname in self._sigs:
            return self._sigs[fname]
        sig = None
        defs = self.fns.get(fname, [])
        if len(defs) == 1 and fname not in self.assigns and fname not in self.globals_rebound:
            a = defs[0].args
            if not (a.vararg or a.kwarg or getattr(a, "posonlyargs", [])):
                def const(d):
                    if d is None:
                        return None
                    if isinstance(d, ast.Constant):
                        c = d.value
                        if c is None:
                            return "PNone"
                        if isinstance(c, bool):
                            return "(PBool %s)" % E.blit(c)
                        if isinstance(c, int):
                            return "(zint %s)" % E.zlit(c)
                        if isinstance(c, str):
                            return "(PStr %s)" % E.pstr(c)
                    return "BAD"
                sig = []
                nodef = len(a.args) - len(a.defaults)
                for i, p in enumerate(a.args):
                    sig.append((p.arg, "pos", const(a.defaults[i - nodef]) if i >= nodef else None))
                for p, d in zip(a.kwonlyargs, a.kw_defaults):
                    sig.append((p.arg, "kw", const(d)))
                if any(d == "BAD" for _, _, d in sig) or len({p for p, _, _ in sig}) != len(sig):
                    sig = None
        self._sigs[fname] = sig
        return sig

    @staticmethod
    def coq_param(p):
        clash = p in RESERVED or re.match(r"^([trbx]\d+|[vsiw]_.*|kj\d+|hj\d+)$", p)
        return p + "_" if clash else p

    # ---- one function
    def translate(self, fname):
        defs = self.fns.get(fname, [])
        if not defs:
            raise Unsupported("function %s not found at module level" % fname)
        if len(defs) != 1 or fname in self.assigns or fname in self.globals_rebound:
            raise Unsupported("%s is defined more than once" % fname)
        node = defs[0]
        if node.decorator_list:
            raise Unsupported("decorator %s" % ast.unparse(node.decorator_list[0]))
        sig = self.signature(fname)
        if sig is None:
            raise Unsupported("parameter list of %s" % fname)
        # nested `def`s at the top of the body: lifted (the outer PARAMETERS they mention become parameters)
        nested, stmts = [], list(node.body)
        while stmts and (isinstance(stmts[0], ast.FunctionDef)
                         or (isinstance(stmts[0], ast.Expr) and isinstance(stmts[0].value, ast.Constant) and not nested)):
            if isinstance(stmts[0], ast.FunctionDef):
                nested.append(stmts[0])
            stmts.pop(0)
        for n in ast.walk(node):
            if isinstance(n, (ast.Global, ast.Nonlocal, ast.Yield, ast.YieldFrom, ast.Await, ast.Lambda,
                              ast.AsyncFunctionDef, ast.ClassDef, ast.While, ast.With,
                              ast.Delete, ast.NamedExpr, ast.Import, ast.ImportFrom)) and n is not node:
                raise Unsupported("%s inside %s" % (type(n).__name__, fname))
            if isinstance(n, ast.FunctionDef) and n is not node and n not in nested:
                raise Unsupported("nested def %s not at the top of %s" % (n.name, fname))
        params = [(p, self.coq_param(p)) for p, _, _ in sig]
        tr = TrD(self, fname, params)
        cname = coq_fn(fname)
        outer_assigned = set(assigned_names(stmts)) | set(loop_targets(stmts))
        for nd in nested:
            a = nd.args
            if nd.decorator_list or a.vararg or a.kwarg or a.kwonlyargs or a.defaults or getattr(a, "posonlyargs", []) \
                    or nd.name in tr.local_fns or nd.name in dict(params) or nd.name in outer_assigned:
                raise Unsupported("nested def %s" % nd.name)
            for m in ast.walk(nd):
                if isinstance(m, ast.FunctionDef) and m is not nd:
                    raise Unsupported("def inside the nested def %s" % nd.name)
                if isinstance(m, ast.Name) and m.id == nd.name:
                    raise Unsupported("the nested def %s mentions itself" % nd.name)
            for m in ast.walk(ast.Module(body=stmts, type_ignores=[])):
                if isinstance(m, ast.Name) and m.id == nd.name and not isinstance(m.ctx, ast.Load):
                    raise Unsupported("the nested def %s is re-bound" % nd.name)
            own = [x.arg for x in a.args]
            local_names = set(own) | set(assigned_names(nd.body)) | set(loop_targets(nd.body))
            used = tr.used_names(nd.body)
            captured = [p for p, _ in params if p in used and p not in local_names]
            for n in used:
                if n not in local_names and n not in captured and (n in outer_assigned or n in tr.local_fns):
                    raise Unsupported("the nested def %s reads the outer local %s" % (nd.name, n))
            if any(p in outer_assigned for p in captured):
                raise Unsupported("the nested def %s captures a parameter that %s re-binds" % (nd.name, fname))
            sub = TrD(self, fname, [(p, self.coq_param(p)) for p in captured] +
                      [(x, self.coq_param(x) + "_") if x in captured else (x, self.coq_param(x)) for x in own])
            sub.n = tr.n
            sub.comp_names = tr.comp_names
            sub.nloops = tr.nloops
            nbody = sub.block(nd.body, Kont(lambda: "(Ok PNone)", True), None, set())
            tr.n, tr.nloops = sub.n, sub.nloops
            tr.hoisted += sub.hoisted
            lname = "%s_fn_%s" % (cname, nd.name.lstrip("_"))
            tr.hoisted.append("Definition %s (h : heap) (ext : extern) (R : recs) %s : res pyval :=\n  %s." % (
                lname, " ".join("(%s : pyval)" % sub.env[x].atom for x in captured + own), nbody))
            tr.local_fns[nd.name] = (lname, captured, len(own))
        for m in ast.walk(ast.Module(body=stmts, type_ignores=[])):
            if isinstance(m, ast.Name) and m.id in tr.local_fns:
                pass
        for st in stmts:                                  # a nested function may only be CALLED
            for m in ast.walk(st):
                if isinstance(m, ast.Call):
                    continue
            names_called = {m.func.id for m in ast.walk(st) if isinstance(m, ast.Call) and isinstance(m.func, ast.Name)}
            uses = [m.id for m in ast.walk(st) if isinstance(m, ast.Name) and m.id in tr.local_fns]
            calls = [m.func.id for m in ast.walk(st) if isinstance(m, ast.Call) and isinstance(m.func, ast.Name)
                     and m.func.id in tr.local_fns]
            if len(uses) != len(calls):
                raise Unsupported("a nested function is used as a value")
        body = tr.block(stmts, Kont(lambda: "(Ok PNone)", True), None, set())
        text = "".join(hp + "\n\n" for hp in tr.hoisted)
        text += "Definition %s (h : heap) (ext : extern) (R : recs) %s : res pyval :=\n  %s." % (
            cname, " ".join("(%s : pyval)" % c for _, c in params), body)
        return text


def untranslatable(name, why):
    return "(* NOT TRANSLATABLE: %s *)\nDefinition %s_UNTRANSLATABLE : unit := tt." % (why.replace("*)", "* )"), name)


def render():
    lines = ["(* GENERATED by harness/genmods/py2v_deserialize.py from /repo/typedpy/serialization/serialization.py and the",
             "   class statements of the package.  Do not edit.",
             "   Each src_* definition is the translation of the named function into the dynamic-operator libraries",
             "   Base/PyOps.v, PyOps2.v, PyObj.v, PyOpsFields.v, PyOpsVersioned.v, PyOpsDerive.v, PyOpsDeserialize.v;",
             "   Ser/DeserializeSrcProofs.v proves them equal to the hand-written model of Ser/Deserialize.v (deser_val,",
             "   deser_fields, the extra-key filter of deser_struct) for every declaration and document. *)",
             "From Coq Require Import ZArith NArith String List. Import ListNotations.",
             "From TP Require Import Base.PyVal Base.PyOps Base.PyOps2 Base.PyObj Base.PyOpsFields Base.PyOpsDeserialize.",
             "From TP Require Base.PyOpsVersioned Base.PyOpsDerive.",
             "Local Open Scope string_scope.", ""]
    status = {}
    try:
        g = Gen()
    except (OSError, SyntaxError) as e:
        for f in TARGETS:
            lines.append(untranslatable(coq_fn(f), "SOURCE UNREADABLE: %s" % e) + "\n")
            status[coq_fn(f)] = "unreadable: %s" % e
        lines.append(untranslatable("src_field_fix", "source unreadable"))
        return "\n".join(lines), status
    # ---- the record of entry points: from the signatures alone
    rec_rows, have_sig = [], []
    for f in TARGETS:
        sig = g.signature(f)
        if sig is None:
            continue
        have_sig.append(f)
        rec_rows.append("  %s : %sres pyval" % (rec_field(f), "pyval -> " * len(sig)))
    chunks = []
    for f in TARGETS:
        cname = coq_fn(f)
        try:
            text = g.translate(f)
            g.fn_status[f] = "ok"
            status[cname] = "ok"
        except Unsupported as e:
            text = untranslatable(cname, str(e))
            g.fn_status[f] = "unsupported: %s" % e
            status[cname] = "unsupported: %s" % e
        sig = g.signature(f)
        head = "(* from serialization.py::%s" % f
        if sig is not None:
            head += "(%s)" % ", ".join(p for p, _, _ in sig)
        chunks.append(head + " *)\n%s\n" % text)
    if g.table_needed:
        if g.table_text:
            lines.append(g.table_text)
            status["src_class_table"] = "ok"
        else:
            lines.append(untranslatable("src_class_table", g.table_error or ""))
            status["src_class_table"] = "unsupported: %s" % g.table_error
        lines.append("")
    if g.exn_needed:
        if g.exn_text:
            lines.append(g.exn_text)
            status["src_exn_table"] = "ok"
        else:
            lines.append(untranslatable("src_exn_table", g.exn_error or ""))
            status["src_exn_table"] = "unsupported: %s" % g.exn_error
        lines.append("")
    for cls in sorted(g.enum_defs):
        lines.append("(* members of the enum class %s, as the source declares them *)" % cls)
        lines.append("Definition src_enum_%s : list (pystr * Z) :=\n  [%s]." % (
            cls.lstrip("_"), "; ".join("(%s, %s)" % (E.pstr(n), E.zlit(v)) for n, v in g.enum_defs[cls])))
        lines.append("")
    lines.append("(* the entry points of the translated functions: every call of one of them goes through this record *)")
    lines.append("Record recs := {\n%s }." % ";\n".join(rec_rows))
    lines.append("")
    lines += chunks
    # ---- the knot of the field-level functions
    bad = [f for f in FIELD_KNOT if g.fn_status.get(f) != "ok"]
    if bad:
        lines.append(untranslatable("src_field_fix", "%s is not translated" % bad[0]))
        status["src_field_fix"] = "unsupported: %s is not translated" % bad[0]
    else:
        stop, step = [], []
        for f in have_sig:
            n = len(g.signature(f))
            if f in FIELD_KNOT:
                stop.append("%s := fun %s=> Raise OutOfFuel" % (rec_field(f), "_ " * n))
                step.append("%s := %s h ext R" % (rec_field(f), coq_fn(f)))
            else:
                stop.append("%s := %s outer" % (rec_field(f), rec_field(f)))
                step.append("%s := %s outer" % (rec_field(f), rec_field(f)))
        lines.append("(* the field-level functions call each other: the knot, with one unit of fuel per call; the structure-level\n"
                     "   entries are those of [outer] *)")
        lines.append("Fixpoint src_field_fix (h : heap) (ext : extern) (outer : recs) (fuel : nat) {struct fuel} : recs :=\n"
                     "  match fuel with\n  | O => {| %s |}\n  | S fuel' =>\n      let R := src_field_fix h ext outer fuel' in\n"
                     "      {| %s |}\n  end." % (";\n         ".join(stop), ";\n         ".join(step)))
        status["src_field_fix"] = "ok"
    lines.append("")
    bad = [f for f in TARGETS if g.fn_status.get(f) != "ok"]
    if bad:
        lines.append(untranslatable("src_full_fix", "%s is not translated" % bad[0]))
        status["src_full_fix"] = "unsupported: %s is not translated" % bad[0]
    else:
        stop = ["%s := fun %s=> Raise OutOfFuel" % (rec_field(f), "_ " * len(g.signature(f))) for f in have_sig]
        step = ["%s := %s h ext R" % (rec_field(f), coq_fn(f)) for f in have_sig]
        lines.append("(* all the translated functions call each other: the knot, with one unit of fuel per call *)")
        lines.append("Fixpoint src_full_fix (h : heap) (ext : extern) (fuel : nat) {struct fuel} : recs :=\n"
                     "  match fuel with\n  | O => {| %s |}\n  | S fuel' =>\n      let R := src_full_fix h ext fuel' in\n"
                     "      {| %s |}\n  end." % (";\n         ".join(stop), ";\n         ".join(step)))
        status["src_full_fix"] = "ok"
    lines.append("")
    return "\n".join(lines), status


def regenerate():
    text, status = render()
    core.write_if_changed(os.path.join(core.COQDIR, OUT), text)
    return status
