"""Gen/SharedAccess.v (property C20): ordered accesses of the collection validators to attributes of SHARED Field
objects.  Extracted from the C20 builder's additions to harness/gen.py; plug-in of harness.gen.regenerate()."""
import ast
import collections
import copy
import datetime
import inspect
import typing
import collections
import os
import sys

from harness import core
from harness import coqemit as E
from harness.gen import _class_node


# =============================================================================================
# C20: shared-state access lists of the collection validators  ->  Gen/SharedAccess.v
# =============================================================================================
# For every validator (`__set__` of Array/Deque/Tuple/Set/ImmutableSet/Map/AllOf/AnyOf/OneOf/NotField,
# the helper `extract_field_value`, and every `serialize` that installs a cached closure) the ORDERED
# list of accesses to attributes of SHARED Field objects is extracted from the AST:
#   W target._name := value-kind, target.__set__(scratch, x) (the callee stores under R target._name),
#   R target._name (read-back), the final store under self._name, writes of self.<attr>.
# Anything that writes an attribute of a non-local object and is not recognised becomes
# `AUnrecognised`, which no safety predicate accepts (fail closed).

SUFFIXES = ["_key", "_value"]

SA_VALIDATORS = [
    # (entry base name, file, class or None, function)
    ("Array", "typedpy/fields/array.py", "Array", "__set__"),
    ("Deque", "typedpy/fields/deque_field.py", "Deque", "__set__"),
    ("Tuple", "typedpy/fields/tuple_field.py", "Tuple", "__set__"),
    ("Set", "typedpy/fields/set_field.py", "Set", "__set__"),
    ("ImmutableSet", "typedpy/fields/set_field.py", "ImmutableSet", "__set__"),
    ("Map", "typedpy/fields/map_field.py", "Map", "__set__"),
    ("AllOf", "typedpy/fields/multified_wrappers.py", "AllOf", "__set__"),
    ("AnyOf", "typedpy/fields/multified_wrappers.py", "AnyOf", "__set__"),
    ("OneOf", "typedpy/fields/multified_wrappers.py", "OneOf", "__set__"),
    ("NotField", "typedpy/fields/multified_wrappers.py", "NotField", "__set__"),
    ("Array.serialize", "typedpy/fields/array.py", "Array", "serialize"),
    ("Tuple.serialize", "typedpy/fields/tuple_field.py", "Tuple", "serialize"),
    ("Set.serialize", "typedpy/fields/set_field.py", "Set", "serialize"),
    ("Deque.serialize", "typedpy/fields/deque_field.py", "Deque", "serialize"),
    ("Map.serialize", "typedpy/fields/map_field.py", "Map", "serialize"),
]
SA_HELPERS = {"extract_field_value": "typedpy/fields/array.py"}


def _is_self_attr(n, attr):
    return isinstance(n, ast.Attribute) and n.attr == attr and isinstance(n.value, ast.Name) and n.value.id == "self"


def _is_name_get(n):
    """getattr(X, "_name") or X._name  ->  X (ast node) else None"""
    if isinstance(n, ast.Attribute) and n.attr == "_name":
        return n.value
    if (isinstance(n, ast.Call) and isinstance(n.func, ast.Name) and n.func.id == "getattr" and len(n.args) == 2
            and isinstance(n.args[1], ast.Constant) and n.args[1].value == "_name"):
        return n.args[0]
    return None


def _is_self_name(n):
    x = _is_name_get(n)
    return x is not None and isinstance(x, ast.Name) and x.id == "self"


class _SA:
    def __init__(self, fn, variant, helpers, params, file=None):
        self.file = file
        self.fn = fn
        self.variant = variant
        self.helpers = helpers
        self.env = {}            # local name -> target string
        self.alias = {}          # local name -> "fields" | "repeat"
        self.scr = {}            # local name -> "ScrOnce" | "ScrPerIter"
        self.scope = "Once"
        self.loop_idx = None
        self.in_loop = False
        self.seen_loop = False
        self.acc = []            # (coq_text, kind, lineno, end_lineno)
        self.params = params
        self.variants_seen = set()
        self.saved = {}          # local name -> target whose _name it holds (own_name = getattr(field, "_name", None))
        self.namevals = {}       # local / parameter name -> wvalue it denotes (a parameter bound to self._name)
        self.module_fns = {}     # module-level functions of the same file (inlined when handed a shared Field object)
        self.depth = 0

    # ---- helpers
    def emit(self, text, kind, node):
        st = self.cur_stmt
        self.acc.append((text, kind, st.lineno, getattr(st, "end_lineno", st.lineno), self.file))

    def target(self, n):
        if isinstance(n, ast.Name):
            if n.id == "self":
                return "TSelf"
            return self.env.get(n.id)
        if _is_self_attr(n, "items"):
            return "TShared"
        return None

    def is_fields_expr(self, n):
        """self.items / self.get_fields() / self._fields / alias  ->  'fields' | 'repeat' | None"""
        if _is_self_attr(n, "items") or _is_self_attr(n, "_fields"):
            return "fields"
        if isinstance(n, ast.Call) and _is_self_attr(n.func, "get_fields") and not n.args:
            return "fields"
        if isinstance(n, ast.Name) and n.id in self.alias:
            return self.alias[n.id]
        return None

    def wvalue(self, e):
        if _is_self_name(e):
            return "VSelf"
        if isinstance(e, ast.Name) and e.id in self.namevals:
            return self.namevals[e.id]
        if isinstance(e, ast.Name) and e.id in self.saved:
            return "VSaved"          # the name read from the same object earlier is put back
        if isinstance(e, ast.BinOp) and isinstance(e.op, ast.Add) and _is_self_name(e.left):
            r = e.right
            if isinstance(r, ast.Constant) and r.value in SUFFIXES:
                return "(VSelfSuffix %d)" % SUFFIXES.index(r.value)
            if (isinstance(r, ast.JoinedStr) and len(r.values) == 2 and isinstance(r.values[0], ast.Constant)
                    and r.values[0].value == "_" and isinstance(r.values[1], ast.FormattedValue) and self.in_loop):
                v = r.values[1].value
                if isinstance(v, ast.Call) and isinstance(v.func, ast.Name) and v.func.id == "str" and len(v.args) == 1:
                    v = v.args[0]
                if isinstance(v, ast.Name) and v.id == self.loop_idx:
                    return "VSelfIdx"
        return "VUnknown"

    def scratch_kind(self, n):
        if isinstance(n, ast.Name) and n.id in self.scr:
            return self.scr[n.id]
        if isinstance(n, ast.Call) and isinstance(n.func, ast.Name) and n.func.id == "_scratch_instance":
            return "ScrPerIter" if self.in_loop else "ScrOnce"
        return "ScrUnknown"

    def is_private_copy(self, n):
        """copy(X) / copy.copy(X) / private_copy(X) of a (sub-)field: an object private to this call"""
        if not (isinstance(n, ast.Call) and len(n.args) == 1 and not n.keywords):
            return False
        f = n.func
        nm = f.id if isinstance(f, ast.Name) else (f.attr if isinstance(f, ast.Attribute) else None)
        if nm not in ("copy", "_shallow_copy", "private_copy", "_private_copy"):
            return False
        a = n.args[0]
        if isinstance(a, ast.Subscript):
            a = a.value
        return self.target(a) is not None or self.is_fields_expr(a) is not None

    def is_new_scratch(self, n):
        return (isinstance(n, ast.Call) and isinstance(n.func, ast.Name)
                and n.func.id in ("Structure", "_scratch_instance"))

    # ---- statements
    def block(self, stmts):
        for s in stmts:
            self.stmt(s)

    def stmt(self, s):
        self.cur_stmt = s
        if isinstance(s, ast.If):
            tag = self.variant_tag(s.test)
            if tag is not None:
                self.variants_seen.add(tag)
                if tag == self.variant:
                    self.block(s.body)
                else:
                    self.block(s.orelse)
                return
            self.expr(s.test)
            self.block(s.body)
            self.block(s.orelse)
            return
        if isinstance(s, ast.For):
            if self.in_loop:
                self.emit("(AUnrecognised %d)" % s.lineno, "U", s)
                return
            it = s.iter
            idx = None
            var = s.target
            if isinstance(it, ast.Call) and isinstance(it.func, ast.Name) and it.func.id == "enumerate" and len(it.args) == 1:
                it = it.args[0]
                if isinstance(s.target, ast.Tuple) and len(s.target.elts) == 2 and all(isinstance(x, ast.Name) for x in s.target.elts):
                    idx, var = s.target.elts[0].id, s.target.elts[1]
            kind = self.is_fields_expr(it)
            saved_env = dict(self.env)
            if kind is not None:
                if not isinstance(var, ast.Name):
                    self.emit("(AUnrecognised %d)" % s.lineno, "U", s)
                    return
                self.env[var.id] = "TDistinct" if kind == "fields" else "TShared"
            self.in_loop, self.loop_idx, self.scope = True, idx, "PerIter"
            self.block(s.body)
            self.in_loop, self.loop_idx, self.scope = False, None, "After"
            self.seen_loop = True
            self.env = saved_env
            self.block(s.orelse)
            return
        if isinstance(s, ast.While):
            self.emit("(AUnrecognised %d)" % s.lineno, "U", s)
            return
        if isinstance(s, ast.Try):
            self.block(s.body)
            for h in s.handlers:
                self.block(h.body)
            self.block(s.orelse)
            self.block(s.finalbody)
            return
        if isinstance(s, (ast.FunctionDef, ast.ClassDef, ast.With)):
            self.emit("(AUnrecognised %d)" % s.lineno, "U", s)
            return
        if isinstance(s, ast.Assign):
            self.expr(s.value)
            self.cur_stmt = s
            for t in s.targets:
                self.assign_target(t, s.value, s)
            return
        if isinstance(s, ast.AugAssign):
            self.expr(s.value)
            if not isinstance(s.target, ast.Name):
                self.emit("(AUnrecognised %d)" % s.lineno, "U", s)
            return
        for child in ast.iter_child_nodes(s):
            if isinstance(child, ast.expr):
                self.expr(child)

    def variant_tag(self, test):
        if (isinstance(test, ast.Call) and isinstance(test.func, ast.Name) and test.func.id == "isinstance"
                and len(test.args) == 2 and _is_self_attr(test.args[0], "items") and isinstance(test.args[1], ast.Name)):
            return {"Field": "Each", "list": "Positional"}.get(test.args[1].id)
        return None

    def name_read_target(self, value):
        """X._name / getattr(X, "_name"[, default]) for a shared X -> its target"""
        x = None
        if isinstance(value, ast.Attribute) and value.attr == "_name":
            x = value.value
        elif (isinstance(value, ast.Call) and isinstance(value.func, ast.Name) and value.func.id == "getattr"
              and len(value.args) in (2, 3) and isinstance(value.args[1], ast.Constant) and value.args[1].value == "_name"):
            x = value.args[0]
        if x is None:
            return None
        tg = self.target(x)
        return tg if tg not in (None, "TSelf", "TPrivate") else None

    def assign_target(self, t, value, s):
        if isinstance(t, ast.Name):
            tg = self.name_read_target(value)
            if tg is not None:
                self.saved[t.id] = tg
                self.emit("(ASave %s %s %d)" % (tg, self.scope, s.lineno), "RB", s)
                return
            if self.is_private_copy(value):
                self.env[t.id] = "TPrivate"
                self.alias.pop(t.id, None)
                return
            if self.is_new_scratch(value):
                self.scr[t.id] = "ScrPerIter" if self.in_loop else "ScrOnce"
            elif (isinstance(value, ast.IfExp) and self.is_fields_expr(value.body) == "fields"
                  and isinstance(value.orelse, ast.BinOp) and isinstance(value.orelse.op, ast.Mult)
                  and self.is_fields_expr(value.orelse.left) == "fields"):
                self.variants_seen.update(["Positional", "Uniform"])
                self.alias[t.id] = "fields" if self.variant == "Positional" else "repeat"
            elif self.is_fields_expr(value) is not None:
                self.alias[t.id] = self.is_fields_expr(value)
            else:
                self.env.pop(t.id, None)
                self.scr.pop(t.id, None)
            return
        if isinstance(t, ast.Tuple) and isinstance(value, ast.Tuple) and len(t.elts) == len(value.elts):
            for a, b in zip(t.elts, value.elts):
                if isinstance(a, ast.Name) and self.is_private_copy(b):
                    self.env[a.id] = "TPrivate"
                elif (isinstance(a, ast.Name) and isinstance(b, ast.Subscript) and _is_self_attr(b.value, "items")
                        and isinstance(b.slice, ast.Constant) and isinstance(b.slice.value, int)):
                    self.env[a.id] = "(TFixed %d)" % b.slice.value
                elif isinstance(a, ast.Name):
                    self.env.pop(a.id, None)
                else:
                    self.emit("(AUnrecognised %d)" % s.lineno, "U", s)
            return
        if isinstance(t, ast.Attribute):
            if isinstance(t.value, ast.Name) and t.value.id in self.scr:
                return                                   # attribute of the thread's own scratch structure
            if isinstance(t.value, ast.Name) and t.value.id == "self":
                if t.attr == "_name":
                    self.emit("(AUnrecognised %d)" % s.lineno, "U", s)
                    return
                self.emit('(AWriteAttr "%s" %s %d)' % (t.attr, E.blit(self.lazy_const(value)), s.lineno), "A", s)
                return
            tg = self.target(t.value)
            if tg == "TPrivate":
                return
            if tg is not None and t.attr == "_name":
                self.emit("(AWrite %s %s %s %d)" % (tg, self.wvalue(value), self.scope, s.lineno), "W", s)
                return
            self.emit("(AUnrecognised %d)" % s.lineno, "U", s)
            return
        if isinstance(t, ast.Subscript):
            if isinstance(t.value, ast.Name):
                self.expr(t.slice)
                return                                   # res[...] = ...   (a local container)
            self.emit("(AUnrecognised %d)" % s.lineno, "U", s)
            return
        self.emit("(AUnrecognised %d)" % s.lineno, "U", s)

    def lazy_const(self, value):
        """the stored value is a closure over the declaration only (not over the call's arguments)"""
        if not isinstance(value, ast.Lambda):
            return False
        if value.args.defaults or value.args.kw_defaults:
            return False
        bound = {a.arg for a in value.args.args}
        for n in ast.walk(value.body):
            if isinstance(n, ast.comprehension):
                for x in ast.walk(n.target):
                    if isinstance(x, ast.Name):
                        bound.add(x.id)
        free = {n.id for n in ast.walk(value.body) if isinstance(n, ast.Name) and isinstance(n.ctx, ast.Load)} - bound
        return not (free & (set(self.params) - {"self"}))

    # ---- expressions (evaluation order approximated by source order)
    def expr(self, e):
        if isinstance(e, ast.Call):
            f = e.func
            # setattr(X, "attr", E)
            if isinstance(f, ast.Name) and f.id == "setattr" and len(e.args) == 3:
                self.expr(e.args[2])
                tg = self.target(e.args[0])
                a1 = e.args[1]
                if tg == "TPrivate":
                    pass
                elif tg is not None and isinstance(a1, ast.Constant) and a1.value == "_name" and tg != "TSelf":
                    self.emit("(AWrite %s %s %s %d)" % (tg, self.wvalue(e.args[2]), self.scope, self.cur_stmt.lineno), "W", e)
                elif tg == "TSelf" and isinstance(a1, ast.Constant) and a1.value != "_name":
                    self.emit('(AWriteAttr "%s" %s %d)' % (a1.value, E.blit(self.lazy_const(e.args[2])), self.cur_stmt.lineno), "A", e)
                elif isinstance(e.args[0], ast.Name) and e.args[0].id in self.scr:
                    pass
                else:
                    self.emit("(AUnrecognised %d)" % self.cur_stmt.lineno, "U", e)
                return
            # getattr(S, <name of X>)
            if isinstance(f, ast.Name) and f.id == "getattr" and len(e.args) >= 2:
                x = _is_name_get(e.args[1])
                if x is not None:
                    tg = self.target(x)
                    sk = self.scratch_kind(e.args[0])
                    if tg == "TPrivate":
                        pass
                    elif tg == "TSelf":
                        self.emit("(AReadBackSelf %s %s %d)" % (sk, self.scope, self.cur_stmt.lineno), "RB", e)
                    elif tg is not None:
                        self.emit("(AReadBack %s %s %s %d)" % (tg, sk, self.scope, self.cur_stmt.lineno), "RB", e)
                    else:
                        self.emit("(AUnrecognised %d)" % self.cur_stmt.lineno, "U", e)
                    return
            # X.__set__(S, v)   /   super().__set__(instance, v)
            if isinstance(f, ast.Attribute) and f.attr == "__set__":
                for a in e.args:
                    if not self.is_new_scratch(a):
                        self.expr(a)
                if isinstance(f.value, ast.Call) and isinstance(f.value.func, ast.Name) and f.value.func.id == "super":
                    self.emit("(AStoreSelf %d)" % self.cur_stmt.lineno, "S", e)
                    return
                tg = self.target(f.value)
                if tg == "TPrivate":
                    pass
                elif tg is not None and tg != "TSelf" and e.args:
                    self.emit("(ACallSet %s %s %s %d)" % (tg, self.scratch_kind(e.args[0]), self.scope, self.cur_stmt.lineno), "C", e)
                else:
                    self.emit("(AUnrecognised %d)" % self.cur_stmt.lineno, "U", e)
                return
            # helper(self=self, ...)
            if isinstance(f, ast.Name) and f.id in self.helpers and any(
                    k.arg == "self" and isinstance(k.value, ast.Name) and k.value.id == "self" for k in e.keywords):
                if self.in_loop:
                    self.emit("(AUnrecognised %d)" % self.cur_stmt.lineno, "U", e)
                    return
                sub = self.helpers[f.id]
                self.acc += sub
                if any(a[1] in ("W", "C") for a in sub):
                    self.seen_loop = True
                    self.scope = "After"
                return
            # f(X, ...) with X a shared Field object: a module-level function of the same file is inlined with its
            # parameters bound (X -> the target, self._name -> VSelf); anything else may do anything to X
            if isinstance(f, ast.Name) and f.id not in ("getattr", "setattr", "isinstance", "hasattr", "str", "repr", "len", "type",
                                                        "wrap_val", "_get_type_name", "id"):
                shared_args = [(i, a, self.target(a)) for i, a in enumerate(e.args)
                               if isinstance(a, ast.Name) and self.target(a) not in (None, "TSelf", "TPrivate")]
                if shared_args:
                    callee = self.module_fns.get(f.id)
                    if callee is None or self.depth >= 2 or e.keywords:
                        self.emit("(AUnrecognised %d)" % self.cur_stmt.lineno, "U", e)
                        return
                    cparams = [a.arg for a in callee.args.args]
                    sub = _SA(callee, self.variant, self.helpers, cparams, self.file)
                    sub.module_fns, sub.depth = self.module_fns, self.depth + 1
                    sub.scope, sub.in_loop, sub.loop_idx = self.scope, self.in_loop, None
                    for i, a in enumerate(e.args):
                        if i >= len(cparams):
                            break
                        tg = self.target(a) if isinstance(a, ast.Name) else None
                        if tg not in (None, "TPrivate"):
                            sub.env[cparams[i]] = tg
                        elif _is_self_name(a) or (isinstance(a, ast.Name) and a.id in self.namevals):
                            sub.namevals[cparams[i]] = self.wvalue(a)
                        elif isinstance(a, ast.Name) and a.id in self.scr:
                            sub.scr[cparams[i]] = self.scr[a.id]
                    sub.block([x for x in callee.body if not (isinstance(x, ast.Expr) and isinstance(x.value, ast.Constant))])
                    self.acc += sub.acc
                    return
        if isinstance(e, ast.Subscript) and isinstance(e.ctx, ast.Load):
            # S.__dict__[self._name]
            if isinstance(e.value, ast.Attribute) and e.value.attr == "__dict__" and _is_self_name(e.slice):
                self.emit("(AReadBackSelf %s %s %d)" % (self.scratch_kind(e.value.value), self.scope, self.cur_stmt.lineno), "RB", e)
                return
        if isinstance(e, ast.Lambda):
            return
        if isinstance(e, ast.NamedExpr):
            self.emit("(AUnrecognised %d)" % self.cur_stmt.lineno, "U", e)
            return
        for child in ast.iter_child_nodes(e):
            if isinstance(child, ast.expr):
                self.expr(child)
            elif isinstance(child, ast.comprehension):
                self.expr(child.iter)
                for c in child.ifs:
                    self.expr(c)


def _find_function(tree, cls, fn):
    if cls is None:
        for n in tree.body:
            if isinstance(n, ast.FunctionDef) and n.name == fn:
                return n
        return None
    c = _class_node(tree, cls)
    if c is None:
        return None
    for n in c.body:
        if isinstance(n, ast.FunctionDef) and n.name == fn:
            return n
    return None


def _sa_extract(fn, variant, helpers, file=None, module_fns=None):
    params = [a.arg for a in fn.args.args + fn.args.kwonlyargs]
    x = _SA(fn, variant, helpers, params, file)
    x.module_fns = module_fns or {}
    body = [s for s in fn.body if not (isinstance(s, ast.Expr) and isinstance(s.value, ast.Constant))]
    x.block(body)
    return x.acc, x.variants_seen


def store_key_lines():
    """Lines of Field.__set__ that store under the name re-read from the field object:
    `instance.__dict__[self._name] = ...`."""
    rel = "typedpy/structures/structures.py"
    tree = ast.parse(open(os.path.join(core.REPO, rel)).read())
    fn = _find_function(tree, "Field", "__set__")
    if fn is None:
        raise RuntimeError("Field.__set__ not found")
    out = []
    for n in ast.walk(fn):
        if isinstance(n, ast.Assign):
            for t in n.targets:
                if (isinstance(t, ast.Subscript) and isinstance(t.value, ast.Attribute) and t.value.attr == "__dict__"
                        and _is_self_name(t.slice)):
                    out.append((n.lineno, getattr(n, "end_lineno", n.lineno)))
    if not out:
        raise RuntimeError("no store under self._name recognised in Field.__set__")
    return rel, sorted(set(out))


def shared_access():
    """-> dict(entries=[{name, file, acc:[(coq, kind, line, end)]}], store=(file, [(l, e)]), suffixes)"""
    trees = {}

    def tree_of(rel):
        if rel not in trees:
            trees[rel] = ast.parse(open(os.path.join(core.REPO, rel)).read())
        return trees[rel]

    helpers = {}
    helper_file = {}
    for h, rel in SA_HELPERS.items():
        fn = _find_function(tree_of(rel), None, h)
        if fn is not None:
            acc, _ = _sa_extract(fn, None, {}, rel)
            helpers[h] = acc
            helper_file[h] = rel
    entries = []
    for base, rel, cls, fname in SA_VALIDATORS:
        fn = _find_function(tree_of(rel), cls, fname)
        if fn is None:
            entries.append({"name": base, "file": rel, "acc": [("(AUnrecognised 0)", "U", 0, 0, rel)]})
            continue
        mfns = {n.name: n for n in tree_of(rel).body if isinstance(n, ast.FunctionDef) and n.name not in helpers}
        acc0, variants = _sa_extract(fn, None, helpers, rel, mfns)
        if variants:
            for v in sorted(variants):
                acc, _ = _sa_extract(fn, v, helpers, rel, mfns)
                entries.append({"name": "%s.%s" % (base, v), "file": rel, "acc": acc})
        else:
            entries.append({"name": base, "file": rel, "acc": acc0})
    # serialize entries without any shared write carry no information
    entries = [e for e in entries if not ("serialize" in e["name"] and not e["acc"])]
    srel, slines = store_key_lines()
    # function line ranges of the cache-installing serializers (every line is a pre-emption point)
    for e, (base, rel, cls, fname) in [(e, v) for e in entries for v in SA_VALIDATORS if v[0] == e["name"]]:
        fn = _find_function(tree_of(rel), cls, fname)
        if fn is not None and any(a[1] == "A" for a in e["acc"]):
            e["fn_range"] = (rel, fn.lineno, fn.end_lineno)
    # the unsynchronised global cache of aggregated serialization mappers
    mrel = "typedpy/serialization/mappers.py"
    cache_lines = []
    try:
        mt = tree_of(mrel)
        for fn in [n for n in mt.body if isinstance(n, ast.FunctionDef)]:
            for st in ast.walk(fn):
                if isinstance(st, ast.stmt) and not isinstance(st, (ast.FunctionDef, ast.If, ast.For, ast.Try, ast.With)):
                    if any(isinstance(x, ast.Name) and x.id == "aggregated_mapper_by_class" for x in ast.walk(st)):
                        cache_lines.append(st.lineno)
            for st in ast.walk(fn):
                if isinstance(st, ast.If) and any(isinstance(x, ast.Name) and x.id == "aggregated_mapper_by_class"
                                                  for x in ast.walk(st.test)):
                    cache_lines.append(st.lineno)
    except OSError:
        pass
    return {"entries": entries, "store": (srel, slines), "suffixes": SUFFIXES, "helper_file": helper_file,
            "mapper_cache": (mrel, sorted(set(cache_lines)))}


def render_shared_access(sa):
    lines = ["(* GENERATED by harness/gen.py from the AST of /repo/typedpy/fields/*.py and structures/structures.py.",
             "   Ordered accesses to attributes of SHARED Field objects per collection validator. Do not edit. *)",
             "From Coq Require Import List String. Import ListNotations.",
             "From TP Require Import Global.SharedName.", "Local Open Scope string_scope.", ""]
    names = []
    for i, e in enumerate(sa["entries"]):
        ident = "sa_" + "".join(ch if ch.isalnum() else "_" for ch in e["name"])
        names.append(ident)
        accs = ";\n       ".join(a[0] for a in e["acc"])
        lines.append('Definition %s : ventry :=\n  {| v_name := "%s"; v_file := "%s";\n     v_acc := [ %s ] |}.'
                     % (ident, e["name"], e["file"], accs))
        lines.append("")
    lines.append("Definition shared_access : list ventry :=\n  [ %s ]." % ";\n    ".join(names))
    lines.append("")
    lines.append("(* Field.__set__ (%s): lines that store under the name re-read from the field object *)" % sa["store"][0])
    lines.append("Definition store_key_lines : list nat := %s." % E.lst(["%d" % l for l, _ in sa["store"][1]]))
    lines.append("Definition name_suffixes : list string := %s." % E.lst(['"%s"' % s for s in sa["suffixes"]]))
    return "\n".join(lines) + "\n"




def regenerate():
    sa = shared_access()
    core.write_if_changed(os.path.join(core.COQDIR, "theories", "Gen", "SharedAccess.v"), render_shared_access(sa))
    return sa
