"""Gen/SerSites.v (property C05): facts about the serialization code that the hand-written model
(Ser/Serialize.v, Ser/Deserialize.v) assumes, re-read from /repo's working tree on every run:

* which exceptions each `try` of the option-dispatch / error-collection code swallows
  (deserialize_multifield_wrapper, serialize_multifield_wrapper, the two item loops of deserialize_list_like,
  construct_fields_map): `CatchAll` for `except Exception` / a bare `except` / BaseException, else `CatchOnly [names]`;
* the body of Enum.serialize, translated statement by statement into the dynamic operators of Ser/SerOps.v.

Ser/SerTieProofs.v proves that the handlers are the ones the model implements ("an option that raises ANYTHING is
skipped", "only TypeError/ValueError of an item are re-raised as ValueError / collected") and that the translated
Enum.serialize coincides with the model's ser_enum_member on every member -- Props/C05.v re-exports these lemmas, so
a source edit that changes one of them breaks a NAMED proof obligation.  Fails closed: anything outside the accepted
subset is emitted as `<name>_UNTRANSLATABLE`, and the lemma about <name> no longer type-checks."""
import ast
import os

from harness import core
from harness import coqemit as E

SER = os.path.join(core.REPO, "typedpy", "serialization", "serialization.py")
ENUM = os.path.join(core.REPO, "typedpy", "fields", "enum.py")

CATCH_ALL = {"Exception", "BaseException"}


class Unsupported(Exception):
    pass


def _func(tree, name, cls=None):
    scope = tree
    if cls is not None:
        for n in ast.walk(tree):
            if isinstance(n, ast.ClassDef) and n.name == cls:
                scope = n
                break
        else:
            raise Unsupported("class %s not found" % cls)
    for n in ast.walk(scope):
        if isinstance(n, ast.FunctionDef) and n.name == name:
            return n
    raise Unsupported("function %s not found" % name)


def _handler_kind(h):
    """CatchAll | ("only", [names]) for one `except` clause."""
    if h.type is None:
        return "CatchAll"
    names = []
    elts = h.type.elts if isinstance(h.type, ast.Tuple) else [h.type]
    for e in elts:
        if isinstance(e, ast.Name):
            names.append(e.id)
        elif isinstance(e, ast.Attribute):
            names.append(e.attr)
        else:
            raise Unsupported("except clause over %s" % ast.dump(e)[:60])
    if any(n in CATCH_ALL for n in names):
        return "CatchAll"
    return ("only", sorted(set(names)))


def _merge(kinds):
    """Several handlers of one try: what is swallowed by any of them."""
    if "CatchAll" in kinds:
        return "CatchAll"
    names = set()
    for k in kinds:
        names |= set(k[1])
    return ("only", sorted(names))


def _calls(node, name):
    return any(isinstance(c, ast.Call) and isinstance(c.func, ast.Name) and c.func.id == name for c in ast.walk(node))


def _tries_calling(fn, callee):
    """The try statements of fn whose BODY calls `callee` (innermost ones), in source order."""
    out = []
    for n in ast.walk(fn):
        if isinstance(n, ast.Try) and any(_calls(s, callee) for s in n.body):
            inner = [m for s in n.body for m in ast.walk(s) if isinstance(m, ast.Try) and any(_calls(t, callee) for t in m.body)]
            if not inner:
                out.append(n)
    return sorted(out, key=lambda t: t.lineno)


def handler_sites():
    tree = ast.parse(open(SER).read())
    sites = []

    def one(label, fn_name, callee, expect):
        fn = _func(tree, fn_name)
        tries = _tries_calling(fn, callee)
        if len(tries) != expect:
            raise Unsupported("%s: expected %d try statement(s) around %s, found %d" % (fn_name, expect, callee, len(tries)))
        for i, t in enumerate(tries):
            if t.finalbody:
                raise Unsupported("%s: try/finally" % fn_name)
            kind = _merge([_handler_kind(h) for h in t.handlers])
            sites.append((label if expect == 1 else "%s_%d" % (label, i), kind))

    one("h_deser_multifield", "deserialize_multifield_wrapper", "deserialize_single_field", 1)
    one("h_ser_multifield", "serialize_multifield_wrapper", "serialize_field", 1)
    one("h_list_like_item", "deserialize_list_like", "deserialize_single_field", 2)
    one("h_fields_map", "construct_fields_map", "deserialize_single_field", 1)
    return sites


def emit_kind(k):
    if k == "CatchAll":
        return "CatchAll"
    return "(CatchOnly %s)" % E.lst([E.pstr(n) for n in k[1]])


# ------------------------------------------------------------------ Enum.serialize -> Gallina

KNOWN_CLASSES = {"int": "K_int", "float": "K_float", "Decimal": "K_Decimal", "str": "K_str", "bool": "K_bool",
                 "list": "K_list", "tuple": "K_tuple", "dict": "K_dict"}
SELF_FLAGS = {"_is_enum": "self_is_enum", "serialization_by_value": "self_by_value"}
EXN = {"TypeError", "ValueError", "KeyError", "IndexError", "AttributeError"}


class Tr:
    """Statements -> a term of type `res pyval`; expressions -> `res pyval`; conditions -> `res bool`."""

    def __init__(self, params):
        self.env = set(params)
        self.n = 0

    def fresh(self):
        self.n += 1
        return "t%d" % self.n

    def expr(self, e):
        if isinstance(e, ast.Name):
            if e.id in self.env:
                return "(Ok %s)" % e.id
            raise Unsupported("free name %s" % e.id)
        if isinstance(e, ast.Constant):
            if e.value is None:
                return "(Ok PNone)"
            if isinstance(e.value, bool):
                return "(Ok (PBool %s))" % E.blit(e.value)
            if isinstance(e.value, int):
                return "(Ok (PNum (NInt %s)))" % E.zlit(e.value)
            if isinstance(e.value, str):
                return "(Ok (PStr %s))" % E.pstr(e.value)
            raise Unsupported("constant %r" % (e.value,))
        if isinstance(e, ast.Attribute):
            if isinstance(e.value, ast.Name) and e.value.id == "self":
                if e.attr in SELF_FLAGS:
                    return "(Ok (PBool %s))" % SELF_FLAGS[e.attr]
                raise Unsupported("self.%s" % e.attr)
            t = self.fresh()
            return "(%s <- %s ;; py_getattr %s %s)" % (t, self.expr(e.value), t, E.pstr(e.attr))
        if isinstance(e, ast.IfExp):
            return "(c <- %s ;; if c then %s else %s)" % (self.cond(e.test), self.expr(e.body), self.expr(e.orelse))
        if isinstance(e, ast.BoolOp):
            op = "py_or_val" if isinstance(e.op, ast.Or) else "py_and_val"
            out = self.expr(e.values[-1])
            for v in reversed(e.values[:-1]):
                out = "(%s %s (fun _ => %s))" % (op, self.expr(v), out)
            return out
        raise Unsupported("expression %s" % ast.dump(e)[:80])

    def cond(self, e):
        if isinstance(e, ast.Attribute) and isinstance(e.value, ast.Name) and e.value.id == "self" and e.attr in SELF_FLAGS:
            return "(Ok %s)" % SELF_FLAGS[e.attr]
        if isinstance(e, ast.UnaryOp) and isinstance(e.op, ast.Not):
            return "(py_not %s)" % self.cond(e.operand)
        if isinstance(e, ast.BoolOp):
            op = "py_or" if isinstance(e.op, ast.Or) else "py_and"
            out = self.cond(e.values[-1])
            for v in reversed(e.values[:-1]):
                out = "(%s %s (fun _ => %s))" % (op, self.cond(v), out)
            return out
        if isinstance(e, ast.Call) and isinstance(e.func, ast.Name) and e.func.id == "isinstance" and len(e.args) == 2 \
                and not e.keywords:
            ks = e.args[1].elts if isinstance(e.args[1], ast.Tuple) else [e.args[1]]
            names = []
            for k in ks:
                if not (isinstance(k, ast.Name) and k.id in KNOWN_CLASSES):
                    raise Unsupported("isinstance against %s" % ast.dump(k)[:60])
                names.append(KNOWN_CLASSES[k.id])
            t = self.fresh()
            return "(%s <- %s ;; Ok (py_isinstance %s [%s]))" % (t, self.expr(e.args[0]), t, "; ".join(names))
        if isinstance(e, ast.Compare) and len(e.ops) == 1 and isinstance(e.ops[0], (ast.Is, ast.IsNot)) \
                and isinstance(e.comparators[0], ast.Constant) and e.comparators[0].value is None:
            t = self.fresh()
            fn = "py_is_none" if isinstance(e.ops[0], ast.Is) else "py_is_not_none"
            return "(%s <- %s ;; Ok (%s %s))" % (t, self.expr(e.left), fn, t)
        # any other expression used as a condition: its truthiness
        t = self.fresh()
        return "(%s <- %s ;; Ok (py_truthy %s))" % (t, self.expr(e), t)

    def stmts(self, body):
        if not body:
            return "(Ok PNone)"
        s, rest = body[0], body[1:]
        if isinstance(s, ast.Expr) and isinstance(s.value, ast.Constant):      # docstring
            return self.stmts(rest)
        if isinstance(s, ast.Return):
            return self.expr(s.value) if s.value is not None else "(Ok PNone)"
        if isinstance(s, ast.Raise):
            exc = s.exc
            name = exc.func.id if isinstance(exc, ast.Call) and isinstance(exc.func, ast.Name) else \
                (exc.id if isinstance(exc, ast.Name) else None)
            if name not in EXN:
                raise Unsupported("raise %s" % ast.dump(s)[:60])
            return "(Raise %s)" % name
        if isinstance(s, ast.If):
            return "(c <- %s ;; if c then %s else %s)" % (self.cond(s.test), self.stmts(list(s.body) + rest),
                                                          self.stmts(list(s.orelse) + rest))
        if isinstance(s, ast.Assign) and len(s.targets) == 1 and isinstance(s.targets[0], ast.Name):
            name = s.targets[0].id
            if name in ("self", "c") or name.startswith("t") and name[1:].isdigit():
                raise Unsupported("assignment to %s" % name)
            val = self.expr(s.value)
            self.env.add(name)
            return "(%s <- %s ;; %s)" % (name, val, self.stmts(rest))
        raise Unsupported("statement %s" % ast.dump(s)[:80])


def enum_serialize():
    tree = ast.parse(open(ENUM).read())
    fn = _func(tree, "serialize", cls="Enum")
    args = [a.arg for a in fn.args.args]
    if args != ["self", "value"] or fn.args.vararg or fn.args.kwarg or fn.args.kwonlyargs:
        raise Unsupported("Enum.serialize%r" % (args,))
    return Tr({"value"}).stmts(list(fn.body))


def render():
    lines = ["(* GENERATED by harness/genmods/ser_sites.py from /repo/typedpy/serialization/serialization.py and",
             "   /repo/typedpy/fields/enum.py.  Do not edit.  Ser/SerTieProofs.v proves that these are what the",
             "   hand-written model of serialization implements. *)",
             "From Coq Require Import ZArith NArith String List Bool. Import ListNotations.",
             "From TP Require Import Base.PyVal Base.PyOps Ser.SerOps.", "Local Open Scope string_scope.", ""]
    try:
        for label, kind in handler_sites():
            lines.append("Definition %s : catch_kind := %s." % (label, emit_kind(kind)))
    except (Unsupported, OSError, SyntaxError) as ex:
        lines.append("(* not recognised: %s *)" % str(ex).replace("*)", "* )"))
        lines.append("Definition handler_sites_UNTRANSLATABLE : unit := tt.")
    lines.append("")
    lines.append("(* from enum.py::Enum.serialize *)")
    try:
        body = enum_serialize()
        lines.append("Definition Enum_serialize (self_is_enum self_by_value : bool) (value : pyval) : res pyval :=\n  %s." % body)
    except (Unsupported, OSError, SyntaxError) as ex:
        lines.append("(* not translated: %s *)" % str(ex).replace("*)", "* )"))
        lines.append("Definition Enum_serialize_UNTRANSLATABLE : unit := tt.")
    return "\n".join(lines) + "\n"


def regenerate():
    core.write_if_changed(os.path.join(core.COQDIR, "theories", "Gen", "SerSites.v"), render())
