"""py2v_codegen: translation of the schema-to-code direction of typedpy/json_schema/json_schema_mapping.py
(convert_to_field_code, _convert_field_to_schema_code_internal, _handle_schema_default_to_code,
schema_to_struct_code, schema_definitions_to_code and every *Mapper.get_paramlist_from_schema, with the dispatch
tables type_name_to_field / multivals) into Gallina over Base/PyVal.v and the dynamic-operator libraries
Base/PyOps.v, PyOps2.v, PyOpsSchema.v, PyOpsCodegen.v; rewritten on every run from /repo's working tree into
coq/theories/Gen/CodegenSrc.v.  Schema/CodegenSrcProofs.v proves the generated functions equal to the hand-written
token model Schema/CodeGen.v (field_toks, class_toks) / Schema/ModuleGen.v (defs_toks) for every schema of the
model's fragment (Schema/CodegenBridge.v).

The expression / statement translator is the one of py2v_schema.py (classes Tr / TrH: continuation-passing
statements, loops that thread the changed locals, procedures with out-parameters), extended here with
  expressions  f-strings with !r, repr(), `sep.join(l)`, `x[n:]`, `d.get(k)`, `d.values()`, `{**d, k: v}`,
               comprehensions / generator expressions with a tuple target and an `if`, `any(...)`, module-level
               dict displays of class names, `<class value>.get_paramlist_from_schema(schema, definitions)`
               (static-method dispatch along the generated MRO table), calls with keyword arguments of translated
               functions, parameters whose default is a factory under @default_factories (typedpy.commons);
  statements   `x += e` / `x.remove(e)` on a local list (`if c: x += e` is read as `x += (e if c else [])`), a `for` whose body binds a local that is read after the loop
               (started as the unbound marker), a `for` that returns from its body and binds loop-local names.
The `definitions` parameter of every function is only ever passed through (checked: using it as a value is refused),
so it is dropped; recursion through convert_to_field_code is the context parameter [rec] and explicit fuel.
FAIL CLOSED: a construct outside the subset makes the function `Definition <name>_UNTRANSLATABLE : unit := tt.`"""
import ast
import os

from harness import core
from harness import coqemit as E
from harness.genmods import py2v_schema as S
from harness.genmods.py2v_schema import Unsupported, _sp

OUT = os.path.join(core.COQDIR, "theories", "Gen", "CodegenSrc.v")

CTXP = "(O : cg_oracle) (rec : pyval -> pyval -> res pyval)"
CTXA = "O rec"
METHOD = "get_paramlist_from_schema"
REC = "convert_to_field_code"
FACTORIES = {"list": "(PList [])", "dict": "(PDict [])"}


def _names_loaded(stmts):
    out = set()
    for s in stmts:
        for n in ast.walk(s):
            if isinstance(n, ast.Name) and isinstance(n.ctx, ast.Load):
                out.add(n.id)
    return out


def _names_loaded_except(stmts, skip):
    out = set()

    def walk(n):
        if n is skip:
            for x in (skip.iter,):
                walk(x)
            return
        if isinstance(n, ast.Name) and isinstance(n.ctx, ast.Load):
            out.add(n.id)
        for c in ast.iter_child_nodes(n):
            walk(c)
    for st in stmts:
        walk(st)
    return out


class TrC(S.TrH):
    """Translator of one function of the schema-to-code direction."""

    def __init__(self, mod, tokens=(), outs=()):
        super().__init__(mod, tokens=tokens, sm=None, outs=outs)
        self.root = []            # the body of the function being translated

    # ------------------------------------------------------------------ helpers
    def pure_token_arg(self, e):
        """an argument in a `definitions` position: dropped; it must be evaluable without effect"""
        if isinstance(e, ast.Name) and (e.id in self.tokens or e.id in self.env):
            return
        if isinstance(e, ast.Call) and isinstance(e.func, ast.Name) and e.func.id == "globals" \
                and "globals" not in self.env and not e.args and not e.keywords:
            return
        raise Unsupported("the definitions argument %s" % ast.dump(e)[:60])

    def bind_args(self, name, spec, args, keywords):
        """spec: [(python name, 'value' | 'token' | ('factory', coq term))] -> binds, atoms (tokens dropped)"""
        given = {}
        if len(args) > len(spec):
            raise Unsupported("too many arguments for %s" % name)
        for (p, _), a in zip(spec, args):
            if isinstance(a, ast.Starred):
                raise Unsupported("starred argument")
            given[p] = a
        for k in keywords:
            if k.arg is None or k.arg in given or k.arg not in [p for p, _ in spec]:
                raise Unsupported("keyword argument of %s" % name)
            given[k.arg] = k.value
        binds, atoms = [], []
        for p, kind in spec:
            if kind == "token":
                if p not in given:
                    raise Unsupported("missing argument %s of %s" % (p, name))
                self.pure_token_arg(given[p])
                continue
            if p in given:
                b, a = self.val(given[p])
                binds += b
                atoms.append(a)
            elif isinstance(kind, tuple) and kind[0] == "factory":
                atoms.append(kind[1])
            else:
                raise Unsupported("missing argument %s of %s" % (p, name))
        return binds, atoms

    def comp(self, e):
        """[elt for target in iter if cond] / the same generator expression, as a list"""
        if len(e.generators) != 1:
            raise Unsupported("comprehension with several generators")
        g = e.generators[0]
        if g.is_async or len(g.ifs) > 1:
            raise Unsupported("comprehension shape")
        b, a = self.val(g.iter)
        x = self.fresh("x_item_")
        saved = dict(self.env)
        pre = []
        try:
            if isinstance(g.target, ast.Name):
                self.env[g.target.id] = x
            elif isinstance(g.target, ast.Tuple) and len(g.target.elts) == 2 \
                    and all(isinstance(y, ast.Name) for y in g.target.elts) \
                    and g.target.elts[0].id != g.target.elts[1].id:
                pq = self.fresh("p")
                pre = [(pq, "py_unpack2 %s" % x)]
                self.env[g.target.elts[0].id] = "(pair_fst %s)" % pq
                self.env[g.target.elts[1].id] = "(pair_snd %s)" % pq
            else:
                raise Unsupported("comprehension target")
            be, ae = self.val(e.elt)
            some = self.seq(be, "Ok (Some %s)" % ae)
            if g.ifs:
                c = self.cond(g.ifs[0])
                body = "(c <- %s ;; if c then %s else Ok None)" % (c, some)
            else:
                body = some
        finally:
            self.env = saved
        t = self.fresh()
        return b + [(t, "cg_comp (fun %s => %s) %s" % (x, self.seq(pre, body), a))], t

    # ------------------------------------------------------------------ values
    def val(self, e):
        if isinstance(e, ast.JoinedStr):
            binds, parts = [], []
            for p in e.values:
                if isinstance(p, ast.Constant) and isinstance(p.value, str):
                    parts.append(E.pstr(p.value))
                elif isinstance(p, ast.FormattedValue) and p.format_spec is None and p.conversion in (-1, 114, 115):
                    b, a = self.val(p.value)
                    s = self.fresh("s")
                    binds += b + [(s, "%s O %s" % ("cg_repr" if p.conversion == 114 else "cg_format", a))]
                    parts.append(s)
                else:
                    raise Unsupported("f-string with !a or a format spec")
            return binds, "(PStr (%s)%%list)" % " ++ ".join(parts or ["(@nil N)"])
        if isinstance(e, ast.Dict) and any(k is None for k in e.keys):
            binds, parts, cur = [], [], []
            for k, v in zip(e.keys, e.values):
                if k is None:
                    if cur:
                        parts.append("(PDict [%s])" % "; ".join(cur))
                        cur = []
                    b, a = self.val(v)
                    binds += b
                    parts.append(a)
                else:
                    bk, ak = self.val(k)
                    bv, av = self.val(v)
                    if bk:
                        raise Unsupported("dict display with computed keys")
                    binds += bv
                    if cur:                      # one display entry per part: repeated keys follow dict_set
                        parts.append("(PDict [%s])" % "; ".join(cur))
                    cur = ["(%s, %s)" % (ak, av)]
            if cur:
                parts.append("(PDict [%s])" % "; ".join(cur))
            t = self.fresh()
            return binds + [(t, "cg_dict_unpack [%s]" % "; ".join(parts))], t
        if isinstance(e, ast.ListComp):
            return self.comp(e)
        if isinstance(e, ast.Subscript) and isinstance(e.slice, ast.Slice):
            sl = e.slice
            if sl.upper is not None or sl.step is not None or sl.lower is None:
                raise Unsupported("slice other than x[n:]")
            b, a = self.val(e.value)
            bl, al = self.val(sl.lower)
            t = self.fresh()
            return b + bl + [(t, "cg_slice_from %s %s" % (a, al))], t
        if isinstance(e, ast.Name) and e.id not in self.env and e.id not in self.tokens \
                and e.id in self.mod.dict_consts:
            if e.id in self.mod.rebound:
                raise Unsupported("module name %s is bound more than once" % e.id)
            return [], "MODULE_%s" % e.id
        if isinstance(e, ast.Attribute) and not e.attr.startswith("__"):
            raise Unsupported("attribute .%s" % e.attr)
        if isinstance(e, ast.Call) and isinstance(e.func, ast.Name) and e.func.id == "any" \
                and "any" not in self.env:
            t = self.fresh()
            return [(t, "b <- %s ;; Ok (PBool b)" % self.cond(e))], t
        return super().val(e)

    def call(self, e):
        f = e.func
        if isinstance(f, ast.Name) and f.id not in self.env and f.id not in self.helpers:
            if f.id in self.mod.rebound:
                raise Unsupported("module name %s is bound more than once" % f.id)
            if f.id == "repr" and len(e.args) == 1 and not e.keywords:
                b, a = self.val(e.args[0])
                t = self.fresh()
                return b + [(t, "cg_repr_val O %s" % a)], t
            if f.id == "list" and len(e.args) == 1 and not e.keywords and isinstance(e.args[0], ast.GeneratorExp):
                return self.comp(e.args[0])
            if f.id == REC and f.id in self.mod.functions:
                binds, atoms = self.bind_args(f.id, self.mod.rec_spec, e.args, e.keywords)
                t = self.fresh()
                return binds + [(t, "rec %s" % " ".join(atoms))], t
            if f.id == "convert_to_schema" and f.id in self.mod.functions:
                # the code-to-schema direction (Gen/SchemaSrc.v): not looked into from here
                binds = []
                for x in e.args:
                    if not (isinstance(x, ast.Name) and x.id in self.tokens):
                        binds += self.val(x)[0]
                t = self.fresh()
                return binds + [(t, "py_opaque_call %s" % _sp(f.id))], t
            if f.id in self.mod.cdone:
                coq, spec, outs = self.mod.cdone[f.id]
                if outs:
                    raise Unsupported("%s changes its arguments: it can only be called as a statement" % f.id)
                binds, atoms = self.bind_args(f.id, spec, e.args, e.keywords)
                t = self.fresh()
                return binds + [(t, "%s %s" % (coq, " ".join(atoms)))], t
            if f.id == "get_mapper" and self.mod.have_get_mapper and len(e.args) == 1 and not e.keywords:
                b, a = self.val(e.args[0])
                t = self.fresh()
                return b + [(t, "get_mapper %s" % a)], t
            if f.id in self.mod.functions:
                raise Unsupported("call of %s, which is not translated" % f.id)
        if isinstance(f, ast.Attribute):
            m = f.attr
            if m == METHOD and isinstance(f.value, ast.Name) and f.value.id in self.env and not e.keywords \
                    and len(e.args) == 2:
                b, a = self.val(f.value)
                bs, as_ = self.val(e.args[0])
                self.pure_token_arg(e.args[1])
                t = self.fresh()
                return b + bs + [(t, "METHOD_%s %s %s %s" % (METHOD, CTXA, a, as_))], t
            if m == "from_json_schema" and isinstance(f.value, ast.Name) and f.value.id in self.env:
                b, a = self.val(f.value)
                binds = list(b)
                for x in e.args:
                    binds += self.val(x)[0]
                t = self.fresh()
                return binds + [(t, "cg_opaque_method %s %s" % (a, _sp(m)))], t
            if m == "join" and len(e.args) == 1 and not e.keywords:
                b, a = self.val(f.value)
                bx, ax = self.val(e.args[0])
                t = self.fresh()
                return b + bx + [(t, "cg_str_join %s %s" % (a, ax))], t
            if m == "values" and not e.args and not e.keywords:
                b, a = self.val(f.value)
                t = self.fresh()
                return b + [(t, "cg_dict_values %s" % a)], t
            if m == "get" and len(e.args) == 1 and not e.keywords:
                b, a = self.val(f.value)
                bk, ak = self.val(e.args[0])
                t = self.fresh()
                return b + bk + [(t, "py_dict_get_def %s %s PNone" % (a, ak))], t
            if m in ("keys", "items") and not e.args and not e.keywords:
                b, a = self.val(f.value)
                t = self.fresh()
                return b + [(t, "py_dict_%s %s" % (m, a))], t
            if m == "get" and len(e.args) == 2 and not e.keywords:
                b, a = self.val(f.value)
                bk, ak = self.val(e.args[0])
                bd, ad = self.val(e.args[1])
                t = self.fresh()
                return b + bk + bd + [(t, "py_dict_get_def %s %s %s" % (a, ak, ad))], t
            raise Unsupported("method call .%s(...)" % m)
        return super().call(e)

    # ------------------------------------------------------------------ conditions
    def cond(self, e):
        if isinstance(e, ast.Call) and isinstance(e.func, ast.Name) and e.func.id == "any" \
                and "any" not in self.env and len(e.args) == 1 and not e.keywords:
            g = e.args[0]
            if isinstance(g, ast.GeneratorExp):
                if len(g.generators) != 1 or g.generators[0].ifs or g.generators[0].is_async \
                        or not isinstance(g.generators[0].target, ast.Name):
                    raise Unsupported("any() over this generator")
                gen = g.generators[0]
                b, a = self.val(gen.iter)
                x = self.fresh("x_" + gen.target.id + "_")
                saved = dict(self.env)
                self.env[gen.target.id] = x
                try:
                    c = self.cond(g.elt)
                finally:
                    self.env = saved
                return self.seq(b, "cg_any (fun %s => %s) %s" % (x, c, a))
            b, a = self.val(g)
            return self.seq(b, "cg_any (fun x => Ok (py_truthy x)) %s" % a)
        return super().cond(e)

    # ------------------------------------------------------------------ statements
    @staticmethod
    def fresh_value(e):
        """does evaluating e make a new object (so that changing it in place is invisible elsewhere)?"""
        if isinstance(e, (ast.List, ast.Dict, ast.ListComp, ast.DictComp, ast.JoinedStr, ast.Constant, ast.Tuple)):
            return True
        if isinstance(e, ast.IfExp):
            return TrC.fresh_value(e.body) and TrC.fresh_value(e.orelse)
        if isinstance(e, ast.Call):
            if isinstance(e.func, ast.Name) and e.func.id in ("list", "dict", "repr", "sorted"):
                return True
            if isinstance(e.func, ast.Attribute) and e.func.attr in (METHOD, "join"):
                return True
        return False

    INPLACE = ("append", "pop", "update", "remove", "insert", "extend", "clear", "sort")

    @staticmethod
    def changed(stmts):
        """(names changed in place, names re-bound, other constructs) by the statements"""
        inplace, rebound, other = set(), set(), set()
        for s in stmts:
            for n in ast.walk(s):
                if isinstance(n, ast.Assign):
                    for tg in n.targets:
                        if isinstance(tg, ast.Name):
                            rebound.add(tg.id)
                        elif isinstance(tg, ast.Tuple) and all(isinstance(x, ast.Name) for x in tg.elts):
                            rebound |= {x.id for x in tg.elts}
                        elif isinstance(tg, ast.Subscript) and isinstance(tg.value, ast.Name):
                            inplace.add(tg.value.id)
                        else:
                            other.add("assignment target")
                elif isinstance(n, ast.AugAssign):
                    if isinstance(n.target, ast.Name) and isinstance(n.op, ast.Add):
                        inplace.add(n.target.id)
                    else:
                        other.add("augmented assignment")
                elif isinstance(n, ast.Expr) and isinstance(n.value, ast.Call) and isinstance(n.value.func, ast.Attribute) \
                        and isinstance(n.value.func.value, ast.Name) and n.value.func.attr in TrC.INPLACE:
                    inplace.add(n.value.func.value.id)
                elif isinstance(n, (ast.AnnAssign, ast.With, ast.NamedExpr, ast.Delete, ast.Global, ast.Nonlocal,
                                    ast.While, ast.Try, ast.Break, ast.Continue, ast.FunctionDef, ast.ClassDef,
                                    ast.Import, ast.ImportFrom, ast.For, ast.Lambda)):
                    other.add(type(n).__name__)
        return inplace, rebound, other

    def finish(self):
        if self.outs:
            return "(Ok (PTuple [%s]))" % "; ".join(self.env[o] for o in self.outs)
        return "(Ok PNone)"

    def block(self, body, k):
        if not body:
            return k()
        s, rest = body[0], body[1:]
        nxt = lambda: self.block(rest, k)      # noqa: E731
        if isinstance(s, ast.Return) and self.state_loop:
            raise Unsupported("return inside a loop that changes locals")
        if isinstance(s, ast.Assign) and len(s.targets) == 1 and isinstance(s.targets[0], ast.Name):
            tg = s.targets[0]
            if tg.id in self.tokens or tg.id in self.aliases:
                raise Unsupported("assignment to %s" % tg.id)
            b, a = self.val(s.value)
            return self.seq(b, self.bind_local(tg.id, a, self.fresh_value(s.value), nxt))
        if isinstance(s, ast.If) and not s.orelse and len(s.body) == 1 and isinstance(s.body[0], ast.AugAssign) \
                and isinstance(s.body[0].op, ast.Add) and self.mutable(s.body[0].target):
            # `if c: x += e` on a local list is `x += (e if c else [])` (extending by nothing changes nothing):
            # one reading for both spellings
            a = s.body[0]
            both = ast.AugAssign(target=a.target, op=a.op,
                                 value=ast.IfExp(test=s.test, body=a.value, orelse=ast.List(elts=[], ctx=ast.Load())))
            return self.block([ast.copy_location(both, s)] + rest, k)
        if isinstance(s, ast.AugAssign):
            if not (isinstance(s.target, ast.Name) and isinstance(s.op, ast.Add) and self.mutable(s.target)):
                raise Unsupported("augmented assignment other than `<local list> += e`")
            d = s.target.id
            b, a = self.val(s.value)
            t = self.fresh()
            return self.seq(b + [(t, "cg_list_concat %s %s" % (self.env[d], a))], self.rebind(d, t, nxt))
        if isinstance(s, ast.Expr) and isinstance(s.value, ast.Call) and not s.value.keywords \
                and isinstance(s.value.func, ast.Attribute) and s.value.func.attr == "remove" \
                and len(s.value.args) == 1 and self.mutable(s.value.func.value):
            d = s.value.func.value.id
            b, a = self.val(s.value.args[0])
            t = self.fresh()
            return self.seq(b + [(t, "cg_list_remove %s %s" % (self.env[d], a))], self.rebind(d, t, nxt))
        if isinstance(s, ast.Expr) and isinstance(s.value, ast.Call) and isinstance(s.value.func, ast.Name) \
                and s.value.func.id in self.mod.cdone and s.value.func.id not in self.env \
                and self.mod.cdone[s.value.func.id][2]:
            return self.proc_call(s.value, nxt)
        if isinstance(s, ast.For):
            return self.for_loop(s, rest, nxt)
        return super().block(body, k)

    def proc_call(self, e, nxt):
        """a call statement of a translated procedure that changes some of its arguments in place"""
        name = e.func.id
        coq, spec, outs = self.mod.cdone[name]
        if e.keywords or len(e.args) != len(spec):
            raise Unsupported("call shape of %s" % name)
        outnames = []
        for (p, _), x in zip(spec, e.args):
            if p in outs:
                if not self.mutable(x):
                    raise Unsupported("out-parameter %s of %s is not given a local container" % (p, name))
                outnames.append(x.id)
        if len(set(outnames)) != len(outnames):
            raise Unsupported("the same container for two out-parameters")
        binds, atoms = self.bind_args(name, spec, e.args, [])
        t = self.fresh()
        binds.append((t, "%s %s" % (coq, " ".join(atoms))))
        parts = []
        for i, _ in enumerate(outnames):
            o = self.fresh("o")
            binds.append((o, "py_index %s %d%%nat" % (t, i)))
            parts.append(o)

        def chain(i):
            if i == len(outnames):
                return nxt()
            return self.rebind(outnames[i], parts[i], lambda: chain(i + 1))
        return self.seq(binds, chain(0))

    def for_loop(self, s, rest, nxt):
        if s.orelse or self.in_loop or self.state_loop:
            raise Unsupported("nested loop / for-else")
        inplace, rebound, other = self.changed(s.body)
        if other:
            raise Unsupported("loop body with %s" % ", ".join(sorted(other)))
        tnames = {x.id for x in ast.walk(s.target) if isinstance(x, ast.Name)}
        if (inplace | rebound) & (tnames | set(self.tokens)):
            raise Unsupported("loop body changes its own target / a parameter")
        # every read of a name outside this loop's body (anywhere in the function)
        after = _names_loaded_except(self.root, s)
        # names the body binds that do not exist before the loop: loop-local unless read after the loop
        late = sorted(x for x in rebound if x not in self.env and x in after)
        state = sorted(x for x in (inplace | rebound) if x in self.env) + late
        if any(x in inplace and (x not in self.fresh_dicts or x in self.aliases) for x in state) \
                or any(x not in self.env for x in inplace):
            raise Unsupported("loop changes a container that is not local")
        has_return = any(isinstance(n, ast.Return) for st in s.body for n in ast.walk(st))
        if not state:
            # a loop whose body only tests, binds loop-local names, raises or returns
            b, a = self.val(s.iter)
            x = self.fresh("x_item_")
            saved = dict(self.env)
            pre = self.bind_target(s.target, x)
            self.in_loop = True
            try:
                body_t = self.block(s.body, lambda: "(Ok None)")
            finally:
                self.in_loop = False
                self.env = saved
            return self.seq(b, "py_for_return %s (fun %s => %s)\n   %s" % (a, x, self.seq(pre, body_t), nxt()))
        if has_return:
            raise Unsupported("return inside a loop that changes locals")
        if late:
            # started as the unbound marker
            def start(i):
                if i == len(late):
                    return self.state_for(s, state, nxt)
                return self.bind_local(late[i], "cg_unbound", False, lambda: start(i + 1))
            return start(0)
        return self.state_for(s, state, nxt)

    def bind_target(self, target, x):
        if isinstance(target, ast.Name):
            self.env[target.id] = x
            return []
        if isinstance(target, ast.Tuple) and len(target.elts) == 2 and all(isinstance(y, ast.Name) for y in target.elts) \
                and target.elts[0].id != target.elts[1].id:
            pq = self.fresh("p")
            self.env[target.elts[0].id] = "(pair_fst %s)" % pq
            self.env[target.elts[1].id] = "(pair_snd %s)" % pq
            return [(pq, "py_unpack2 %s" % x)]
        raise Unsupported("loop target")

    def state_for(self, s, state, nxt):
        b, a = self.val(s.iter)
        x = self.fresh("x_item_")
        saved, saved_f = dict(self.env), set(self.fresh_dicts)
        pre = self.bind_target(s.target, x)
        svars = []
        for n in state:
            v = self.fresh("s_" + n + "_")
            self.env[n] = v
            svars.append(v)
        init = [saved[n] for n in state]
        tup = lambda l: l[0] if len(l) == 1 else "(%s)" % ", ".join(l)      # noqa: E731
        pat = lambda l: l[0] if len(l) == 1 else "'(%s)" % ", ".join(l)     # noqa: E731
        self.state_loop = True
        try:
            body_t = self.block(s.body, lambda: "(Ok %s)" % tup([self.env[n] for n in state]))
        finally:
            self.state_loop = False
            self.env, self.fresh_dicts = saved, saved_f
        st = self.fresh("st")
        finals = [self.fresh("v_" + n + "_") for n in state]
        saved = dict(self.env)
        for n, v in zip(state, finals):
            self.env[n] = v
        try:
            rest_t = nxt()
        finally:
            self.env = saved
        return self.seq(b, "%s <- py_for_state %s (fun %s %s => %s) %s ;;\n   let %s := %s in %s" % (
            st, a, x, pat(svars), self.seq(pre, body_t), tup(init), pat(finals), st, rest_t))


# ----------------------------------------------------------------------------------------------- module info

class Module(S.Module):
    def __init__(self):
        super().__init__()
        self.cdone = {}          # python function -> (coq term with context, spec, outs)
        self.rec_spec = None
        self.dict_consts = {}    # module-level `NAME = {"const": ClassName, ...}`
        for n in self.tree.body:
            if isinstance(n, ast.Assign) and len(n.targets) == 1 and isinstance(n.targets[0], ast.Name) \
                    and isinstance(n.value, ast.Dict) and n.value.keys \
                    and all(isinstance(k, ast.Constant) and isinstance(k.value, str) for k in n.value.keys) \
                    and all(isinstance(v, ast.Name) and v.id in self.mro and v.id not in self.rebound for v in n.value.values) \
                    and len({k.value for k in n.value.keys}) == len(n.value.keys):
                self.dict_consts[n.targets[0].id] = [(k.value, v.id) for k, v in zip(n.value.keys, n.value.values)]
        # get_mapper is translated by py2v_schema (Gen/SchemaSrc.v)
        try:
            text, _ = S.render()
            self.have_get_mapper = "\nDefinition get_mapper " in text
        except Exception:  # noqa
            self.have_get_mapper = False
        # @default_factories must be typedpy.commons' own
        self.default_factories_ok = self.from_imports.get("default_factories") == ("typedpy.commons", "default_factories") \
            and "default_factories" not in self.rebound and "default_factories" not in self.functions


def signature(mod, node, tokens, static=False):
    """-> spec [(name, kind)] of a def; a default is allowed only as a factory under @default_factories"""
    a = node.args
    if a.vararg or a.kwarg or a.kwonlyargs or a.posonlyargs:
        raise Unsupported("signature of %s" % node.name)
    decos = [d.id if isinstance(d, ast.Name) else None for d in node.decorator_list]
    allowed = {"default_factories"} | ({"staticmethod"} if static else set())
    if None in decos or set(decos) - allowed or (static and "staticmethod" not in decos):
        raise Unsupported("decorators of %s" % node.name)
    if "default_factories" in decos and not mod.default_factories_ok:
        raise Unsupported("default_factories is not typedpy.commons'")
    names = [x.arg for x in a.args]
    defaults = [None] * (len(names) - len(a.defaults)) + list(a.defaults)
    spec = []
    for n, d in zip(names, defaults):
        if n in tokens:
            if d is not None:
                raise Unsupported("default for the definitions parameter")
            spec.append((n, "token"))
        elif d is None:
            spec.append((n, "value"))
        elif "default_factories" in decos and isinstance(d, ast.Name) and d.id in FACTORIES \
                and d.id not in mod.functions and d.id not in mod.local_classes and d.id not in mod.rebound:
            spec.append((n, ("factory", FACTORIES[d.id])))
        else:
            raise Unsupported("default argument of %s" % n)
    return spec


def tr_def(mod, coq, node, origin, tokens, static=False, ctx=True):
    def go():
        if node is None:
            raise Unsupported("%s not found" % origin)
        if not static and node.name in mod.rebound:
            raise Unsupported("%s is bound more than once" % node.name)
        spec = signature(mod, node, tokens, static)
        inplace, _, _ = TrC.changed(node.body)
        outs = [p for p, kind in spec if p in inplace and kind != "token"]
        tr = TrC(mod, tokens=[p for p, k in spec if k == "token"], outs=outs)
        params = []
        for p, kind in spec:
            if kind != "token":
                tr.env[p] = p
                params.append(p)
        tr.fresh_dicts |= set(outs)
        tr.root = node.body
        body = tr.block(node.body, tr.finish)
        if not static:
            mod.cdone[node.name] = ("%s %s" % (coq, CTXA) if ctx else coq, spec, outs)
        note = "(* changes %s in place: returns them as a tuple *)\n" % ", ".join(outs) if outs else ""
        return "%sDefinition %s %s(%s : pyval) : res pyval :=\n  %s." % (note, coq, CTXP + " " if ctx else "",
                                                                         " ".join(params), body)
    return coq, origin, go


def render():
    status = {}
    head = ["(* GENERATED by harness/genmods/py2v_codegen.py from /repo/typedpy/json_schema/json_schema_mapping.py",
            "   (the schema-to-code direction).  Do not edit.",
            "   Each definition is the translation of the named Python function into the dynamic-operator libraries",
            "   Base/PyOps.v, PyOps2.v, PyOpsSchema.v, PyOpsCodegen.v (class tables and get_mapper: Gen/SchemaSrc.v);",
            "   Schema/CodegenSrcProofs.v proves it equal to the hand-written token model Schema/CodeGen.v. *)",
            "From Coq Require Import ZArith NArith String List. Import ListNotations.",
            "From TP Require Import Base.PyVal Base.PyOps Base.PyOps2 Base.PyOpsSchema Base.PyOpsCodegen Gen.SchemaSrc.",
            "Local Open Scope string_scope.", ""]
    all_names = ["convert_to_field_code", "schema_to_struct_code", "schema_definitions_to_code"]
    try:
        mod = Module()
    except (OSError, SyntaxError) as e:
        body = ["(* SOURCE UNREADABLE: %s *)" % str(e).replace("*)", "* )")]
        body += ["Definition %s_UNTRANSLATABLE : unit := tt." % n for n in all_names]
        return "\n".join(head + body) + "\n", {n: "unreadable: %s" % e for n in all_names}

    lines = list(head)

    def emit(target):
        coq, origin, go = target
        try:
            text = go()
            status[coq] = "ok"
            ok = True
        except Unsupported as e:
            text = "(* NOT TRANSLATABLE: %s *)\nDefinition %s_UNTRANSLATABLE : unit := tt." % (
                str(e).replace("*)", "* )").replace("(*", "( *"), coq)
            status[coq] = "unsupported: %s" % e
            ok = False
        lines.append("(* from %s *)" % origin)
        lines.append(text)
        lines.append("")
        return ok

    # ---- module-level dispatch tables
    for name in sorted(mod.dict_consts):
        if name in mod.rebound:
            continue
        rows = "; ".join("((PStr %s), (cls_val %s))" % (_sp(k), _sp(v)) for k, v in mod.dict_consts[name])
        lines.append("(* the module-level table %s *)" % name)
        lines.append("Definition MODULE_%s : pyval := (PDict [%s])." % (name, rows))
        lines.append("")

    lines.append("(* Every translated function takes the context parameters")
    lines.append("     O                 = the oracles of the running CPython (str.isprintable, the text of a number)")
    lines.append("     rec schema extra  = convert_to_field_code(schema, <definitions>, additional_fields=extra)")
    lines.append("   and no `definitions` parameter: it is only ever passed through, which the translator checks. *)")
    lines.append("")

    # the signature of the recursive entry point is needed by every caller
    recnode = mod.functions.get(REC)
    try:
        mod.rec_spec = signature(mod, recnode, ["definitions"]) if recnode is not None else None
        if mod.rec_spec is None or [p for p, k in mod.rec_spec if k != "token"] != ["schema", "additional_fields"]:
            raise Unsupported("parameters of %s" % REC)
        rec_ok = True
    except Unsupported as e:
        mod.rec_spec = []
        rec_ok = False
        status[REC] = "unsupported: %s" % e

    # ---- the static methods
    have = {}
    for c, node in mod.local_classes.items():
        if c not in mod.mro:
            continue
        m = next((x for x in node.body if isinstance(x, ast.FunctionDef) and x.name == METHOD), None)
        if m is not None:
            have[c] = emit(tr_def(mod, "%s__%s" % (c, METHOD), m, "%s.%s" % (c, METHOD), ["definitions"], static=True))
    rows = []
    for c in have:
        if have[c]:
            rows.append("  if pystr_eqb d %s then %s__%s %s schema else" % (_sp(c), c, METHOD, CTXA))
        else:
            rows.append("  (* %s.%s is not translatable *)" % (c, METHOD))
    lines.append("(* <class value>.%s(schema, definitions): the definition found along the MRO (Gen/SchemaSrc.v) *)" % METHOD)
    lines.append("Definition METHOD_%s %s (c schema : pyval) : res pyval :=\n"
                 "  d <- py_resolve_method class_mro class_defs c %s ;;\n%s\n  Raise Unmodelled."
                 % (METHOD, CTXP, _sp(METHOD), "\n".join(rows)))
    lines.append("")

    f = mod.functions
    emit(tr_def(mod, "handle_schema_default_to_code", f.get("_handle_schema_default_to_code"),
                "_handle_schema_default_to_code", []))
    emit(tr_def(mod, "convert_field_to_schema_code_internal", f.get("_convert_field_to_schema_code_internal"),
                "_convert_field_to_schema_code_internal", ["definitions"]))
    ok_body = rec_ok and emit(tr_def(mod, "convert_to_field_code_body", recnode, REC, ["definitions"]))
    mod.cdone.pop(REC, None)
    lines.append("(* convert_to_field_code: the recursion through the mappers takes explicit fuel *)")
    if ok_body:
        lines.append("Fixpoint convert_to_field_code (O : cg_oracle) (fuel : nat) (schema additional_fields : pyval) : res pyval :=\n"
                     "  match fuel with\n  | O => Raise OutOfFuel\n"
                     "  | S n => convert_to_field_code_body O (convert_to_field_code O n) schema additional_fields\n"
                     "  end.")
        status["convert_to_field_code"] = "ok"
    else:
        lines.append("Definition convert_to_field_code_UNTRANSLATABLE : unit := tt.")
        status.setdefault("convert_to_field_code", "unsupported: body")
    lines.append("")
    ok_s = emit(tr_def(mod, "schema_to_struct_code_body", f.get("schema_to_struct_code"), "schema_to_struct_code",
                       ["definitions_schema"]))
    if ok_body and ok_s:
        lines.append("Definition schema_to_struct_code (O : cg_oracle) (fuel : nat) (struct_name schema additional_fields : pyval) : res pyval :=\n"
                     "  schema_to_struct_code_body O (convert_to_field_code O fuel) struct_name schema additional_fields.")
        status["schema_to_struct_code"] = "ok"
    else:
        lines.append("Definition schema_to_struct_code_UNTRANSLATABLE : unit := tt.")
        status["schema_to_struct_code"] = "unsupported: body"
    lines.append("")
    ok_d = emit(tr_def(mod, "schema_definitions_to_code_body", f.get("schema_definitions_to_code"),
                       "schema_definitions_to_code", []))
    if ok_body and ok_s and ok_d:
        lines.append("Definition schema_definitions_to_code (O : cg_oracle) (fuel : nat) (schema additional_fields : pyval) : res pyval :=\n"
                     "  schema_definitions_to_code_body O (convert_to_field_code O fuel) schema additional_fields.")
        status["schema_definitions_to_code"] = "ok"
    else:
        lines.append("Definition schema_definitions_to_code_UNTRANSLATABLE : unit := tt.")
        status["schema_definitions_to_code"] = "unsupported: body"
    lines.append("")
    lines.append("(* write_code_from_schema: its effect is the written file; its layout (which text, in which order, under")
    lines.append("   which condition) is the GENERATED table Gen/ModuleLayout.v (harness/genmods/module_layout.py), over the two")
    lines.append("   functions above.  It is not translated here. *)")
    lines.append("")
    return "\n".join(lines), status


def regenerate():
    text, status = render()
    core.write_if_changed(OUT, text)
    return status
