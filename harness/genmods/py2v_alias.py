"""py2v_alias: translation of the places where typedpy COPIES, WRAPS or HANDS OUT containers

    typedpy/structures/structures.py     ImmutableMixin._is_immutable, ImmutableMixin._get_defensive_copy_if_needed
    typedpy/fields/collections_impl.py   _ListStruct / _DequeStruct : __getitem__, __iter__, __init__, copy, __getstate__,
                                         __deepcopy__, __setstate__
                                         _DictStruct : __init__, copy, items, values, __getstate__, __deepcopy__,
                                         __setstate__

into Gallina STATE TRANSFORMERS over the identity heap of the hand model Struct/CopyHeap.v (operators:
Base/PyOpsAlias.v), rewritten on every run from the working tree of core.REPO into coq/theories/Gen/AliasSrc.v.
Struct/AliasSrcProofs.v proves, for every heap and every wrapper, that the generated functions compute what the
hand model's copy policy says (CopyHeap.dc / rewrap / alloc).  The source is read by `ast` only.

Every generated function has the shape
    Src_<Class>_<method> (E : aenv) (rec : heap -> child -> res (heap * child)) (p_self : aval) <params> : M aval
[rec] is copy.deepcopy on heap values (the recursion through __deepcopy__ is closed in the glue at the end of the
generated file, with fuel, as CopyHeap.dc does).  __init__ and __setstate__ return the updated `self`.

Subset of Python (fail closed: anything else makes the definition `Src_..._UNTRANSLATABLE : unit := tt`, and every
function that calls it):
  statements   docstring, x = e, self.a = e, return e, if / else, super().__init__(e) (in __init__ / __setstate__)
  expressions  locals, None / True / False / str / int constants, string constants imported from
               typedpy/structures/consts.py, o.attr, TypedPyDefaults.attr, getattr(o, NAME[, d]), isinstance(v, T)
               (T a class or a tuple of classes known to the hand model), and / or / not, `is None`, `is not None`,
               e1 if c else e2, deepcopy(e[, memo]), id(e), m.get(k, d), self.m(args) / v.m(args) for a translated
               method m, super().copy() / __getitem__(i) / __iter__() / items() / values(), self[:], self[e], d["k"],
               deque(e) / deque() / list(e), (a, b), {"k": e, ...}, Wrapper(args) for a translated wrapper class,
               ListIteratorProxy(e) (the class body is compared with the shape the operator a_iterate implements),
               list / dict comprehensions and generator expressions with ONE generator and no condition
               (`for v in e` / `for k, v in e`); iteration is lazy (a generator runs as it is consumed)."""
import ast
import os

from harness import core

PKG = os.path.join(core.REPO, "typedpy")
OUT = os.path.join(core.COQDIR, "theories", "Gen", "AliasSrc.v")

TYPES = {
    "int": "TInt", "float": "TFloat", "str": "TStr", "bool": "TBool", "Decimal": "TDecimal",
    "bytes": "TBytes", "Enum": "TEnum", "tuple": "TTuple", "frozenset": "TFrozenset", "list": "TList",
    "dict": "TDict", "set": "TSet", "deque": "TDeque", "Structure": "TStructure",
    "ImmutableStructure": "TImmStructure", "ImmutableMixin": "TImmMixin",
}
BASE_KIND = {"list": "KWList", "deque": "KWDeque", "dict": "KWDict"}
PLAIN_CTOR = {"list": "KList", "deque": "KDeque", "set": "KSet"}

MIXIN = ("structures/structures.py", "ImmutableMixin", ["_is_immutable", "_get_defensive_copy_if_needed"])
WRAPPERS = [
    ("fields/collections_impl.py", "_ListStruct",
     ["__getitem__", "__iter__", "__init__", "copy", "__getstate__", "__deepcopy__", "__setstate__"]),
    ("fields/collections_impl.py", "_DequeStruct",
     ["__getitem__", "__iter__", "__init__", "copy", "__getstate__", "__deepcopy__", "__setstate__"]),
    ("fields/collections_impl.py", "_DictStruct",
     ["__getitem__", "__init__", "copy", "items", "values", "__getstate__", "__deepcopy__", "__setstate__"]),
]
EARLY = ("__getitem__", "__iter__")          # translated before the iteration glue exists
RETURNS_SELF = ("__init__", "__setstate__")

# the iterator class whose __next__ the operator a_iterate implements (target[0], target[1], ... while
# len(target) > index); compared structurally, fail closed
PROXY_SHAPE = (
    "class ListIteratorProxy:\n"
    "    def __init__(self, the_list):\n"
    "        self.the_list = the_list\n"
    "        self.index = 0\n"
    "    def __next__(self):\n"
    "        if len(self.the_list) > self.index:\n"
    "            self.index += 1\n"
    "            return self.the_list[self.index - 1]\n"
    "        raise StopIteration\n")


class Unsupported(Exception):
    pass


def coq_str(s):
    if not all(32 <= ord(c) < 127 and c != '"' for c in s):
        raise Unsupported("string constant %r" % s)
    return '(s2p "%s")' % s


def mname(m):
    return m.strip("_") if m.startswith("__") else m.lstrip("_")


def fn_name(cls, m):
    return "Src_%s_%s" % (cls.lstrip("_"), mname(m))


class Source:
    def __init__(self):
        self.trees = {}
        self.consts = {}
        try:
            t = ast.parse(open(os.path.join(PKG, "structures", "consts.py")).read())
            for n in t.body:
                if isinstance(n, ast.Assign) and len(n.targets) == 1 and isinstance(n.targets[0], ast.Name) \
                        and isinstance(n.value, ast.Constant) and isinstance(n.value.value, str):
                    self.consts[n.targets[0].id] = n.value.value
        except (OSError, SyntaxError):
            pass

    def tree(self, rel):
        if rel not in self.trees:
            try:
                self.trees[rel] = ast.parse(open(os.path.join(PKG, rel)).read())
            except (OSError, SyntaxError):
                self.trees[rel] = None
        return self.trees[rel]

    def klass(self, rel, cls):
        t = self.tree(rel)
        if t is None:
            return None
        return next((n for n in ast.walk(t) if isinstance(n, ast.ClassDef) and n.name == cls), None)

    def imported_const(self, rel, name):
        """a Name that the module imports from .consts / typedpy.structures.consts"""
        t = self.tree(rel)
        if t is None or name not in self.consts:
            return None
        for n in ast.walk(t):
            if isinstance(n, ast.ImportFrom) and (n.module or "").endswith("consts"):
                if any((a.asname or a.name) == name and a.name == name for a in n.names):
                    return self.consts[name]
        return None


class Tr:
    """one function"""

    def __init__(self, gen, rel, cls, fn, late):
        self.gen, self.rel, self.cls, self.fn, self.late = gen, rel, cls, fn, late
        self.n = 0
        self.deps = set()
        a = fn.args
        if a.vararg or a.kwarg or a.kwonlyargs or a.posonlyargs:
            raise Unsupported("parameter list")
        self.params = [x.arg for x in a.args]
        if not self.params or self.params[0] != "self":
            raise Unsupported("not a method")
        self.defaults = {}
        for p, d in zip(self.params[len(self.params) - len(a.defaults):], a.defaults):
            self.defaults[p] = d
        self.locals = set(self.params)

    def fresh(self, base="t"):
        self.n += 1
        return "%s%d" % (base, self.n)

    def var(self, name):
        return ("p_" if name in self.params else "v_") + name

    # ---------------------------------------------------------------- calls of translated methods
    def call(self, cls, m, self_term, args):
        if (cls, m) not in self.gen.done:
            raise Unsupported("call of %s.%s (not translated)" % (cls, m))
        self.deps.add((cls, m))
        return "(%s E rec %s)" % (fn_name(cls, m), " ".join([self_term] + args))

    def resolve(self, m):
        """the class that provides self.m (the wrapper class itself, then ImmutableMixin)"""
        if m in self.gen.methods_of.get(self.cls, ()):
            return self.cls
        if self.cls != MIXIN[1] and m in self.gen.methods_of.get(MIXIN[1], ()) and self.gen.kind_of_class.get(self.cls):
            return MIXIN[1]
        if self.cls == MIXIN[1] and m in MIXIN[2]:
            return self.cls
        raise Unsupported("method %s of %s" % (m, self.cls))

    def iters(self):
        if not self.late:
            raise Unsupported("iteration in a function the iteration glue depends on")
        self.deps.add(("glue", "iter"))
        return "(Src_wrapper_iter E rec) (Src_wrapper_getitem E rec)"

    # ---------------------------------------------------------------- expressions: M aval
    def seq(self, exprs, k):
        """evaluate exprs left to right, bind to fresh names, then k(names)"""
        names, out = [], ""
        for e in exprs:
            t = self.fresh()
            out += "%s <~ %s ;; " % (t, self.expr(e))
            names.append(t)
        return "(" + out + k(names) + ")"

    def const_name(self, e):
        if isinstance(e, ast.Constant) and isinstance(e.value, str):
            return e.value
        if isinstance(e, ast.Name) and e.id not in self.locals:
            v = self.gen.src.imported_const(self.rel, e.id)
            if v is not None:
                return v
        raise Unsupported("attribute name is not a constant")

    def types(self, e):
        if isinstance(e, ast.Tuple):
            out = []
            for x in e.elts:
                out += self.types(x)
            return out
        if isinstance(e, ast.Attribute) and isinstance(e.value, ast.Name) and e.attr in TYPES:
            return [TYPES[e.attr]]
        if isinstance(e, ast.Name) and e.id in TYPES and e.id not in self.locals:
            return [TYPES[e.id]]
        raise Unsupported("isinstance against an unknown type")

    def is_self(self, e):
        return isinstance(e, ast.Name) and e.id == "self"

    def is_super(self, e):
        return isinstance(e, ast.Call) and isinstance(e.func, ast.Name) and e.func.id == "super" \
            and not e.args and not e.keywords

    def expr(self, e):
        if isinstance(e, ast.Constant):
            v = e.value
            if v is None:
                return "(mret anone)"
            if v is True or v is False:
                return "(mret (abool %s))" % ("true" if v else "false")
            if isinstance(v, str):
                return "(mret (astr %s))" % coq_str(v)
            if isinstance(v, int):
                return "(mret (aint (%d)%%Z))" % v
            raise Unsupported("constant")
        if isinstance(e, ast.Name):
            if e.id in self.locals:
                return "(mret %s)" % self.var(e.id)
            v = self.gen.src.imported_const(self.rel, e.id)
            if v is not None:
                return "(mret (astr %s))" % coq_str(v)
            raise Unsupported("name %s" % e.id)
        if isinstance(e, ast.Attribute):
            if isinstance(e.value, ast.Name) and e.value.id == "TypedPyDefaults" and "TypedPyDefaults" not in self.locals:
                return "(a_defaults E %s)" % coq_str(e.attr)
            return self.seq([e.value], lambda t: "a_getattr E %s %s" % (t[0], coq_str(e.attr)))
        if isinstance(e, ast.IfExp):
            return "(b <~ %s ;; if b then %s else %s)" % (self.cond(e.test), self.expr(e.body), self.expr(e.orelse))
        if isinstance(e, ast.BoolOp):
            op = "m_or_val" if isinstance(e.op, ast.Or) else "m_and_val"
            out = self.expr(e.values[-1])
            for v in reversed(e.values[:-1]):
                out = "(%s %s %s)" % (op, self.expr(v), out)
            return out
        if isinstance(e, (ast.UnaryOp, ast.Compare)):
            return "(m_boolval %s)" % self.cond(e)
        if isinstance(e, ast.Tuple) and len(e.elts) == 2:
            return self.seq(e.elts, lambda t: "mret (APair %s %s)" % (t[0], t[1]))
        if isinstance(e, ast.Dict):
            keys = []
            for k in e.keys:
                if not (isinstance(k, ast.Constant) and isinstance(k.value, str)):
                    raise Unsupported("dict literal key")
                keys.append(coq_str(k.value))
            return self.seq(e.values, lambda t: "mret (ADict [%s])" % "; ".join(
                "(%s, %s)" % (k, x) for k, x in zip(keys, t)))
        if isinstance(e, ast.Subscript):
            if self.is_self(e.value):
                if isinstance(e.slice, ast.Slice):
                    if e.slice.lower or e.slice.upper or e.slice.step:
                        raise Unsupported("slice")
                    return self.call(self.resolve("__getitem__"), "__getitem__", "p_self", ["ASliceAll"])
                return self.seq([e.slice], lambda t: self.call(self.resolve("__getitem__"), "__getitem__", "p_self", t))
            if isinstance(e.slice, ast.Constant) and isinstance(e.slice.value, str):
                return self.seq([e.value], lambda t: "a_dict_subscript %s %s" % (t[0], coq_str(e.slice.value)))
            raise Unsupported("subscript")
        if isinstance(e, (ast.ListComp, ast.DictComp, ast.GeneratorExp)):
            return self.comp(e)
        if isinstance(e, ast.Call):
            return self.callexpr(e)
        raise Unsupported(type(e).__name__)

    def comp(self, e):
        if len(e.generators) != 1:
            raise Unsupported("comprehension generators")
        g = e.generators[0]
        if g.ifs or g.is_async:
            raise Unsupported("comprehension condition")
        saved = set(self.locals)
        x = self.fresh("x")
        if isinstance(g.target, ast.Name):
            self.locals.add(g.target.id)
            bind = lambda body: "(fun %s => let %s := %s in %s)" % (x, self.var(g.target.id), x, body)
        elif isinstance(g.target, ast.Tuple) and len(g.target.elts) == 2 and all(isinstance(t, ast.Name) for t in g.target.elts):
            a, b = g.target.elts[0].id, g.target.elts[1].id
            self.locals.update((a, b))
            bind = lambda body: "(fun %s => pr <~ a_unpair %s ;; let (%s, %s) := pr in %s)" % (
                x, x, self.var(a), self.var(b), body)
        else:
            raise Unsupported("comprehension target")
        src = "(s <~ %s ;; a_iterate E %s s)" % (self.expr_outer(g.iter, saved), self.iters())
        if isinstance(e, ast.ListComp):
            out = "(ths <~ %s ;; a_listcomp %s ths)" % (src, bind(self.expr(e.elt)))
        elif isinstance(e, ast.GeneratorExp):
            out = "(ths <~ %s ;; a_genexp %s ths)" % (src, bind(self.expr(e.elt)))
        else:
            out = "(ths <~ %s ;; a_dictcomp %s %s ths)" % (src, bind(self.expr(e.key)), bind(self.expr(e.value)))
        self.locals = saved
        return out

    def expr_outer(self, e, outer_locals):
        cur = self.locals
        self.locals = outer_locals
        try:
            return self.expr(e)
        finally:
            self.locals = cur

    def bind_args(self, cls, call):
        """positional / keyword arguments of Cls(...) against Cls.__init__'s parameters"""
        init = self.gen.fns.get((cls, "__init__"))
        if init is None:
            raise Unsupported("constructor of %s" % cls)
        names = [a.arg for a in init.args.args][1:]
        defaults = dict(zip(names[len(names) - len(init.args.defaults):], init.args.defaults))
        given = {}
        if len(call.args) > len(names):
            raise Unsupported("constructor arguments")
        for n, a in zip(names, call.args):
            given[n] = a
        for kw in call.keywords:
            if kw.arg is None or kw.arg not in names or kw.arg in given:
                raise Unsupported("constructor keyword")
            given[kw.arg] = kw.value
        out = []
        for n in names:
            if n in given:
                out.append(given[n])
            elif n in defaults:
                out.append(defaults[n])
            else:
                raise Unsupported("constructor argument %s missing" % n)
        return out

    def callexpr(self, e):
        f = e.func
        if isinstance(f, ast.Name) and f.id not in self.locals:
            if f.id == "getattr" and len(e.args) in (2, 3) and not e.keywords:
                nm = coq_str(self.const_name(e.args[1]))
                if len(e.args) == 2:
                    return self.seq([e.args[0]], lambda t: "a_getattr E %s %s" % (t[0], nm))
                return self.seq([e.args[0], e.args[2]], lambda t: "a_getattr_def E %s %s %s" % (t[0], nm, t[1]))
            if f.id == "isinstance":
                return "(m_boolval %s)" % self.cond(e)
            if f.id == "deepcopy" and len(e.args) in (1, 2) and not e.keywords:
                return self.seq([e.args[0]], lambda t: "a_deepcopy rec %s" % t[0])
            if f.id == "id" and len(e.args) == 1 and not e.keywords:
                return self.seq(e.args, lambda t: "a_id %s" % t[0])
            if f.id in PLAIN_CTOR and not e.keywords and len(e.args) <= 1:
                if not e.args:
                    return "(a_new_empty %s)" % PLAIN_CTOR[f.id]
                return self.seq(e.args, lambda t: "a_new_from E %s %s %s" % (self.iters(), PLAIN_CTOR[f.id], t[0]))
            if f.id in self.gen.kind_of_class and self.gen.kind_of_class[f.id]:
                args = self.bind_args(f.id, e)
                kind = self.gen.kind_of_class[f.id]
                return self.seq(args, lambda t: "s <~ %s ;; a_finish_new %s s" % (
                    self.call(f.id, "__init__", "(AObj [])", t), kind))
            raise Unsupported("call of %s" % f.id)
        if isinstance(f, ast.Attribute):
            if f.attr == "ListIteratorProxy" and len(e.args) == 1 and not e.keywords:
                if not self.gen.proxy_ok:
                    raise Unsupported("ListIteratorProxy is not the iterator the operator implements")
                return self.seq(e.args, lambda t: "mret (AProxy %s)" % t[0])
            if self.is_super(f.value):
                kind = self.gen.kind_of_class.get(self.cls)
                if not kind or e.keywords:
                    raise Unsupported("super()")
                ops = {"copy": (0, "a_super_copy"), "__getitem__": (1, "a_super_getitem"),
                       "__iter__": (0, "a_super_iter"), "items": (0, "a_super_items"), "values": (0, "a_super_values")}
                if f.attr in ops and len(e.args) == ops[f.attr][0]:
                    return self.seq(e.args, lambda t: "%s p_self %s" % (ops[f.attr][1], " ".join(t)))
                raise Unsupported("super().%s" % f.attr)
            if e.keywords:
                raise Unsupported("keyword arguments")
            if self.is_self(f.value):
                c = self.resolve(f.attr)
                return self.seq(e.args, lambda t: self.call(c, f.attr, "p_self", t))
            if f.attr == "get" and len(e.args) == 2:
                return self.seq([f.value] + e.args, lambda t: "a_memo_get %s %s %s" % (t[0], t[1], t[2]))
            if f.attr in MIXIN[2] and (MIXIN[1], f.attr) in self.gen.done:
                self.deps.add((MIXIN[1], f.attr))
                return self.seq([f.value] + e.args, lambda t: "a_with_self E %s (fun s => %s E rec s%s)" % (
                    t[0], fn_name(MIXIN[1], f.attr), "".join(" " + x for x in t[1:])))
            raise Unsupported("method call .%s" % f.attr)
        raise Unsupported("call")

    # ---------------------------------------------------------------- conditions: M bool
    def cond(self, e):
        if isinstance(e, ast.BoolOp):
            op = "m_or" if isinstance(e.op, ast.Or) else "m_and"
            out = self.cond(e.values[-1])
            for v in reversed(e.values[:-1]):
                out = "(%s %s %s)" % (op, self.cond(v), out)
            return out
        if isinstance(e, ast.UnaryOp) and isinstance(e.op, ast.Not):
            return "(m_not %s)" % self.cond(e.operand)
        if isinstance(e, ast.Compare) and len(e.ops) == 1 and isinstance(e.comparators[0], ast.Constant) \
                and e.comparators[0].value is None and isinstance(e.ops[0], (ast.Is, ast.IsNot)):
            c = self.seq([e.left], lambda t: "a_is_none %s" % t[0])
            return c if isinstance(e.ops[0], ast.Is) else "(m_not %s)" % c
        if isinstance(e, ast.Call) and isinstance(e.func, ast.Name) and e.func.id == "isinstance" \
                and "isinstance" not in self.locals and len(e.args) == 2 and not e.keywords:
            tys = self.types(e.args[1])
            return self.seq([e.args[0]], lambda t: "a_isinstance %s [%s]" % (t[0], "; ".join(tys)))
        if isinstance(e, (ast.Compare, ast.UnaryOp)):
            raise Unsupported("comparison")
        return self.seq([e], lambda t: "a_truthy %s" % t[0])

    # ---------------------------------------------------------------- statements
    def block(self, stmts, rest_of_outer=()):
        stmts = list(stmts) + list(rest_of_outer)
        if not stmts:
            if self.fn.name in RETURNS_SELF:
                return "(mret p_self)"
            return "(mret anone)"
        s, rest = stmts[0], stmts[1:]
        if isinstance(s, ast.Expr) and isinstance(s.value, ast.Constant) and isinstance(s.value.value, str):
            return self.block(rest)
        if isinstance(s, ast.Return):
            if self.fn.name in RETURNS_SELF:
                raise Unsupported("return in %s" % self.fn.name)
            return self.expr(s.value) if s.value is not None else "(mret anone)"
        if isinstance(s, ast.Assign) and len(s.targets) == 1:
            t = s.targets[0]
            if isinstance(t, ast.Name):
                if t.id == "self":
                    raise Unsupported("assignment to self")
                val = self.expr(s.value)
                self.locals.add(t.id)
                return "(%s <~ %s ;;\n   %s)" % (self.var(t.id), val, self.block(rest))
            if isinstance(t, ast.Attribute) and self.is_self(t.value):
                if self.fn.name not in RETURNS_SELF:
                    raise Unsupported("attribute assignment outside __init__ / __setstate__")
                val = self.expr(s.value)
                return "(p_self <~ (t <~ %s ;; a_setattr p_self %s t) ;;\n   %s)" % (val, coq_str(t.attr), self.block(rest))
            raise Unsupported("assignment target")
        if isinstance(s, ast.If):
            saved = set(self.locals)
            c = self.cond(s.test)
            a = self.block(s.body, rest)
            self.locals = set(saved)
            b = self.block(s.orelse, rest)
            self.locals = saved
            return "(b <~ %s ;;\n   if b then %s\n   else %s)" % (c, a, b)
        if isinstance(s, ast.Expr) and isinstance(s.value, ast.Call):
            c = s.value
            if isinstance(c.func, ast.Attribute) and c.func.attr == "__init__" and self.is_super(c.func.value) \
                    and len(c.args) == 1 and not c.keywords and self.fn.name in RETURNS_SELF:
                kind = self.gen.kind_of_class.get(self.cls)
                if not kind:
                    raise Unsupported("super().__init__ outside a wrapper class")
                it = self.iters()
                return "(p_self <~ (t <~ %s ;; a_super_init E %s %s p_self t) ;;\n   %s)" % (
                    self.expr(c.args[0]), it, kind, self.block(rest))
        raise Unsupported("statement %s" % type(s).__name__)

    def definition(self):
        body = self.block(self.fn.body)
        ps = "".join(" (%s : aval)" % self.var(p) for p in self.params)
        return "Definition %s (E : aenv) (rec : heap -> child -> res (heap * child))%s : M aval :=\n  %s." % (
            fn_name(self.cls, self.fn.name), ps, body)


GLUE_ITER = """(* ---- glue: the __iter__ / __getitem__ of the wrapper class of `s` (dynamic dispatch on the class of the body) ---- *)
Definition Src_wrapper_getitem (E : aenv) (rec : heap -> child -> res (heap * child)) (s item : aval) : M aval :=
  b <~ a_body s ;; k <~ kind_of b ;;
  match k with
  | KWList => Src_ListStruct_getitem E rec s item
  | KWDeque => Src_DequeStruct_getitem E rec s item
  | _ => mraise Unmodelled
  end.

Definition Src_wrapper_iter (E : aenv) (rec : heap -> child -> res (heap * child)) (s : aval) : M aval :=
  b <~ a_body s ;; k <~ kind_of b ;;
  match k with
  | KWList => Src_ListStruct_iter E rec s
  | KWDeque => Src_DequeStruct_iter E rec s
  | _ => mraise Unmodelled
  end."""

GLUE_DC = """(* ---- glue: copy.deepcopy closes the recursion through the wrappers' __deepcopy__ (fuel, as CopyHeap.dc) ---- *)
Definition Src_wrapper_deepcopy (E : aenv) (memo : aval) (rec : heap -> child -> res (heap * child)) (l : loc)
  : heap -> res (heap * child) :=
  s <~ a_as_self E (AV (CRef l)) ;; k <~ kind_of (AV (CRef l)) ;;
  r <~ match k with
       | KWList => Src_ListStruct_deepcopy E rec s memo
       | KWDeque => Src_DequeStruct_deepcopy E rec s memo
       | KWDict => Src_DictStruct_deepcopy E rec s memo
       | _ => mraise Unmodelled
       end ;;
  a_to_child r.

Definition Src_deepcopy (E : aenv) (memo : aval)
           (inst_dc : (heap -> child -> res (heap * child)) -> loc -> obj -> heap -> res (heap * child)) :=
  py_deepcopy (Src_wrapper_deepcopy E memo) inst_dc."""


class Gen:
    def __init__(self):
        self.src = Source()
        self.done = set()
        self.fns = {}
        self.methods_of = {}
        self.kind_of_class = {}
        self.notes = []
        self.proxy_ok = False

    def load(self):
        for rel, cls, ms in [MIXIN] + WRAPPERS:
            k = self.src.klass(rel, cls)
            self.methods_of[cls] = set()
            if k is None:
                continue
            self.methods_of[cls] = {n.name for n in k.body if isinstance(n, ast.FunctionDef)}
            for n in k.body:
                if isinstance(n, ast.FunctionDef) and not n.decorator_list:
                    self.fns[(cls, n.name)] = n
            if cls != MIXIN[1]:
                bases = [b.id for b in k.bases if isinstance(b, ast.Name)]
                kinds = [BASE_KIND[b] for b in bases if b in BASE_KIND]
                # the wrapper IS a built-in container (first base) and an ImmutableMixin
                ok = len(kinds) == 1 and bases and bases[0] in BASE_KIND and MIXIN[1] in bases \
                    and len(bases) == len(k.bases)
                self.kind_of_class[cls] = kinds[0] if ok else None
        # a wrapper class overriding a mixin method changes what self.m() means inside the mixin
        self.mixin_overridden = any(self.methods_of[c] & set(MIXIN[2]) for _, c, _ in WRAPPERS)
        k = self.src.klass(WRAPPERS[0][0], "_IteratorProxyMixin")
        proxy = None
        if k is not None:
            proxy = next((n for n in k.body if isinstance(n, ast.ClassDef) and n.name == "ListIteratorProxy"), None)
        self.proxy_ok = proxy is not None and ast.dump(proxy) == ast.dump(ast.parse(PROXY_SHAPE).body[0])

    def one(self, rel, cls, m, late, out):
        name = fn_name(cls, m)
        fn = self.fns.get((cls, m))
        try:
            if fn is None:
                raise Unsupported("not found")
            if cls == MIXIN[1] and self.mixin_overridden:
                raise Unsupported("a wrapper class overrides a method of ImmutableMixin")
            if cls != MIXIN[1] and not self.kind_of_class.get(cls):
                raise Unsupported("base classes of %s" % cls)
            tr = Tr(self, rel, cls, fn, late)
            text = tr.definition()
            out.append("(* from %s::%s.%s *)\n%s" % (rel, cls, m, text))
            self.done.add((cls, m))
        except Unsupported as ex:
            out.append("(* from %s::%s.%s -- NOT TRANSLATED: %s *)\nDefinition %s_UNTRANSLATABLE : unit := tt." % (
                rel, cls, m, ex, name))

    def render(self):
        self.load()
        out = []
        for m in MIXIN[2]:
            self.one(MIXIN[0], MIXIN[1], m, False, out)
        for rel, cls, ms in WRAPPERS:
            for m in ms:
                if m in EARLY:
                    self.one(rel, cls, m, False, out)
        out.append(GLUE_ITER)
        self.done.add(("glue", "iter"))
        # __init__ of every class first (constructors are called from __deepcopy__ of any of them)
        order = ["__init__", "copy", "items", "values", "__getstate__", "__deepcopy__", "__setstate__"]
        for m in order:
            for rel, cls, ms in WRAPPERS:
                if m in ms and m not in EARLY:
                    self.one(rel, cls, m, True, out)
        out.append(GLUE_DC)
        head = (
            "(* GENERATED by harness/genmods/py2v_alias.py from /repo/typedpy/structures/structures.py (ImmutableMixin) and\n"
            "   /repo/typedpy/fields/collections_impl.py (_ListStruct, _DequeStruct, _DictStruct).  Do not edit.\n"
            "   Each definition is the translation of the named method into state transformers over the identity heap of\n"
            "   Struct/CopyHeap.v (operators: Base/PyOpsAlias.v).  Struct/AliasSrcProofs.v proves them equal to what the hand\n"
            "   model's copy policy prescribes. *)\n"
            "From Coq Require Import ZArith NArith String List. Import ListNotations.\n"
            "From TP Require Import Base.PyVal Struct.CopyHeap Base.PyOpsAlias.\n"
            "Local Open Scope string_scope.\n")
        return head + "\n" + "\n\n".join(out) + "\n"


def regenerate():
    text = Gen().render()
    return core.write_if_changed(OUT, text)


if __name__ == "__main__":
    print(regenerate())
