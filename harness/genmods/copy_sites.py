"""Generated layer for C11: the copy POLICY of typedpy's __deepcopy__ routines, recognised structurally on the
AST of /repo's working tree and written to coq/theories/Gen/CopySites.v on every run.

  Structure.__getstate__ / __setstate__ / __copy__ (typedpy/structures/structures.py)
      which names the pickled state keeps (all fields of the inheritance chain | unknown; present in __dict__ |
      truthy | no filter | unknown), whether it carries `_none_fields`, how __setstate__ rebuilds the instance
      (the interpreter's default | __dict__.update + `_none_fields` default + `_instantiated` | unknown);
      whether __copy__ is the plain __dict__ update
  Structure.__deepcopy__            (typedpy/structures/structures.py)
      the `return self` guard, the loop over self.__dict__.items(), what is stored for each value
      (deepcopy(v[, memo]) | v | a conditional on isinstance(v, <types>)), and whether it is stored with
      setattr (so that Field.__set__ re-wraps) or written into __dict__
  _ListStruct/_DequeStruct/_DictStruct.__deepcopy__   (typedpy/fields/collections_impl.py)
      what becomes of each item / key / value

The facts are values of `item_policy` / `copy_policy` of coq/theories/Struct/CopyHeap.v.  The recogniser
fails closed: any statement or expression it does not know makes the policy `UnknownPol`, which no safety
predicate accepts and on which the model refuses to evaluate; an unknown type name becomes `TOther`."""
import ast
import os

from harness import core

TYPES = {
    "int": "TInt", "float": "TFloat", "str": "TStr", "bool": "TBool", "NoneType": "TNone", "Decimal": "TDecimal",
    "bytes": "TBytes", "Enum": "TEnum", "tuple": "TTuple", "frozenset": "TFrozenset", "list": "TList",
    "dict": "TDict", "set": "TSet", "deque": "TDeque", "Structure": "TStructure",
    "ImmutableStructure": "TImmStructure", "ImmutableMixin": "TImmMixin",
}


def _parse(rel):
    return ast.parse(open(os.path.join(core.REPO, "typedpy", rel)).read())


def _method(tree, cls, name):
    c = next((n for n in ast.walk(tree) if isinstance(n, ast.ClassDef) and n.name == cls), None)
    if c is None:
        return None
    return next((n for n in c.body if isinstance(n, ast.FunctionDef) and n.name == name), None)


def _is_name(e, name):
    return isinstance(e, ast.Name) and e.id == name


def _type_names(expr, tree):
    """isinstance's second argument -> list of tyname constructors."""
    if isinstance(expr, ast.Tuple):
        out = []
        for e in expr.elts:
            out += _type_names(e, tree)
        return out
    if isinstance(expr, ast.Attribute):          # enum.Enum, collections.deque, decimal.Decimal
        return [TYPES.get(expr.attr, "TOther")]
    if isinstance(expr, ast.Name):
        if expr.id in TYPES:
            return [TYPES[expr.id]]
        # a module-level tuple of types
        for n in tree.body:
            if isinstance(n, ast.Assign) and len(n.targets) == 1 and _is_name(n.targets[0], expr.id) \
                    and isinstance(n.value, ast.Tuple):
                return _type_names(n.value, tree)
        return ["TOther"]
    if isinstance(expr, ast.Call) and _is_name(expr.func, "type") and len(expr.args) == 1 \
            and isinstance(expr.args[0], ast.Constant) and expr.args[0].value is None:
        return ["TNone"]
    return ["TOther"]


def _isinstance_test(test, var, tree):
    """(negated, [types]) for `isinstance(var, T)` / `not isinstance(var, T)` / `var is None`, else None."""
    neg = False
    if isinstance(test, ast.UnaryOp) and isinstance(test.op, ast.Not):
        neg, test = True, test.operand
    if isinstance(test, ast.Call) and _is_name(test.func, "isinstance") and len(test.args) == 2 \
            and _is_name(test.args[0], var):
        return neg, _type_names(test.args[1], tree)
    if isinstance(test, ast.Compare) and _is_name(test.left, var) and len(test.ops) == 1 \
            and isinstance(test.comparators[0], ast.Constant) and test.comparators[0].value is None:
        if isinstance(test.ops[0], ast.Is):
            return neg, ["TNone"]
        if isinstance(test.ops[0], ast.IsNot):
            return (not neg), ["TNone"]
    if isinstance(test, ast.BoolOp) and isinstance(test.op, ast.Or) and not neg:
        tys = []
        for v in test.values:
            r = _isinstance_test(v, var, tree)
            if r is None or r[0]:
                return None
            tys += r[1]
        return False, tys
    return None


def classify(expr, var, tree):
    """What `expr` is with respect to the contained value named `var`:
    ("deep",) | ("shallow",) | ("unless", [types]) | ("unknown",)."""
    if _is_name(expr, var):
        return ("shallow",)
    if isinstance(expr, ast.Call):
        f = expr.func
        fname = f.id if isinstance(f, ast.Name) else (f.attr if isinstance(f, ast.Attribute) else None)
        if fname == "deepcopy" and expr.args and _is_name(expr.args[0], var):
            return ("deep",)
        return ("unknown",)
    if isinstance(expr, ast.IfExp):
        t = _isinstance_test(expr.test, var, tree)
        if t is None:
            return ("unknown",)
        neg, tys = t
        a, b = classify(expr.body, var, tree), classify(expr.orelse, var, tree)
        if neg:
            a, b = b, a
        # a: when the value IS an instance of tys, b: otherwise
        return _combine(tys, a, b)
    return ("unknown",)


def _combine(tys, when_inst, otherwise):
    if when_inst == otherwise:
        return when_inst
    if when_inst == ("shallow",) and otherwise == ("deep",):
        return ("unless", tys)
    if when_inst == ("shallow",) and otherwise[0] == "unless":
        return ("unless", tys + otherwise[1])
    if when_inst == ("deep",) and otherwise[0] in ("deep", "unless"):
        # deep for these types, `otherwise` for the rest: at least as careful as `otherwise` alone only if
        # the re-used types of `otherwise` do not overlap tys; keep it simple and sound: take `otherwise`
        return otherwise
    return ("unknown",)


ORDER = {"unknown": 0, "shallow": 1, "unless": 2, "deep": 3}


def weaker(a, b):
    if a[0] == "unless" and b[0] == "unless":
        return ("unless", a[1] + [t for t in b[1] if t not in a[1]])
    return a if ORDER[a[0]] <= ORDER[b[0]] else b


def emit_policy(p):
    if p[0] == "deep":
        return "Deep"
    if p[0] == "shallow":
        return "Shallow"
    if p[0] == "unless":
        return "(DeepUnless [%s])" % "; ".join(p[1])
    return "UnknownPol"


# ------------------------------------------------------------------ Structure.__deepcopy__

def _store(stmt, result, key, var, tree):
    """A statement storing the copy of one attribute: (via_setattr, classification) or None."""
    if isinstance(stmt, ast.Expr) and isinstance(stmt.value, ast.Call) and _is_name(stmt.value.func, "setattr") \
            and len(stmt.value.args) == 3 and _is_name(stmt.value.args[0], result) and _is_name(stmt.value.args[1], key):
        return True, classify(stmt.value.args[2], var, tree)
    if isinstance(stmt, ast.Assign) and len(stmt.targets) == 1 and isinstance(stmt.targets[0], ast.Subscript):
        t = stmt.targets[0]
        if isinstance(t.value, ast.Attribute) and t.value.attr == "__dict__" and _is_name(t.value.value, result) \
                and _is_name(t.slice, key):
            return False, classify(stmt.value, var, tree)
    return None


def _loop_body(body, result, key, var, tree):
    """(via_setattr, classification) of a loop body over (key, var)."""
    body = [s for s in body if not isinstance(s, ast.Pass)]
    if len(body) == 1:
        s = body[0]
        st = _store(s, result, key, var, tree)
        if st is not None:
            return st
        if isinstance(s, ast.If) and s.orelse:
            t = _isinstance_test(s.test, var, tree)
            a = _loop_body(s.body, result, key, var, tree)
            b = _loop_body(s.orelse, result, key, var, tree)
            if t is None or a is None or b is None or a[0] != b[0]:
                return None
            neg, tys = t
            x, y = (b[1], a[1]) if neg else (a[1], b[1])
            return a[0], _combine(tys, x, y)
        return None
    if len(body) == 2 and isinstance(body[0], ast.If) and not body[0].orelse and body[0].body \
            and isinstance(body[0].body[-1], ast.Continue):
        t = _isinstance_test(body[0].test, var, tree)
        a = _loop_body(body[0].body[:-1], result, key, var, tree)
        b = _loop_body(body[1:], result, key, var, tree)
        if t is None or a is None or b is None or a[0] != b[0]:
            return None
        neg, tys = t
        x, y = (b[1], a[1]) if neg else (a[1], b[1])
        return a[0], _combine(tys, x, y)
    return None


def structure_deepcopy(tree):
    """(self_if_immutable, attr policy, via_setattr)."""
    bad = (False, ("unknown",), True)
    fn = _method(tree, "Structure", "__deepcopy__")
    if fn is None:
        return bad
    self_guard = False
    result = None
    loops = []
    for s in fn.body:
        if isinstance(s, ast.Expr) and isinstance(s.value, ast.Constant):
            continue                                    # docstring
        if isinstance(s, ast.If):
            only_return_self = (len(s.body) == 1 and isinstance(s.body[0], ast.Return)
                                and _is_name(s.body[0].value, "self") and not s.orelse)
            src = ast.unparse(s.test)
            if only_return_self and ("IS_IMMUTABLE" in src or "_immutable" in src) and " or " not in src:
                self_guard = True
                continue
            return bad
        if isinstance(s, ast.For):
            loops.append(s)
            continue
        if isinstance(s, ast.Return):
            if result is None or not _is_name(s.value, result):
                return bad
            continue
        if isinstance(s, ast.Assign) and len(s.targets) == 1:
            t = s.targets[0]
            if isinstance(t, ast.Name):
                if isinstance(s.value, ast.Call) and isinstance(s.value.func, ast.Attribute) \
                        and s.value.func.attr == "__new__":
                    result = t.id
                    continue
                if ast.unparse(s.value) in ("self.__class__", "type(self)"):
                    continue
                return bad
            if isinstance(t, ast.Subscript) and _is_name(t.value, "memo"):
                continue                                # memo[id(self)] = result
            if isinstance(t, ast.Attribute) and result and _is_name(t.value, result) and t.attr == "_skip_validation":
                continue
            return bad
        if isinstance(s, ast.Expr) and isinstance(s.value, ast.Call) and _is_name(s.value.func, "delattr") \
                and s.value.args and result and _is_name(s.value.args[0], result):
            continue
        return bad
    if len(loops) != 1 or result is None:
        return bad
    lp = loops[0]
    if ast.unparse(lp.iter) not in ("self.__dict__.items()", "list(self.__dict__.items())") \
            or not isinstance(lp.target, ast.Tuple) or len(lp.target.elts) != 2 \
            or not all(isinstance(e, ast.Name) for e in lp.target.elts) or lp.orelse:
        return bad
    key, var = lp.target.elts[0].id, lp.target.elts[1].id
    st = _loop_body(lp.body, result, key, var, tree)
    if st is None:
        return bad
    return self_guard, st[1], st[0]


# ------------------------------------------------------------------ wrappers

def wrapper_deepcopy(tree, cls):
    """Policy for the contained items (for a dict: the weaker of keys and values)."""
    fn = _method(tree, cls, "__deepcopy__")
    if fn is None:
        return ("unknown",)
    comps = [n for n in ast.walk(fn) if isinstance(n, (ast.ListComp, ast.DictComp, ast.SetComp, ast.GeneratorExp))]
    if len(comps) == 1:
        c = comps[0]
        if len(c.generators) != 1 or c.generators[0].ifs or "self" not in ast.unparse(c.generators[0].iter):
            return ("unknown",)
        tgt = c.generators[0].target
        if isinstance(c, ast.DictComp):
            if not (isinstance(tgt, ast.Tuple) and len(tgt.elts) == 2 and all(isinstance(e, ast.Name) for e in tgt.elts)):
                return ("unknown",)
            kv, vv = tgt.elts[0].id, tgt.elts[1].id
            return weaker(classify(c.key, kv, tree), classify(c.value, vv, tree))
        if not isinstance(tgt, ast.Name):
            return ("unknown",)
        return classify(c.elt, tgt.id, tree)
    if not comps:
        # the constructor is handed the wrapper itself or a one-level copy of it
        rets = [n for n in ast.walk(fn) if isinstance(n, ast.Return) and n.value is not None]
        if len(rets) == 1 and isinstance(rets[0].value, ast.Call):
            src = [ast.unparse(k.value) for k in rets[0].value.keywords if k.arg in ("mylist", "mydeque", "mydict")]
            if len(src) == 1:
                if src[0].startswith("deepcopy(") and "self" in src[0]:
                    return ("deep",)
                if src[0] in ("self", "self[:]", "self.copy()", "list(self)", "dict(self)", "deque(self)"):
                    return ("shallow",)
    return ("unknown",)


# ------------------------------------------------------------------ Structure.__getstate__, Structure.__copy__

NONES = "_none_fields"


def _is_self_dict(e):
    return isinstance(e, ast.Attribute) and e.attr == "__dict__" and _is_name(e.value, "self")


def _is_const(e, value):
    return isinstance(e, ast.Constant) and e.value == value


def _is_empty_set(e):
    return isinstance(e, ast.Call) and _is_name(e.func, "set") and not e.args and not e.keywords


def _reads_nones(e):
    """the instance's `_none_fields`, an empty set when it has none"""
    if isinstance(e, ast.Call) and isinstance(e.func, ast.Attribute) and e.func.attr == "get" and _is_self_dict(e.func.value) \
            and len(e.args) == 2 and _is_const(e.args[0], NONES) and _is_empty_set(e.args[1]) and not e.keywords:
        return True
    if isinstance(e, ast.Call) and _is_name(e.func, "getattr") and len(e.args) == 3 and _is_name(e.args[0], "self") \
            and _is_const(e.args[1], NONES) and _is_empty_set(e.args[2]) and not e.keywords:
        return True
    return False


def structure_getstate(tree):
    """(which fields, filter, value, internal) of the state __getstate__ returns: a dict comprehension, returned
    directly or bound to a local that then receives internal entries and is returned.
    fields: GsAllFields (the fields of the whole inheritance chain) | GsUnknownFields
    filter: GsInDict (`name in self.__dict__`) | GsTruthy (`self.__dict__.get(name)`) | GsNoFilter | GsUnknownFilter
    value : GsFieldValue (the stored value, through Field.__serialize__ or not) | GsUnknownValue
    internal: GsNonesKept (state["_none_fields"] = the instance's set, empty when absent) | GsNoInternal | GsUnknownInternal"""
    bad = ("GsUnknownFields", "GsUnknownFilter", "GsUnknownValue", "GsUnknownInternal")
    fn = _method(tree, "Structure", "__getstate__")
    if fn is None:
        return bad
    body = [s for s in fn.body if not (isinstance(s, ast.Expr) and isinstance(s.value, ast.Constant))]
    if len(body) < 2 or not isinstance(body[0], ast.Assign) or not isinstance(body[-1], ast.Return):
        return bad
    a, r = body[0], body[-1]
    if len(a.targets) != 1 or not isinstance(a.targets[0], ast.Name) or not isinstance(a.value, ast.Call):
        return bad
    src = ast.unparse(a.value)
    fields = "GsAllFields" if src in ("_get_all_fields_by_name(self.__class__)", "self.__class__.get_all_fields_by_name()",
                                      "self.get_all_fields_by_name()", "_get_all_fields_by_name(type(self))") \
        else "GsUnknownFields"
    if len(body) == 2:
        comp, internal = r.value, "GsNoInternal"
    else:
        st = body[1]
        if not (isinstance(st, ast.Assign) and len(st.targets) == 1 and isinstance(st.targets[0], ast.Name)
                and isinstance(r.value, ast.Name) and r.value.id == st.targets[0].id and st.targets[0].id != a.targets[0].id):
            return (fields, "GsUnknownFilter", "GsUnknownValue", "GsUnknownInternal")
        comp, state = st.value, st.targets[0].id
        stores = body[2:-1]
        internal = "GsNoInternal" if not stores else "GsUnknownInternal"
        if len(stores) == 1 and isinstance(stores[0], ast.Assign) and len(stores[0].targets) == 1:
            t = stores[0].targets[0]
            if isinstance(t, ast.Subscript) and _is_name(t.value, state) and _is_const(t.slice, NONES) \
                    and _reads_nones(stores[0].value):
                internal = "GsNonesKept"
    if not isinstance(comp, ast.DictComp) or len(comp.generators) != 1:
        return (fields, "GsUnknownFilter", "GsUnknownValue", internal)
    g = comp.generators[0]
    if ast.unparse(g.iter) != a.targets[0].id + ".items()" or not isinstance(g.target, ast.Tuple) \
            or len(g.target.elts) != 2 or not all(isinstance(e, ast.Name) for e in g.target.elts):
        return (fields, "GsUnknownFilter", "GsUnknownValue", internal)
    name, field = g.target.elts[0].id, g.target.elts[1].id
    if not g.ifs:
        flt = "GsNoFilter"
    elif len(g.ifs) == 1 and ast.unparse(g.ifs[0]) == "%s in self.__dict__" % name:
        flt = "GsInDict"
    elif len(g.ifs) == 1 and ast.unparse(g.ifs[0]) in ("self.__dict__.get(%s)" % name, "getattr(self, %s, None)" % name):
        flt = "GsTruthy"
    else:
        flt = "GsUnknownFilter"
    vsrc = ast.unparse(comp.value)
    reads = ("getattr(self, %s, None)" % name, "getattr(self, %s)" % name, "self.__dict__[%s]" % name,
             "self.__dict__.get(%s)" % name)
    ok_vals = reads + tuple("%s.__serialize__(%s)" % (field, rd) for rd in reads)
    val = "GsFieldValue" if (_is_name(comp.key, name) and vsrc in ok_vals) else "GsUnknownValue"
    return (fields, flt, val, internal)


def structure_restore(tree):
    """How an instance is rebuilt from its state:
    GsRestoreDefault       Structure defines none of __setstate__ / __reduce__ / __reduce_ex__ / __getnewargs__(_ex)
    GsRestoreInstantiated  __setstate__(self, state) is: self.__dict__.update(state); self.__dict__.setdefault(
                           "_none_fields", set()); self.__dict__["_instantiated"] = True  (the last two in any order)
    GsUnknownRestore       anything else"""
    others = [_method(tree, "Structure", n) for n in ("__reduce__", "__reduce_ex__", "__getnewargs__", "__getnewargs_ex__")]
    fn = _method(tree, "Structure", "__setstate__")
    if any(o is not None for o in others):
        return "GsUnknownRestore"
    if fn is None:
        return "GsRestoreDefault"
    args = fn.args
    if [a.arg for a in args.args] != ["self", "state"] or args.vararg or args.kwarg or args.kwonlyargs or args.defaults:
        return "GsUnknownRestore"
    body = [s for s in fn.body if not (isinstance(s, ast.Expr) and isinstance(s.value, ast.Constant))]
    if len(body) != 3:
        return "GsUnknownRestore"
    up = body[0]
    if not (isinstance(up, ast.Expr) and isinstance(up.value, ast.Call) and isinstance(up.value.func, ast.Attribute)
            and up.value.func.attr == "update" and _is_self_dict(up.value.func.value) and len(up.value.args) == 1
            and _is_name(up.value.args[0], "state") and not up.value.keywords):
        return "GsUnknownRestore"
    seen = set()
    for s in body[1:]:
        if isinstance(s, ast.Expr) and isinstance(s.value, ast.Call) and isinstance(s.value.func, ast.Attribute) \
                and s.value.func.attr == "setdefault" and _is_self_dict(s.value.func.value) and len(s.value.args) == 2 \
                and _is_const(s.value.args[0], NONES) and _is_empty_set(s.value.args[1]) and not s.value.keywords:
            seen.add("nones")
        elif isinstance(s, ast.Assign) and len(s.targets) == 1 and isinstance(s.targets[0], ast.Subscript) \
                and _is_self_dict(s.targets[0].value) and _is_const(s.targets[0].slice, "_instantiated") \
                and isinstance(s.value, ast.Constant) and s.value.value is True:
            seen.add("live")
        else:
            return "GsUnknownRestore"
    return "GsRestoreInstantiated" if seen == {"nones", "live"} else "GsUnknownRestore"


def structure_copy(tree):
    """Structure.__copy__ is `result = cls.__new__(cls); result.__dict__.update(self.__dict__); return result`."""
    fn = _method(tree, "Structure", "__copy__")
    if fn is None:
        return False
    src = [ast.unparse(s) for s in fn.body if not (isinstance(s, ast.Expr) and isinstance(s.value, ast.Constant))]
    return src in (["cls = self.__class__", "result = cls.__new__(cls)", "result.__dict__.update(self.__dict__)", "return result"],
                   ["result = self.__class__.__new__(self.__class__)", "result.__dict__.update(self.__dict__)", "return result"])


# ------------------------------------------------------------------ output

def facts():
    st = _parse(os.path.join("structures", "structures.py"))
    ci = _parse(os.path.join("fields", "collections_impl.py"))
    self_guard, attr, via = structure_deepcopy(st)
    gs = structure_getstate(st) + (structure_restore(st),)
    return {
        "gs": gs, "copy_dict_update": structure_copy(st),
        "cp_self_if_immutable": self_guard, "cp_attr": attr, "cp_attr_via_setattr": via,
        "cp_wlist": wrapper_deepcopy(ci, "_ListStruct"),
        "cp_wdeque": wrapper_deepcopy(ci, "_DequeStruct"),
        "cp_wdict": wrapper_deepcopy(ci, "_DictStruct"),
    }


def render(f):
    b = lambda x: "true" if x else "false"
    return "\n".join([
        "(* GENERATED by harness/genmods/copy_sites.py from the AST of /repo/typedpy (structures/structures.py:",
        "   Structure.__deepcopy__; fields/collections_impl.py: the wrappers' __deepcopy__).  Do not edit. *)",
        "From Coq Require Import List. Import ListNotations.",
        "From TP Require Import Struct.CopyHeap Struct.StatePolicy.",
        "",
        "Definition copy_sites : copy_policy :=",
        "  {|",
        "    cp_self_if_immutable := %s;" % b(f["cp_self_if_immutable"]),
        "    cp_attr := %s;" % emit_policy(f["cp_attr"]),
        "    cp_attr_via_setattr := %s;" % b(f["cp_attr_via_setattr"]),
        "    cp_wlist := %s;" % emit_policy(f["cp_wlist"]),
        "    cp_wdeque := %s;" % emit_policy(f["cp_wdeque"]),
        "    cp_wdict := %s" % emit_policy(f["cp_wdict"]),
        "  |}.",
        "",
        "(* Structure.__getstate__ / __setstate__: which names the pickled state keeps, how the instance is rebuilt *)",
        "Definition state_sites : state_policy :=",
        "  {| sp_fields := %s; sp_filter := %s; sp_value := %s; sp_internal := %s; sp_restore := %s |}." % f["gs"],
        "",
        "(* Structure.__copy__ is `result.__dict__.update(self.__dict__)` on a new object of the same class *)",
        "Definition copy_is_dict_update : bool := %s." % b(f["copy_dict_update"]),
        ""])


def regenerate():
    f = facts()
    core.write_if_changed(os.path.join(core.COQDIR, "theories", "Gen", "CopySites.v"), render(f))
    return f
