"""Gen/SchemaGuards.v (property C08): the guard-like / table-like parts of typedpy/json_schema/json_schema_mapping.py,
re-derived from the source text on every run by abstract interpretation of the function bodies:

  * `EnumMapper.to_schema.adjust`   -> enum_adjust_gen : is_enum -> is_prim -> by_value -> adj
        (which of name / value / the object itself / TypeError an entry of the exported "enum" list becomes,
        as a function of what the isinstance tests report IN THE ORDER THE SOURCE MAKES THEM);
  * `NumberMapper.to_schema.get_min/get_max` -> get_min_gen / get_max_gen : numkind -> sign -> explicit? -> bound
        (one row per concrete typedpy numeric class; isinstance is evaluated on the REAL class hierarchy);
  * module-level mutable state of the export module written from inside functions -> schema_module_state
        (a memo / registry kept across calls makes structure_to_schema history dependent; the model is a function).

Schema/ToSchemaProofs.v proves each generated definition equal to the hand-written model (bridging lemmas, re-exported
as C08_src_* in Props/C08.v).  Fails closed: anything outside the accepted subset makes the definition
`<name>_UNTRANSLATABLE`, and the bridging lemma no longer type-checks."""
import ast
import os

from harness import core
from harness import coqemit as E

SRC = os.path.join(core.REPO, "typedpy", "json_schema", "json_schema_mapping.py")


class Unsupported(Exception):
    pass


def _find_class(tree, name):
    for n in tree.body:
        if isinstance(n, ast.ClassDef) and n.name == name:
            return n
    raise Unsupported("class %s not found" % name)


def _find_def(body, name):
    for n in body:
        if isinstance(n, ast.FunctionDef) and n.name == name:
            return n
    raise Unsupported("def %s not found" % name)


def _strip_doc(body):
    return [s for s in body if not (isinstance(s, ast.Expr) and isinstance(s.value, ast.Constant))]


# ------------------------------------------------------------------ a tiny abstract interpreter for guard chains

class Ret(Exception):
    def __init__(self, v):
        self.v = v


class Interp:
    """Statements: if / return / raise / simple assignment of an abstract value.  `cond` and `value` are supplied
    by the client (they know the abstract domain)."""

    def __init__(self, cond, value, env=None):
        self.cond, self.value, self.env = cond, value, dict(env or {})

    def run(self, body):
        try:
            self.block(_strip_doc(body))
        except Ret as r:
            return r.v
        return ("none",)           # falling off the end returns None

    def block(self, body):
        for s in body:
            if isinstance(s, ast.If):
                self.block(s.body if self.test(s.test) else s.orelse)
            elif isinstance(s, ast.Return):
                raise Ret(("none",) if s.value is None else self.val(s.value))
            elif isinstance(s, ast.Raise):
                exc = s.exc.func if isinstance(s.exc, ast.Call) else s.exc
                raise Ret(("raise", exc.id if isinstance(exc, ast.Name) else "?"))
            elif isinstance(s, ast.Assign) and len(s.targets) == 1 and isinstance(s.targets[0], ast.Name):
                self.env[s.targets[0].id] = self.val(s.value)
            elif isinstance(s, ast.Pass):
                pass
            else:
                raise Unsupported("statement %s" % ast.dump(s)[:80])

    def test(self, t):
        if isinstance(t, ast.UnaryOp) and isinstance(t.op, ast.Not):
            return not self.test(t.operand)
        if isinstance(t, ast.BoolOp):
            vals = [self.test(v) for v in t.values]
            return all(vals) if isinstance(t.op, ast.And) else any(vals)
        if isinstance(t, ast.Name) and t.id in self.env and self.env[t.id][0] == "bool":
            return self.env[t.id][1]
        return self.cond(self, t)

    def val(self, e):
        if isinstance(e, ast.IfExp):
            return self.val(e.body) if self.test(e.test) else self.val(e.orelse)
        if isinstance(e, ast.Name) and e.id in self.env:
            return self.env[e.id]
        return self.value(self, e)


def _is_call(e, fname):
    return isinstance(e, ast.Call) and isinstance(e.func, ast.Name) and e.func.id == fname


def _names_of(e):
    """isinstance's second argument -> list of dotted names."""
    if isinstance(e, ast.Tuple):
        return [x for el in e.elts for x in _names_of(el)]
    return [ast.unparse(e)]


# ------------------------------------------------------------------ EnumMapper.adjust

def _by_value_expr(e):
    return (_is_call(e, "getattr") and len(e.args) >= 2 and isinstance(e.args[1], ast.Constant)
            and e.args[1].value == "serialization_by_value")


def enum_adjust_table():
    tree = ast.parse(open(SRC).read())
    to_schema = _find_def(_find_class(tree, "EnumMapper").body, "to_schema")
    adjust = _find_def(to_schema.body, "adjust")
    arg = adjust.args.args[0].arg
    # names bound in the enclosing function to the by-value flag (a hoisted local)
    outer = {}
    for s in to_schema.body:
        if isinstance(s, ast.Assign) and len(s.targets) == 1 and isinstance(s.targets[0], ast.Name) \
                and _by_value_expr(s.value):
            outer[s.targets[0].id] = "BYV"
    rows = []
    for is_enum in (True, False):
        for is_prim in (True, False):
            for byv in (True, False):
                def cond(ip, t, is_enum=is_enum, is_prim=is_prim, byv=byv):
                    if _is_call(t, "isinstance") and isinstance(t.args[0], ast.Name) and t.args[0].id == arg:
                        names = set(_names_of(t.args[1]))
                        if names == {"enum.Enum"}:
                            return is_enum
                        if names == {"int", "str", "float"}:
                            return is_prim
                        raise Unsupported("isinstance against %s" % sorted(names))
                    if _by_value_expr(t):
                        return byv
                    if isinstance(t, ast.Name) and outer.get(t.id) == "BYV":
                        return byv
                    raise Unsupported("test %s" % ast.unparse(t)[:80])

                def value(ip, e):
                    if isinstance(e, ast.Name) and e.id == arg:
                        return ("adj", "AdjSelf")
                    if isinstance(e, ast.Attribute) and isinstance(e.value, ast.Name) and e.value.id == arg:
                        if e.attr == "name":
                            return ("adj", "AdjName")
                        if e.attr == "value":
                            return ("adj", "AdjValue")
                    if _by_value_expr(e):
                        return ("bool", byv)
                    raise Unsupported("value %s" % ast.unparse(e)[:80])

                r = Interp(cond, value).run(adjust.body)
                if r[0] == "raise":
                    res = "AdjRaise"
                elif r[0] == "adj":
                    res = r[1]
                else:
                    raise Unsupported("adjust returns %r" % (r,))
                # .name/.value of a non-member would raise AttributeError: only reachable under is_enum
                if res in ("AdjName", "AdjValue") and not is_enum:
                    res = "AdjRaise"
                rows.append(((is_enum, is_prim, byv), res))
    return rows


# ------------------------------------------------------------------ NumberMapper.get_min / get_max

KINDS = ["Number", "Integer", "Float"]
SIGNS = ["Any", "Positive", "Negative", "NonPositive", "NonNegative"]


def _num(x):
    if isinstance(x, bool):
        raise Unsupported("bool bound")
    if isinstance(x, int):
        return "(NInt %s)" % E.zlit(x)
    if isinstance(x, float):
        m, e = E.float_me(x)
        return "(NFlt %s %s)" % (E.zlit(m), E.zlit(e))
    raise Unsupported("bound constant %r" % (x,))


def bound_table(fname, attr):
    import typedpy
    from harness.fieldgen import SIGN_CLASS
    tree = ast.parse(open(SRC).read())
    to_schema = _find_def(_find_class(tree, "NumberMapper").body, "to_schema")
    fn = _find_def(to_schema.body, fname)
    arg = fn.args.args[0].arg
    scope = {n: getattr(typedpy, n) for n in ("NonNegative", "Positive", "NonPositive", "Negative", "Integer", "Number", "Float")}
    rows = []
    for k in KINDS:
        for s in SIGNS:
            cls = getattr(typedpy, SIGN_CLASS[(k, s)])
            for explicit in (True, False):
                def is_attr(e):
                    return isinstance(e, ast.Attribute) and isinstance(e.value, ast.Name) and e.value.id == arg \
                        and e.attr == attr

                def cond(ip, t, cls=cls, explicit=explicit):
                    if _is_call(t, "isinstance") and isinstance(t.args[0], ast.Name) and t.args[0].id == arg:
                        names = _names_of(t.args[1])
                        if not all(n in scope for n in names):
                            raise Unsupported("isinstance against %s" % names)
                        return issubclass(cls, tuple(scope[n] for n in names))
                    if isinstance(t, ast.Compare) and len(t.ops) == 1 and is_attr(t.left) \
                            and isinstance(t.comparators[0], ast.Constant) and t.comparators[0].value is None:
                        if isinstance(t.ops[0], ast.IsNot):
                            return explicit
                        if isinstance(t.ops[0], ast.Is):
                            return not explicit
                    raise Unsupported("test %s" % ast.unparse(t)[:80])

                def value(ip, e, explicit=explicit):
                    if is_attr(e):
                        return ("explicit",) if explicit else ("none",)
                    if isinstance(e, ast.Constant):
                        return ("none",) if e.value is None else ("const", e.value)
                    if isinstance(e, ast.UnaryOp) and isinstance(e.op, ast.USub) and isinstance(e.operand, ast.Constant):
                        return ("const", -e.operand.value)
                    raise Unsupported("value %s" % ast.unparse(e)[:80])

                r = Interp(cond, value).run(fn.body)
                if r[0] == "explicit":
                    res = "BExplicit"
                elif r[0] == "none":
                    res = "BNone"
                elif r[0] == "const":
                    res = "(BConst %s)" % _num(r[1])
                else:
                    raise Unsupported("%s returns %r" % (fname, r))
                rows.append(((k, s, explicit), res))
    return rows


# ------------------------------------------------------------------ module-level state written by functions

MUTATORS = {"append", "extend", "insert", "update", "setdefault", "add", "pop", "popitem", "clear", "remove",
            "discard", "__setitem__", "__delitem__", "appendleft"}


def module_state():
    """Module-level names of json_schema_mapping.py that some function (re)binds via `global`, stores into
    (x[k] = v, del x[k], x[k] += v, x.attr = v) or calls a mutating method on."""
    tree = ast.parse(open(SRC).read())
    top = set()
    for n in tree.body:
        targets = []
        if isinstance(n, ast.Assign):
            targets = n.targets
        elif isinstance(n, (ast.AnnAssign, ast.AugAssign)):
            targets = [n.target]
        for t in targets:
            for x in ast.walk(t):
                if isinstance(x, ast.Name):
                    top.add(x.id)
    written = set()
    for fn in ast.walk(tree):
        if not isinstance(fn, (ast.FunctionDef, ast.AsyncFunctionDef, ast.Lambda)):
            continue
        local = set()
        if not isinstance(fn, ast.Lambda):
            local = {a.arg for a in fn.args.args + fn.args.kwonlyargs}
            for n in ast.walk(fn):
                if isinstance(n, ast.Assign):
                    for t in n.targets:
                        if isinstance(t, ast.Name):
                            local.add(t.id)
        for n in ast.walk(fn):
            if isinstance(n, ast.Global):
                written.update(x for x in n.names if True)
                local.difference_update(n.names)
            tg = []
            if isinstance(n, ast.Assign):
                tg = list(n.targets)
            elif isinstance(n, (ast.AugAssign, ast.AnnAssign)):
                tg = [n.target]
            elif isinstance(n, ast.Delete):
                tg = list(n.targets)
            flat = []
            while tg:
                t = tg.pop()
                if isinstance(t, (ast.Tuple, ast.List)):
                    tg = tg + list(t.elts)
                elif isinstance(t, ast.Starred):
                    tg.append(t.value)
                else:
                    flat.append(t)
            for t in flat:
                if isinstance(t, (ast.Subscript, ast.Attribute)):
                    base = t.value
                    while isinstance(base, (ast.Subscript, ast.Attribute)):
                        base = base.value
                    if isinstance(base, ast.Name) and base.id in top and base.id not in local:
                        written.add(base.id)
            if isinstance(n, ast.Call) and isinstance(n.func, ast.Attribute) and n.func.attr in MUTATORS \
                    and isinstance(n.func.value, ast.Name) and n.func.value.id in top and n.func.value.id not in local:
                written.add(n.func.value.id)
    return sorted(written)


# ------------------------------------------------------------------ get_mapper's dispatch table

def mapper_table():
    """The dict literal `field_type_to_mapper` of get_mapper: (Field class, Mapper class) rows in source order; the
    function must remain "first class of the MRO found in the table"."""
    tree = ast.parse(open(SRC).read())
    fn = _find_def(tree.body, "get_mapper")
    dicts = [s_ for s_ in fn.body if isinstance(s_, ast.Assign) and isinstance(s_.value, ast.Dict)]
    if len(dicts) != 1:
        raise Unsupported("get_mapper: expected one dict literal")
    rows = []
    for k, v in zip(dicts[0].value.keys, dicts[0].value.values):
        if not (isinstance(k, ast.Name) and isinstance(v, ast.Name)):
            raise Unsupported("get_mapper: non-name entry")
        rows.append((k.id, v.id))
    rest = [s_ for s_ in _strip_doc(fn.body) if s_ is not dicts[0]]
    ok = (len(rest) == 2 and isinstance(rest[0], ast.For) and isinstance(rest[1], ast.Raise)
          and ast.unparse(rest[0].iter) == "%s.__mro__" % fn.args.args[0].arg)
    if not ok:
        raise Unsupported("get_mapper is no longer an MRO walk over the table")
    return rows


# ------------------------------------------------------------------ which name "<name>._mapper" is looked up under

def submapper_lookup(path, fname):
    """In function `fname` of `path`: the loop `for <key>, ... in ....items()` (or `in items`) whose body reads
    mapper.get(f"{X}._mapper" ...): ByAttrName when X is the loop's key variable, ByMappedName when X is a variable the
    body computes from the mapper, LookupOther otherwise (several different reads, none, or anything else)."""
    tree = ast.parse(open(path).read())
    fn = None
    for n in ast.walk(tree):
        if isinstance(n, ast.FunctionDef) and n.name == fname:
            fn = n
    if fn is None:
        raise Unsupported("def %s not found" % fname)
    kinds = set()
    for loop in ast.walk(fn):
        if not (isinstance(loop, ast.For) and isinstance(loop.target, ast.Tuple) and loop.target.elts
                and isinstance(loop.target.elts[0], ast.Name)):
            continue
        keyvar = loop.target.elts[0].id
        assigned = set()
        for n in ast.walk(loop):
            if isinstance(n, ast.Assign):
                for t in n.targets:
                    if isinstance(t, ast.Name):
                        assigned.add(t.id)
        for n in ast.walk(loop):
            if isinstance(n, ast.JoinedStr) and len(n.values) == 2 and isinstance(n.values[0], ast.FormattedValue) \
                    and isinstance(n.values[1], ast.Constant) and n.values[1].value == "._mapper":
                x = n.values[0].value
                if isinstance(x, ast.Name) and x.id == keyvar:
                    kinds.add("ByAttrName")
                elif isinstance(x, ast.Name) and x.id in assigned:
                    kinds.add("ByMappedName")
                else:
                    kinds.add("LookupOther")
    if len(kinds) != 1:
        return "LookupOther"
    return kinds.pop()


# ------------------------------------------------------------------ rendering

def render():
    lines = ["(* GENERATED by harness/genmods/schema_guards.py from /repo/typedpy/json_schema/json_schema_mapping.py",
             "   (EnumMapper.to_schema.adjust, NumberMapper.to_schema.get_min/get_max, module-level state). Do not edit. *)",
             "From Coq Require Import ZArith List String Bool. Import ListNotations.",
             "From TP Require Import Base.PyVal Fields.FieldAst Schema.ToSchema.", "Local Open Scope string_scope.", ""]
    try:
        rows = enum_adjust_table()
        lines.append("Definition enum_adjust_gen (is_enum is_prim by_value : bool) : adj :=")
        lines.append("  match is_enum, is_prim, by_value with")
        for (a, b, c), r in rows:
            lines.append("  | %s, %s, %s => %s" % (E.blit(a), E.blit(b), E.blit(c), r))
        lines.append("  end.")
    except (Unsupported, OSError, SyntaxError, IndexError) as ex:
        lines.append("(* not translated: %s *)" % str(ex).replace("*)", "* )")[:200])
        lines.append("Definition enum_adjust_gen_UNTRANSLATABLE : unit := tt.")
    lines.append("")
    lines.append("Inductive bound_res := BExplicit | BNone | BConst (n : num).")
    for fname, attr in (("get_min", "minimum"), ("get_max", "maximum")):
        try:
            rows = bound_table(fname, attr)
            lines.append("Definition %s_gen (k : numkind) (s : sign) (explicit : bool) : bound_res :=" % fname)
            lines.append("  match k, s, explicit with")
            for (k, s, ex), r in rows:
                lines.append("  | K%s, S%s, %s => %s" % (k, s, E.blit(ex), r))
            lines.append("  end.")
        except (Unsupported, OSError, SyntaxError, IndexError, AttributeError) as ex:
            lines.append("(* not translated: %s *)" % str(ex).replace("*)", "* )")[:200])
            lines.append("Definition %s_gen_UNTRANSLATABLE : unit := tt." % fname)
        lines.append("")
    try:
        rows = mapper_table()
        lines.append("(* get_mapper: Field class -> Mapper class, in source order *)")
        lines.append("Definition schema_mapper_table : list (pystr * pystr) :=\n  [ %s ]." % ";\n    ".join(
            "(%s, %s)" % (E.pstr(a), E.pstr(b)) for a, b in rows))
    except (Unsupported, OSError, SyntaxError, IndexError) as ex:
        lines.append("(* not translated: %s *)" % str(ex).replace("*)", "* )")[:200])
        lines.append("Definition schema_mapper_table_UNTRANSLATABLE : unit := tt.")
    lines.append("")
    for dname, path, fname in (("schema_submapper_lookup", SRC, "_generate_schema_for_fields_internal"),
                               ("serializer_submapper_lookup",
                                os.path.join(core.REPO, "typedpy", "serialization", "serialization.py"), "serialize_internal")):
        try:
            lines.append("(* %s: the name under which \"<name>._mapper\" is read *)" % fname)
            lines.append("Definition %s : lookup_name := %s." % (dname, submapper_lookup(path, fname)))
        except (Unsupported, OSError, SyntaxError) as ex:
            lines.append("Definition %s_UNTRANSLATABLE : unit := tt." % dname)
    lines.append("")
    try:
        st = module_state()
        lines.append("(* module-level names of the export module that functions write to *)")
        lines.append("Definition schema_module_state : list pystr := %s." % E.lst([E.pstr(x) for x in st]))
    except (OSError, SyntaxError) as ex:
        lines.append("Definition schema_module_state_UNTRANSLATABLE : unit := tt.")
    return "\n".join(lines) + "\n"


def regenerate():
    core.write_if_changed(os.path.join(core.COQDIR, "theories", "Gen", "SchemaGuards.v"), render())
