"""C13 — spelled type expressions bound to a NAME and re-used across several declarations.

`Id = Integer | String; class Customer: id: Id; class Legacy: id: Id | Float` must mean what the same classes
mean with `Integer | String` written out at every use (the INLINE family, whose own meaning is judged by the main
C13 streams and by the correspondence with Struct/Spelling.v).  A case is a module executed step by step:

    N = <spelling>                              the alias
    step 0..k-1:  class S<i>(Structure): <field>: <use of N>      alone / as an operand of |, Optional[..], Union[..],
                                                                   list[..], Array[..], AnyOf[..], Tuple[..], Map[..] ...

and judged in two ways (fields, required set, reified Field objects, defaults, accept / exception class / normal
form / serialization / deserialization on the same candidate values):
  * every class, observed right after ITS OWN definition, against the class of the inline module
    (a later declaration must not depend on what an earlier one did to the shared object);
  * every class observed again after EACH later step, against its own first observation
    (a later declaration must not change an earlier one).
Both with and without `from __future__ import annotations`."""
import sys
import types

from harness import core
from harness import coqemit as E
from harness import fieldgen as G
from harness import spellgen as P

K_NAMES = "C13/alias/shared-field-instance/name-of-another-slot"
K_DEFAULT = "C13/alias/shared-field-instance/default-of-another-declaration"

INT = {"t": "num", "k": "Integer", "s": "Any"}
FLT = {"t": "num", "k": "Float", "s": "Any"}
STR = {"t": "str"}
BOOL = {"t": "bool"}

_counter = [0]


# ----------------------------------------------------------------------------- uses of an alias

def fieldy_alias(s0):
    return s0[0] in ("inst", "fcls", "sub", "ctor1", "ctorN", "or", "struct")


def instance_alias(s0):
    """The alias is bound to ONE Field instance (every use alone shares that object)."""
    return s0[0] in P.UNIQUE_HEADS


def uses_of(A, s0, f0, rnd):
    """[(kind, annot, spelling)]: every way the alias node A (bound to spelling s0 of semantic field f0) is used."""
    pool = (FLT, STR, BOOL, INT, {"t": "mapany", "sz": [None, None]},
            {"t": "seqany", "k": "list", "sz": [None, None], "uniq": False})
    others = [g for g in pool if P.norm_field(g) != P.norm_field(f0)
              and not (f0["t"] in ("anyof", "oneof", "allof", "not")
                       and any(P.norm_field(g) == P.norm_field(h) for h in f0["fs"]))]
    others = (others + list(pool))[:2]          # (a duplicate member is still a legal declaration)
    x, y = others[0], others[1]
    X = lambda kind="general": rnd.choice(P.forms(x, kind, rnd))
    Y = lambda kind="general": rnd.choice(P.forms(y, kind, rnd))
    none = ("none",)
    fieldy = fieldy_alias(s0)
    out = [("alone", True, A)]
    if fieldy:
        out.append(("alone-assign", False, A))
    if s0[0] in ("inst", "fcls", "sub", "ctor1", "ctorN", "or"):
        out += [("or:A|X", True, ("or", A, X("orright"))),
                ("or:A|X|Y", True, ("or", ("or", A, X("orright")), Y("orright"))),
                ("or:A|literal", True, ("or", A, ("lit", ("str", "n/a")))),
                ("or:A|X|literal", True, ("or", ("or", A, X("orright")), ("lit", ("int", 7)))),
                ("or:A|X-assign", False, ("or", A, X("orright")))]
    if fieldy or (s0[0] == "name" and s0[1] in ("int", "float", "str", "bool", "list", "dict", "set")):
        out.append(("or:X|A", True, ("or", X("fieldy"), A)))
    out += [("optional", True, ("optional", A)),
            ("union:A,X", True, ("union", [A, X("unionmember")])),
            ("union:X,A,None", True, ("union", [X("unionmember"), A, none])),
            ("pep585:list", True, ("pep585", "list", [A])),
            ("typing:List", True, ("typing", "List", [A])),
            ("pep585:dict", True, ("pep585", "dict", [("name", "str"), A])),
            ("sub:Array", True, ("sub", "Array", [A])),
            ("sub:AnyOf[A,X]", True, ("sub", "AnyOf", [A, X()])),
            ("sub:AnyOf[X,A,None]", True, ("sub", "AnyOf", [X(), A, none])),
            ("sub:OneOf[A,X]", True, ("sub", "OneOf", [A, X()])),
            ("sub:Tuple[A,X]", True, ("sub", "Tuple", [A, X()])),
            ("sub:Map[String,A]", True, ("sub", "Map", [("fcls", "String"), A]))]
    if fieldy:
        out += [("ctor1:Array", False, ("ctor1", "Array", A, P.NO_SZ, False)),
                ("ctorN:AnyOf", False, ("ctorN", "AnyOf", [A, X("fieldy")], P.NO_SZ, False, None)),
                ("ctorN:Tuple", True, ("ctorN", "Tuple", [A, X("fieldy")], P.NO_SZ, False, None))]
    return out


def mk_step(kind, annot, ty, name="a", eq=None, extra=None):
    return {"kind": kind, "fields": [{"name": name, "annot": annot, "ty": ty, "eq": eq}] + list(extra or [])}


def subst_alias(ty, target):
    """The spelling with the target of every alias node replaced."""
    if isinstance(ty, tuple) and ty and ty[0] == "alias":
        return ("alias", ty[1], target)
    if isinstance(ty, tuple):
        return tuple(subst_alias(x, target) for x in ty)
    if isinstance(ty, list):
        return [subst_alias(x, target) for x in ty]
    return ty


def factory_src(case):
    """def make(T): class S(Structure): <fields written with T>; return S"""
    lines = []
    for fd in case["steps"][0]["fields"]:
        src = P.render(fd["ty"])
        lines.append(("%s: %s" if fd["annot"] else "%s = %s") % (fd["name"], src))
    # the parameter SHADOWS a module-level name of the same spelling that means something else
    return "T = Boolean\ndef make(T):\n    class S(Structure):\n%s\n    return S\n" % "\n".join(
        "        " + l for l in lines)


def step_src(i, step, alias_mode):
    if alias_mode and step.get("binding") is not None:
        return "try:\n    S%d = make(%s)\nexcept Exception as _e:\n    S%d = _e\n" % (i, P.render(step["binding"]), i)
    lines = []
    for fd in step["fields"]:
        ty = fd["ty"] if alias_mode else P.inline(fd["ty"])
        src = P.render(ty)
        if fd["annot"]:
            lines.append("%s: %s" % (fd["name"], src) + (" = %s" % G.py_src(fd["eq"]) if fd["eq"] is not None else ""))
        else:
            lines.append("%s = %s" % (fd["name"], src))
    return "try:\n    class S%d(Structure):\n%s\nexcept Exception as _e:\n    S%d = _e\n" % (
        i, "\n".join("        " + l for l in lines), i)


# ----------------------------------------------------------------------------- cases

ALIAS_POOL = [
    (INT, ("fcls", "Integer")), (INT, ("name", "int")), (INT, ("inst", INT)),
    ({"t": "num", "k": "Integer", "s": "Any", "min": ("int", 1)}, None),
    ({"t": "anyof", "fs": [INT, STR]}, "or"), ({"t": "anyof", "fs": [INT, STR]}, "sub"),
    ({"t": "anyof", "fs": [INT, STR]}, "ctorN"), ({"t": "anyof", "fs": [INT, STR]}, "union"),
    ({"t": "anyof", "fs": [INT, {"t": "none"}]}, "optional"), ({"t": "anyof", "fs": [INT, {"t": "none"}]}, "sub"),
    ({"t": "seqeach", "k": "list", "item": INT, "sz": [None, None], "uniq": False}, "pep585"),
    ({"t": "seqeach", "k": "list", "item": INT, "sz": [None, None], "uniq": False}, "sub"),
    ({"t": "seqeach", "k": "list", "item": INT, "sz": [None, None], "uniq": False}, "ctor1"),
    ({"t": "mapkv", "kf": STR, "vf": INT, "sz": [None, None]}, "sub"),
    ({"t": "ref", "cls": "Inner"}, "struct"),
]


def _pick_form(f, want, rnd):
    forms = P.forms(f, "general", rnd)
    if isinstance(want, tuple):
        return want
    if want is None:
        return [s for s in forms if s[0] == "inst"][0]
    return [s for s in forms if s[0] == want][0]


def lattice_cases(tier):
    """VERIF_SEED-independent: every alias form of ALIAS_POOL x every use kind as the LATER declaration, between two
    declarations that use the alias alone (the first under the same field name, the last under another one)."""
    import random
    rnd = random.Random(424242)
    cases = []
    for f0, want in ALIAS_POOL:
        s0 = _pick_form(f0, want, rnd)
        A = ("alias", "N", s0)
        for kind, annot, ty in uses_of(A, s0, f0, rnd):
            if kind.startswith("alone"):
                continue
            steps = [mk_step("alone", True, A), mk_step(kind, annot, ty), mk_step("alone", True, A)]
            cases.append({"alias": s0, "f0": f0, "steps": steps, "lattice": True})
        # the alias alone under two field names, in two classes and in one; alone with two different defaults
        cases.append({"alias": s0, "f0": f0, "lattice": True,
                      "steps": [mk_step("alone", True, A), mk_step("alone-other-name", True, A, name="b"),
                                mk_step("alone", True, A)]})
        cases.append({"alias": s0, "f0": f0, "lattice": True,
                      "steps": [mk_step("alone-twice", True, A, extra=[{"name": "b", "annot": True, "ty": A, "eq": None}]),
                                mk_step("alone", True, A)]})
        if f0["t"] in ("num", "str", "bool") or (f0["t"] == "anyof" and all(g["t"] in ("num", "str", "none") for g in f0["fs"])):
            cases.append({"alias": s0, "f0": f0, "lattice": True,
                          "steps": [mk_step("alone", True, A), mk_step("alone-default", True, A, eq=("int", 5)),
                                    mk_step("alone-default", True, A, eq=("int", 7)), mk_step("alone", True, A)]})
    return cases


# ----------------------------------------------------------------------------- factories
# def make(T): class S(Structure): a: T; b: <use of T>  — called several times with DIFFERENT bindings of T.  Under
# `from __future__ import annotations` the annotation texts ("T", "list[T]") are the same strings at every call and are
# evaluated in the factory's frame: every call must give the class obtained by writing the binding out.

FACTORY_BINDINGS = [
    [("name", "int"), ("name", "str"), ("name", "float")],
    [("fcls", "Integer"), ("fcls", "String"), ("fcls", "Boolean")],
    [("name", "bool"), ("pep585", "list", [("name", "int")]), ("struct", "Inner"), ("name", "int")],
    [("inst", {"t": "num", "k": "Integer", "s": "Any", "min": ("int", 1)}), ("name", "str"),
     ("typing", "List", [("name", "str")])],
]
FACTORY_USES = ["alone", "pep585:list", "typing:List", "optional", "union:A,X", "union:X,A,None", "pep585:dict",
                "sub:Array", "sub:AnyOf[A,X]", "sub:Tuple[A,X]", "sub:Map[String,A]"]


def factory_case(bindings, use_kind, rnd, lattice):
    A = ("alias", "T", bindings[0])
    uses = {k: (annot, ty) for k, annot, ty in uses_of(A, bindings[0], INT, rnd)}
    if use_kind not in uses:
        return None
    annot, ty = uses[use_kind]
    steps = []
    for b in bindings:
        fields = [{"name": "a", "annot": True, "ty": ("alias", "T", b), "eq": None}]
        if use_kind != "alone":
            fields.append({"name": "b", "annot": annot, "ty": subst_alias(ty, b), "eq": None})
        steps.append({"kind": "make(%s)" % P.top_form(b), "fields": fields, "binding": b})
    return {"alias": ("name", "int"), "f0": INT, "steps": steps, "lattice": lattice, "factory": True,
            "use": use_kind}


def factory_lattice(tier):
    import random
    rnd = random.Random(515151)
    out = []
    for bs in FACTORY_BINDINGS:
        for u in FACTORY_USES:
            c = factory_case(bs, u, rnd, True)
            if c:
                out.append(c)
    return out


def random_factory_case(rnd, gen_semantic_field, ctx, max_depth):
    bs = []
    for _ in range(rnd.choice([2, 3, 3, 4])):
        if rnd.random() < 0.5:
            bs.append(rnd.choice([b for seq in FACTORY_BINDINGS for b in seq]))
        else:
            f = gen_semantic_field(rnd, ctx, max_depth)
            forms = [x for x in P.forms(f, "general", rnd) if not P.defect_tags(x)]
            if forms:
                bs.append(rnd.choice(forms))
    if len(bs) < 2:
        return None
    return factory_case(bs, rnd.choice(FACTORY_USES), rnd, False)


def random_case(rnd, gen_semantic_field, ctx, max_depth):
    for _ in range(20):
        f0 = gen_semantic_field(rnd, ctx, max_depth)
        if f0["t"] == "none":
            continue
        forms = P.forms(f0, "general", rnd)
        s0 = rnd.choice(forms)
        if P.defect_tags(s0):
            continue
        A = ("alias", "N", s0)
        uses = uses_of(A, s0, f0, rnd)
        k = rnd.choice([2, 3, 3, 4, 5])
        steps = []
        for j in range(k):
            kind, annot, ty = uses[0] if rnd.random() < 0.4 else rnd.choice(uses)
            name = "b" if rnd.random() < 0.12 else "a"
            steps.append(mk_step(kind + ("-other-name" if name == "b" else ""), annot, ty, name=name))
        return {"alias": s0, "f0": f0, "steps": steps, "lattice": False}
    return None


# ----------------------------------------------------------------------------- execution

def exec_module(case, ctx, alias_mode, future, observe):
    """Executes the module step by step; observe(step_index, module) after each step."""
    import __future__
    _counter[0] += 1
    name = "c13alias_%d" % _counter[0]
    mod = types.ModuleType(name)
    mod.__dict__.update(ctx.classes)
    sys.modules[name] = mod
    flags = __future__.annotations.compiler_flag if future else 0
    run = lambda src: exec(compile(src, name + ".py", "exec", flags=flags, dont_inherit=True), mod.__dict__)
    try:
        alias_src = factory_src(case) if case.get("factory") else "N = %s\n" % P.render(case["alias"])
        srcs = [step_src(i, st, alias_mode) for i, st in enumerate(case["steps"])]    # (registers function fields)
        run(P.module_prelude(alias_src + "".join(srcs)))
        if alias_mode:
            try:
                run(alias_src)
            except Exception as ex:  # noqa
                mod.__dict__["N"] = None
                mod.__dict__["_alias_error"] = ex
        for i, src in enumerate(srcs):
            run(src)
            observe(i, mod)
    finally:
        sys.modules.pop(name, None)


def run_cases(rep, cases, ctx, rnd, per_field, c13):
    """c13: the harness.props.c13 module (observe_class, gen_candidates, first_difference, union_kept)."""
    for case in cases:
        steps = case["steps"]
        # a use whose inline form typing would normalise (de-duplicate / cache-dependent order) is dropped
        steps = [st for st in steps if all(c13.union_kept(P.inline(fd["ty"]), ctx) for fd in st["fields"])]
        if len(steps) < 2:
            continue
        case = dict(case, steps=steps)
        k = len(steps)
        names = [[fd["name"] for fd in st["fields"]] for st in steps]
        for future in (False, True):
            # ---- the reference: everything written out
            inline_cls = {}
            # (the reference is always built WITHOUT the __future__ import: written out, an expression may exceed the
            #  50 characters _evaluate_if_future_annotations accepts — the known defect, judged by the main stream)
            exec_module(case, ctx, False, False, lambda i, m: inline_cls.__setitem__(i, getattr(m, "S%d" % i)))
            if future and any(fd["annot"] and len(c13.stored_annotation(P.render(fd["ty"]))) >= 50
                              for st in steps for fd in st["fields"]):
                continue
            cands = []
            for i in range(k):
                cls = inline_cls[i]
                members = []
                for n in names[i]:
                    f = None
                    if not isinstance(cls, BaseException):
                        fo = cls.get_all_fields_by_name().get(n)
                        try:
                            f = P.reify_field(fo) if fo is not None else None
                        except Exception:  # noqa
                            f = None
                    members.append({"name": n, "f": f or {"t": "any"}})
                cs, _ = c13.gen_candidates(rnd, members, ctx, per_field,
                                           None if isinstance(cls, BaseException) else cls)
                cands.append(cs)
            ref = [c13.observe_class(inline_cls[i], names[i], cands[i], ctx) for i in range(k)]
            # ---- the alias module, every class observed after every step from its own on
            seen = {}

            def observe(j, m):
                for i in range(j + 1):
                    cls = getattr(m, "S%d" % i)
                    seen[(i, j)] = c13.observe_class(cls, names[i], cands[i], ctx)
                    seen[(i, j)]["_owner_names"] = owner_names(cls, names[i])
            exec_module(case, ctx, True, future, observe)
            stream = "factory-modules" if case.get("factory") else "alias-modules"
            rep.count(stream, 2, (P.signature(case["alias"]), case.get("use"), tuple(st["kind"] for st in steps)))
            rep.count("behaviour", sum(len(cands[i]) * (k - i + 1) for i in range(k)))
            if case.get("factory"):
                rep.stat(stream, "use:" + case["use"] + (",future" if future else ""))
                for st in steps:
                    rep.stat(stream, "binding:" + P.top_form(st["binding"]))
            else:
                rep.stat(stream, "alias:" + P.top_form(case["alias"]))
                for st in steps:
                    rep.stat(stream, "use:" + st["kind"])
            for i in range(k):
                aspect, detail = c13.first_difference(ref[i], seen[(i, i)])
                if aspect:
                    report(rep, case, future, i, i, aspect, detail, "later-depends-on-earlier", cands[i], seen[(i, i)])
                for j in range(i + 1, k):
                    aspect, detail = c13.first_difference(seen[(i, j - 1)], seen[(i, j)])
                    if aspect:
                        bad = seen[(i, j)] if any(v != n for n, v in seen[(i, j)]["_owner_names"].items()) \
                            else seen[(i, j - 1)]
                        report(rep, case, future, i, j, aspect, detail, "earlier-changed-by-later", cands[i], bad)


def owner_names(cls, names):
    """`_name` of the Field object of every member, read AFTER the class was exercised (not compared: attribution)."""
    if isinstance(cls, BaseException):
        return {}
    fs = cls.get_all_fields_by_name()
    return {n: getattr(fs.get(n), "_name", None) for n in names if n in fs}


def report(rep, case, future, i, j, aspect, detail, what, cands, obs=None):
    steps = case["steps"]
    s0 = case["alias"]
    if what == "earlier-changed-by-later":
        culprit, victim = steps[j], steps[i]
        others = [st for n, st in enumerate(steps[:j + 1]) if n != i]     # an intermediate step may have set it up
    else:
        culprit, victim = None, steps[i]
        others = steps[:i]
    key = None
    shared_instance = (victim.get("binding") is not None and victim["binding"][0] in P.UNIQUE_HEADS) \
        if case.get("factory") else (instance_alias(s0) and victim["kind"].startswith("alone"))
    if shared_instance:
        alone_others = [st for st in others if st["kind"].startswith("alone")]
        # ONE Field instance in several slots: its `_name` is whatever the last owner wrote (another class attribute,
        # or the per-element name a collection gives its item field while validating) — seen on the object itself
        renamed = any(v is not None and v != n for n, v in ((obs or {}).get("_owner_names") or {}).items())
        if renamed and aspect in ("behaviour", "default", "field-object"):
            key = K_NAMES
        elif any(fd["eq"] is not None for st in alone_others + [victim] for fd in st["fields"]) and \
                aspect in ("default", "required", "behaviour", "definition"):
            key = K_DEFAULT
    if key is None and aspect == "behaviour" and not case.get("factory") and not instance_alias(s0) and \
            any(n[0] in P.UNIQUE_HEADS for n in P.walk(s0)):
        # the alias is a typing / PEP 585 object that CONTAINS a Field instance (frozenset[Enum(...)]): every conversion
        # wraps that one instance, whose `_name` is then rewritten by whichever collection validated last
        key = K_NAMES
    if key is None and case.get("factory"):
        key = "C13/factory/%s/%s/%suse=%s/call=%d:%s,earlier=%s" % (
            what, aspect, "future," if future else "", case["use"], i, victim["kind"],
            "+".join(st["kind"] for st in steps[:i]))
    if key is None:
        key = "C13/alias/%s/%s/alias=%s/%s" % (
            what, aspect, P.top_form(s0),
            ("later=" + culprit["kind"] + ",earlier=" + victim["kind"]) if culprit else
            ("use=" + victim["kind"] + ",after=" + "+".join(st["kind"] for st in others)))
    alias_src = (factory_src(case) if case.get("factory") else "N = %s\n" % P.render(s0)) + \
        "".join(step_src(n, st, True) for n, st in enumerate(steps))
    rep.finding(key, "%s: class S%d %s (%s): %s\n%s" % (
        what, i, ("differs after the definition of S%d" % j) if culprit else "differs from the same class with the "
        "expression written out", aspect, repr(detail)[:300],
        ("from __future__ import annotations\n" if future else "") + alias_src),
        {"alias_case": {"alias": s0, "steps": steps, "factory": bool(case.get("factory")), "use": case.get("use")},
         "future": future, "victim": i, "after": j, "mode": what,
         "candidates": cands, "python": P.module_prelude(alias_src) + alias_src})


def replay(obj, ctx, c13):
    case = obj["alias_case"]
    tup = c13._tuplify
    case = {"alias": tup(case["alias"]), "factory": case.get("factory"), "use": case.get("use"),
            "steps": [{"kind": st["kind"], "binding": tup(st.get("binding")),
                       "fields": [dict(fd, ty=tup(fd["ty"]), eq=tup(fd["eq"])) for fd in st["fields"]]}
                      for st in case["steps"]]}
    steps = case["steps"]
    i, j, future = obj["victim"], obj["after"], bool(obj.get("future"))
    names = [fd["name"] for fd in steps[i]["fields"]]
    cands = [[(k, tup(v)) for k, v in kw] for kw in (obj.get("candidates") or [])]
    print(("from __future__ import annotations\n" if future else "") +
          (factory_src(case) if case.get("factory") else "N = %s" % P.render(case["alias"])))
    for n, st in enumerate(steps):
        print(step_src(n, st, True).split("\n")[1].strip(), "   ", "; ".join(
            l.strip() for l in step_src(n, st, True).split("\n")[2:-3]))
    seen = {}

    def observe(n, m):
        seen[n] = c13.observe_class(getattr(m, "S%d" % i), names, cands, ctx) if n >= i else None
    exec_module(case, ctx, True, future, observe)
    if obj["mode"] == "earlier-changed-by-later":
        a, b = seen[j - 1], seen[j]
        print("required  : S%d after the definition of S%d is what it was before" % (i, j))
    else:
        ref = {}
        exec_module(case, ctx, False, False, lambda n, m: ref.__setitem__(n, getattr(m, "S%d" % n)))
        a, b = c13.observe_class(ref[i], names, cands, ctx), seen[i]
        print("required  : S%d is the class obtained with `%s` written out at every use" % (i, P.render(case["alias"])))
    aspect, detail = c13.first_difference(a, b)
    print("observed  :", "identical" if not aspect else "differ on %s: %r" % (aspect, detail))
    return 1 if aspect else 0
