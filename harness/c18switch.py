"""C18: the fail-fast switch across threads.

The switch is documented as one for the process: `Structure.set_fail_fast(False)` at start-up, validation
in whatever thread serves the request.  Every other stream sets the switch and validates in one thread.
Here (1) histories of set_fail_fast / failing_fast calls are made by several REAL threads and the answers are
compared, inside Coq, with the cells the generated setter/getter use (Gen/SwitchSites.v) and with the
documented single switch; (2) `placed` runs an ordinary operation with the switch set in one thread and the
validation (and the helper call) done in another - its outcome must be that of the one-thread run."""
import queue
import threading
import zlib

from harness import coqemit as E


def in_thread(fn):
    """Runs fn() in a new thread; returns its result (exceptions of fn are re-raised here)."""
    box = {}

    def target():
        try:
            box["r"] = fn()
        except BaseException as e:  # noqa
            box["e"] = e
    t = threading.Thread(target=target)
    t.start()
    t.join()
    if "e" in box:
        raise box["e"]
    return box.get("r")


class Workers:
    """Threads 1..n that live as long as the history (thread 0 is the caller)."""

    def __init__(self, n):
        self.qs = []
        self.ts = []
        for _ in range(n):
            q = queue.Queue()
            t = threading.Thread(target=self._loop, args=(q,), daemon=True)
            t.start()
            self.qs.append(q)
            self.ts.append(t)

    @staticmethod
    def _loop(q):
        while True:
            item = q.get()
            if item is None:
                return
            fn, out = item
            try:
                out.put(("ok", fn()))
            except BaseException as e:  # noqa
                out.put(("err", e))

    def call(self, tid, fn):
        if tid == 0:
            return fn()
        out = queue.Queue()
        self.qs[tid - 1].put((fn, out))
        kind, v = out.get()
        if kind == "err":
            raise v
        return v

    def close(self):
        for q in self.qs:
            q.put(None)
        for t in self.ts:
            t.join()


FIXED = [
    [("set", 0, False), ("get", 0), ("get", 1), ("get", 2)],            # start-up in main, handlers in workers
    [("set", 1, False), ("get", 0), ("get", 1), ("get", 2)],            # set by a worker
    [("get", 1), ("set", 0, False), ("get", 1), ("set", 0, True), ("get", 1)],
    [("set", 0, False), ("set", 1, True), ("get", 0), ("get", 2)],
    [("set", 1, False), ("set", 2, True), ("get", 1), ("get", 0), ("set", 1, False), ("get", 2)],
    [("get", 0), ("get", 1)],
]


def gen_history(rnd):
    n = rnd.randint(2, 8)
    evs = []
    for _ in range(n):
        t = rnd.randrange(3)
        if rnd.random() < 0.45:
            evs.append(("set", t, rnd.random() < 0.5))
        else:
            evs.append(("get", t))
    if not any(e[0] == "get" for e in evs):
        evs.append(("get", rnd.randrange(3)))
    return evs


def run_history(evs):
    """-> observed answers of the `get` events (True / False / None when the call raised)."""
    from typedpy import Structure
    assert Structure.failing_fast()
    w = Workers(2)
    obs = []
    try:
        for e in evs:
            if e[0] == "set":
                w.call(e[1], lambda b=e[2]: Structure.set_fail_fast(b))
            else:
                try:
                    v = w.call(e[1], Structure.failing_fast)
                    obs.append(v if isinstance(v, bool) else None)
                except Exception:  # noqa
                    obs.append(None)
    finally:
        w.close()
        # back to the documented default, from this thread and - should the switch be kept elsewhere - for
        # whatever a new thread sees
        Structure.set_fail_fast(True)
        if not in_thread(Structure.failing_fast):
            in_thread(lambda: Structure.set_fail_fast(True))
    return obs


def emit(evs, obs):
    ev = ["(ESet %s %s)" % (E.natlit(e[1]), E.blit(e[2])) if e[0] == "set" else "(EGet %s)" % E.natlit(e[1]) for e in evs]
    ob = [E.opt(o, E.blit) for o in obs]
    return "{| sc_evs := %s; sc_obs := %s |}" % (E.lst(ev), E.lst(ob))


def documented(evs):
    cur, out = True, []
    for e in evs:
        if e[0] == "set":
            cur = e[2]
        else:
            out.append(cur)
    return out


def build(rep, rnd, tier):
    items = []
    hs = list(FIXED) + [gen_history(rnd) for _ in range(60 if tier == "quick" else 600)]
    for evs in hs:
        obs = run_history(evs)
        items.append((emit(evs, obs), {"events": evs, "observed": obs}))
        rep.count("switch", len(evs), tuple((e[0], e[1]) for e in evs))
        rep.stat("switch", "threads:%d" % len({e[1] for e in evs}))
    return items


def replay_history(obj):
    evs = [tuple(e) for e in obj["events"]]
    obs = run_history(evs)
    doc = documented(evs)
    print("events    :", evs)
    print("observed  :", obs)
    print("documented:", doc, "(one process-wide switch)")
    bad = obs != doc
    print("FAILS    : C18/switch/not-process-wide" if bad else "the answers are those of one process-wide switch now")
    return 1 if bad else 0


# ------------------------------------------------------------------ an ordinary operation, placed on two threads

PLACEMENTS = ("set-in-main-validate-in-worker", "set-in-worker-validate-in-main")


def placement_of(case, mode, ff):
    return PLACEMENTS[zlib.crc32(("%s/%s/%s" % (case.cast["name"], mode, ff)).encode()) % 2]


def placed(case, mode, ff, placement):
    """The operation of c18.run_op with the switch set in one thread and everything else - validation and the
    helper that turns the exception into ErrorInfo - done in the other.  Returns None or (exception, observation)."""
    from typedpy import Structure, Deserializer
    from harness.props import c18
    old = Structure.failing_fast()

    def op():
        try:
            if mode == "ctor":
                case.fresh()(**case.py)
            else:
                Deserializer(case.fresh()).deserialize(dict(case.doc))
            return None
        except Exception as e:  # noqa
            return e, c18.observe_exception(e)
    try:
        if placement == PLACEMENTS[0]:
            Structure.set_fail_fast(ff)
            return in_thread(op)
        in_thread(lambda: Structure.set_fail_fast(ff))
        return op()
    finally:
        Structure.set_fail_fast(old)
        if in_thread(Structure.failing_fast) != old:
            in_thread(lambda: Structure.set_fail_fast(old))
