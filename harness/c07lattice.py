"""Deterministic enumeration streams of the C07 check (private to C07).

sibling lattice
    A class with 2 or 3 fields named a, b, c of every kind combination (scalar / nested class
    reached directly / through Array / through Set; at least one nested) and EVERY collision-free
    rename of the fields onto {their own names, the names of their siblings, a fresh key}: swaps,
    shifts (a->b, b->k), cycles, renames onto a sibling that moved away.  The nested classes share
    their field names (u_x, v_y) and carry pairwise DIFFERENT per-class mappers, so a nested
    mapper looked up under a sibling's name, or composed in the wrong order, shows either as a
    wrong key set, a missing argument or silently swapped values.  The rename is placed as the
    class's own mapper, as a subclass's mapper, as the explicit Serializer/Deserializer mapper, or
    inside a list chain with TO_CAMELCASE / after TO_LOWERCASE.

falsy lattice
    The same shapes with every populated value falsy (0, "", False, 0.0, an empty nested
    structure, an empty Array/Set): presence of a key must not depend on the truth value of what
    is stored under it.

Cases use the JSON-able AST of harness/props/c07.py: {"h": hclass, "override": entries|None,
"x": instance, "entry": "wrapper"|"function", "stream": name}."""
import itertools

SUFFIX = "._mapper"

# per-class mappers of the nested classes (fields u_x, v_y); pairwise different key sets or
# different assignments of the same keys
NESTED_DECLS = [
    ["one", ["dict", [["u_x", ["key", "p"]], ["v_y", ["key", "q"]]]]],
    ["one", ["dict", [["u_x", ["key", "q"]], ["v_y", ["key", "p"]]]]],
    ["one", "lower"],
    ["one", "camel"],
    None,
    ["one", ["dict", [["u_x", ["key", "v_y"]], ["v_y", ["key", "u_x"]]]]],
    ["many", ["camel", ["dict", [["uX", ["key", "p"]]]]]],
]

PLACEMENTS = ["decl", "sub", "override", "chain_camel", "after_lower", "split"]
KINDS = [None, "ref", "arr", "set"]


DONOT = "<DoNotSerialize>"


def inj_maps(fields, fresh, donot=True):
    """every assignment field -> (unmapped | a field name | a fresh key | DoNotSerialize, at most once)
    whose final keys are pairwise distinct (a dropped field has none: its name is free for a sibling)"""
    targets = [None] + list(fields) + list(fresh) + ([DONOT] if donot else [])
    for combo in itertools.product(targets, repeat=len(fields)):
        finals = [t if t is not None else f for f, t in zip(fields, combo) if t != DONOT]
        if len(set(finals)) == len(finals) and sum(t == DONOT for t in combo) <= 1:
            yield combo


class Uid:
    def __init__(self):
        self.n = 0
        self.val = 100

    def name(self):
        self.n += 1
        return "Q%d" % self.n

    def value(self):
        self.val += 1
        return self.val


def nested_class(uid, decl):
    return {"levels": [{"fields": [["u_x", None], ["v_y", None]], "decl": decl}],
            "name": uid.name(), "immutable": False}


def nested_value(uid, kind, falsy, k):
    def one(empty=False):
        if empty:
            return ["st", []]
        return ["st", [["u_x", ["s", uid.value()]], ["v_y", ["s", 0 if falsy else uid.value()]]]]
    if kind == "ref":
        return one(empty=falsy and k % 2 == 0)
    if falsy and k % 2 == 0:
        return ["l", []]
    return ["l", [one() for _ in range(1 + k % 2)]]


def build(uid, fields, kinds, combo, placement, decl_idx, falsy=False, sub_entry=None, k=0):
    """one lattice case.  decl_idx: index into NESTED_DECLS for each field (ignored for scalars)"""
    if placement == "override" and DONOT in combo:
        placement = "decl"      # the wrappers' mapper field admits str / FunctionCall / dict values only
    entries = [[f, ["donot"] if t == DONOT else ["key", t]] for f, t in zip(fields, combo) if t is not None]
    fs = []
    x = []
    types = {}
    falsy_scalars = [("Integer", 0), ("String", 2 * 10 ** 7), ("Boolean", 10 ** 7), ("Float", 3 * 10 ** 7)]
    for i, (f, kd) in enumerate(zip(fields, kinds)):
        if kd is None:
            fs.append([f, None])
            if falsy:
                ty, code = falsy_scalars[(k + i) % 4]
                if ty != "Integer":
                    types[f] = ty
                x.append([f, ["s", code]])
            else:
                x.append([f, ["s", uid.value()]])
        else:
            h2 = nested_class(uid, NESTED_DECLS[decl_idx[i] % len(NESTED_DECLS)])
            fs.append([f, [kd, h2]])
            x.append([f, nested_value(uid, kd, falsy, k + i)])
    if sub_entry == "all":
        # every nested field has its own '<field>._mapper' entry, with pairwise different contents
        j = 0
        for f, kd in zip(fields, kinds):
            if kd is not None:
                j += 1
                entries.append([f + SUFFIX, ["sub", [["p", ["key", "pp%d" % j]], ["u_x", ["key", "ux%d" % j]],
                                                      ["q", ["key", "qq%d" % j]]]]])
    elif sub_entry is not None:
        # a '<name>._mapper' entry of the outer dict for the first nested field, keyed by the field
        # name ("field") or by the key the field is renamed to ("key")
        for f, kd, t in zip(fields, kinds, combo):
            if kd is not None:
                # (an explicit wrapper mapper must name fields: there the entry is always keyed by the field)
                nm = f if sub_entry == "field" or t is None or t == DONOT or placement == "override" else t
                entries.append([nm + SUFFIX, ["sub", [["p", ["key", "pp"]], ["u_x", ["key", "ux"]]]]])
                break
    override = None
    d = ["dict", entries]
    if placement == "decl":
        levels = [{"fields": fs, "decl": ["one", d] if entries else None}]
    elif placement == "sub":
        levels = [{"fields": fs, "decl": None},
                  {"fields": [["n", None]], "decl": ["one", d] if entries else None}]
        x.append(["n", ["s", uid.value()]])
    elif placement == "override":
        levels = [{"fields": fs, "decl": None}]
        override = entries or None
    elif placement == "chain_camel":
        levels = [{"fields": fs, "decl": ["many", [d, "camel"]] if entries else ["one", "camel"]}]
    elif placement == "after_lower":
        up = [[kk.upper() if not kk.endswith(SUFFIX) else kk[:-len(SUFFIX)].upper() + SUFFIX, v] for kk, v in entries]
        levels = [{"fields": fs, "decl": ["many", ["lower", ["dict", up]]] if up else ["one", "lower"]}]
    else:  # split: the first entry is declared by the base class, the rest by the subclass, keyed by current keys
        first, rest = entries[:1], entries[1:]
        cur = {e[0]: e[1][1] for e in first if e[1][0] == "key"}
        if any(e[1][0] == "donot" for e in first):
            rest = []
        rest2 = [[kk, v] for kk, v in rest]
        ok = not any(kk in cur.values() or kk in cur for kk, _ in rest2)
        if not (first and rest2 and ok):
            levels = [{"fields": fs, "decl": ["one", d] if entries else None}]
        else:
            levels = [{"fields": fs, "decl": ["one", ["dict", first]]},
                      {"fields": [["n", None]], "decl": ["one", ["dict", rest2]]}]
            x.append(["n", ["s", uid.value()]])
    h = {"levels": levels, "name": uid.name(), "immutable": False}
    if types:
        h["types"] = types
    return {"h": h, "override": override, "x": x}


def decl_pairs(n):
    """index tuples into NESTED_DECLS with pairwise different entries, rotating"""
    m = len(NESTED_DECLS)
    out = []
    for s in range(m):
        for d in range(1, m):
            out.append(tuple((s + j * d) % m for j in range(n)))
    return [t for t in out if len(set(t)) == len(t)]


def sibling_cases(rnd, tier):
    uid = Uid()
    cases = []
    k = 0
    # ---- two fields: the full product kinds x renames; placement and nested mappers rotate (quick)
    #      or are enumerated (thorough)
    f2 = ["a", "b"]
    pairs2 = decl_pairs(2)
    for kinds in itertools.product(KINDS, repeat=2):
        if all(kd is None for kd in kinds):
            continue
        for combo in inj_maps(f2, ["k1"]):
            if all(t is None for t in combo):
                continue
            pls = PLACEMENTS if tier != "quick" else [PLACEMENTS[k % len(PLACEMENTS)],
                                                      PLACEMENTS[(k // len(PLACEMENTS) + 3) % len(PLACEMENTS)]]
            if tier == "quick" and DONOT in combo:
                pls = pls[:1]
            for pl in dict.fromkeys(pls):
                se = "all" if (k % 4 == 1 and all(kd is not None for kd in kinds)) else None
                c = build(uid, f2, kinds, combo, pl, pairs2[k % len(pairs2)], sub_entry=se, k=k)
                c["entry"] = "function" if k % 3 == 0 else "wrapper"
                c["stream"] = "sibling-lattice"
                cases.append(c)
                k += 1
    # ---- three fields: a sample of the product
    f3 = ["a", "b", "c"]
    pairs3 = decl_pairs(3)
    maps3 = [m for m in inj_maps(f3, ["k1"]) if sum(t is not None for t in m) >= 2]
    kinds3 = [kd for kd in itertools.product(KINDS, repeat=3) if sum(x is not None for x in kd) >= 2]
    n3 = 160 if tier == "quick" else 2000
    for _ in range(n3):
        kinds = rnd.choice(kinds3)
        combo = rnd.choice(maps3)
        pl = rnd.choice(PLACEMENTS)
        se = rnd.choice([None, None, None, "field", "key", "all"])
        c = build(uid, f3, kinds, combo, pl, rnd.choice(pairs3), sub_entry=se, k=k)
        c["entry"] = rnd.choice(["wrapper", "function"])
        c["stream"] = "sibling-lattice"
        cases.append(c)
        k += 1
    return cases


def falsy_cases(rnd, tier):
    uid = Uid()
    uid.n = 5000
    cases = []
    k = 0
    f2 = ["a", "b"]
    pairs2 = decl_pairs(2)
    combos = [("k1", None), ("b", "a"), ("b", "k1"), (None, "k1"), ("a", "b")]
    for kinds in itertools.product(KINDS, repeat=2):
        for combo in combos:
            pls = PLACEMENTS[:5] if tier != "quick" else [PLACEMENTS[k % 5]]
            for pl in pls:
                c = build(uid, f2, kinds, combo, pl, pairs2[k % len(pairs2)], falsy=True, k=k)
                c["entry"] = "function" if k % 2 else "wrapper"
                c["stream"] = "falsy-lattice"
                cases.append(c)
                k += 1
    return cases
