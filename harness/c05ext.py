"""C05-private extensions of the serializable-fragment generators (harness/sergen.py):

* enum classes whose members have FALSY values (0, "", False, 0.0), by value and by name, and a class whose member
  names and values are swapped (by-name / by-value confusion is visible on it);
* declaration kinds outside the Coq model: DecimalNumber ("decimal") and the date/time fields ("date");
* field generators: `gen_field_main` (inside the Coq model: every enum class, AnyOf over ARBITRARY options of the
  fragment, Anything) and `gen_field_ext` (adds the SerializableField leaves at every position);
* the deterministic lattice: every leaf declaration x every wrapper position x every falsy/member value;
* measured hypotheses of the property: `distinguishable` (AnyOf), `rt_dates` (formats), `loose_eq` (documented loss).
"""
import collections
import datetime
import decimal
import enum

from harness import coqemit as E
from harness import fieldgen as G
from harness import sergen as SG


# ------------------------------------------------------------------ vocabulary

class PrioV(enum.Enum):
    NONE = 0
    LOW = 1
    HIGH = 2


class PrioN(enum.Enum):
    NONE = 0
    LOW = 1
    HIGH = 2


class SuffixV(enum.Enum):
    EMPTY = ""
    JR = "jr."
    SR = "sr."


class FlagV(enum.Enum):
    OFF = False
    ON = True


class RatioV(enum.Enum):
    ZERO = 0.0
    HALF = 0.5


class SwapV(enum.Enum):
    A = "B"
    B = "A"
    C = "C"


class SwapN(enum.Enum):
    A = "B"
    B = "A"
    C = "C"


# Enum classes with a data-type MIX-IN: a member IS an int / float / str, takes its truthiness from that type (LevelIV.OFF
# is falsy although it is a member) and compares equal to its value (LevelIV.OFF == 0).  The value model's == does not
# say so, therefore these classes occur only in the streams judged on the implementation (the "serializable-leaves"
# worlds and their lattice), never in the Coq correspondence.
class LevelIV(enum.IntEnum):
    OFF = 0
    LOW = 1
    HIGH = 2


class LevelIN(enum.IntEnum):
    OFF = 0
    LOW = 1
    HIGH = 2


class RatioFV(float, enum.Enum):
    ZERO = 0.0
    HALF = 0.5


class RatioFN(float, enum.Enum):
    ZERO = 0.0
    HALF = 0.5


class TagSV(str, enum.Enum):
    EMPTY = ""
    A = "alpha"
    B = "B"


class TagSN(str, enum.Enum):
    EMPTY = ""
    A = "alpha"
    B = "B"


MIXIN_ENUMS = [(LevelIV, True), (LevelIN, False), (RatioFV, True), (RatioFN, False), (TagSV, True), (TagSN, False)]
MIXIN_NAMES = [c.__name__ for c, _ in MIXIN_ENUMS]
STR_MIXIN = ("TagSV", "TagSN")

NEW_ENUMS = [(PrioV, True), (PrioN, False), (SuffixV, True), (FlagV, True), (RatioV, True), (SwapV, True), (SwapN, False)]
for _cls, _bv in NEW_ENUMS + MIXIN_ENUMS:
    SG.register_enum(_cls, _bv)

ENUM_NAMES = ["Color", "Size", "ColorV", "SizeV"] + [c.__name__ for c, _ in NEW_ENUMS]

IMPORTS = (SG.IMPORTS + "from harness.c05ext import %s\n" % ", ".join(c.__name__ for c, _ in NEW_ENUMS + MIXIN_ENUMS) +
           "import datetime\nfrom typedpy import DecimalNumber, DateField, DateTime\nfrom typedpy.extfields import TimeField\n")


class XContext(SG.SerContext):
    imports = IMPORTS


# ---- declaration kinds outside the Coq model

DEC_VALUES = ["0", "12.5", "1.25", "-3", "0.1", "100", "1E-7", "123456789012345678901234567890", "-0.5", "7"]

DATE_FMT = {  # (kind, custom?) -> (constructor source, strftime format)
    ("date", False): ("DateField()", "%Y-%m-%d"),
    ("date", True): ('DateField(date_format="%d/%m/%Y")', "%d/%m/%Y"),
    ("datetime", False): ("DateTime()", "%m/%d/%y %H:%M:%S"),
    ("datetime", True): ('DateTime(datetime_format="%Y-%m-%dT%H:%M:%S.%f")', "%Y-%m-%dT%H:%M:%S.%f"),
    ("time", False): ("TimeField()", "%H:%M:%S"),
    ("time", True): ('TimeField(format_str="%H:%M:%S.%f")', "%H:%M:%S.%f"),
}


def gen_date_value(rnd, kind, lossless_bias=0.85):
    """A date/time value; with probability lossless_bias one that every format above round-trips
    (years 1969..2068, no microseconds), else anything in 1900..2100 with microseconds."""
    safe = rnd.random() < lossless_bias
    us = 0 if safe else rnd.choice([0, rnd.randrange(1000000)])
    year = rnd.randint(1969, 2068) if safe else rnd.randint(1900, 2100)
    if kind == "date":
        d = datetime.date(year, rnd.randint(1, 12), rnd.randint(1, 28))
    elif kind == "time":
        d = datetime.time(rnd.choice([0, rnd.randint(0, 23)]), rnd.choice([0, rnd.randint(0, 59)]), rnd.randint(0, 59), us)
    else:
        d = datetime.datetime(year, rnd.randint(1, 12), rnd.randint(1, 28), rnd.choice([0, rnd.randint(0, 23)]),
                              rnd.randint(0, 59), rnd.randint(0, 59), us)
    return ("other", kind, d.isoformat())


G.EXT["decimal"] = {
    "field_src": lambda f: "DecimalNumber()",
    "gen_valid": lambda rnd, f, classes, depth: E.reify(decimal.Decimal(rnd.choice(DEC_VALUES))),
    "falsy": lambda f: [("dec", 0, 0)],
}
# Anything holding values of the serializable fragment (JSON-like values, tuples and sets of them, nested lists/dicts);
# "any" itself (fieldgen) draws arbitrary objects (bytes, object(), complex, nan), which no serializer is asked to render
ANY_VALUES = [None, True, False, 0, 1, -1, 0.0, 2.5, "", "a", "True", [], [1], [1, "a", None], ["a", [1, 2]], (), (1, "a"),
              {}, {"a": 1}, {"k": [1, 2], "e": {}}, {"a": None, "b": 0}, set(), {1, 2}, [[], {}], [(1, 2), [3]]]
G.EXT["anyj"] = {
    "field_src": lambda f: "Anything()",
    "emit_field": lambda f: "FAnything",
    "gen_valid": lambda rnd, f, classes, depth: E.reify(rnd.choice(ANY_VALUES)),
}
# the elements of a positional Array/Deque past the declared positions have no declaration: they are serialized without one
# and read back RAW, so -- like the contents of an Anything field -- only JSON values are asked of the serializer, and only
# those that come back as themselves (no tuple/set) are judged by the equal-instance clause
JSON_EXTRAS = [0, 7, -1, 2.5, "", "extra", "True", False, True, [], [1, "a"], [[1, 2], []], {}, {"k": 1}, {"k": [1, {"e": ""}]}]


def gen_json_extra(rnd):
    return E.reify(rnd.choice(JSON_EXTRAS))


G.EXT["date"] = {
    "field_src": lambda f: DATE_FMT[(f["k"], bool(f.get("custom")))][0],
    "gen_valid": lambda rnd, f, classes, depth: gen_date_value(rnd, f["k"]),
}


def rt_format(kind, fmt, d):
    """The format's own round trip on this value: strptime(strftime(d)) == d (hypothesis RT of the property)."""
    try:
        p = datetime.datetime.strptime(d.strftime(fmt), fmt)
    except Exception:  # noqa
        return False
    return {"date": p.date, "time": p.time, "datetime": lambda: p}[kind]() == d


# names of additional properties: ordinary, single-underscore, dunder-like, look-alikes of typedpy's bookkeeping
# attributes (none of them IS one), camel / snake case, non-ASCII
EXTRA_NAMES = ["x1", "x2", "zz", "_id", "_x1", "_", "__v__", "__meta", "_instantiated_", "_none_field", "none_fields",
               "instantiated", "_trusted", "camelCase", "snake_case", "Mixed_Case9", "na\u00efve", "\u540d\u524d", "\u00e9"]

# ------------------------------------------------------------------ field generators

NOSZ = [None, None]

def x_scalar(rnd, ext=False, simple=False):
    r = rnd.random()
    if ext and r < 0.34:
        if rnd.random() < 0.4:
            return {"t": "decimal"}
        return {"t": "date", "k": rnd.choice(["date", "datetime", "time"]), "custom": rnd.random() < 0.5}
    r = rnd.random()
    if r < 0.30:
        k = rnd.choice(["Integer", "Integer", "Float", "Number"])
        s = rnd.choice(["Any", "Any", "Any", "Positive", "NonNegative", "Negative", "NonPositive"])
        f = {"t": "num", "k": k, "s": s}
        if not simple and rnd.random() < 0.4:
            f.update(G.gen_numc(rnd, k))
        return f
    if r < 0.50:
        f = {"t": "str"}
        if not simple:
            if rnd.random() < 0.3:
                f["min"] = rnd.choice([0, 1, 2])
            if rnd.random() < 0.3:
                f["max"] = rnd.choice([3, 4, 5, 11])
            if rnd.random() < 0.2:
                f["pat"] = rnd.randrange(len(G.PATTERNS))
        return f
    if r < 0.60:
        return {"t": "bool"}
    if r < 0.70:
        pool = [1, 2, 3, "a", "abc", "x", 2.5, 0, "", "RED", False, 0.0]
        vals = rnd.sample(pool, rnd.randint(1, 4))
        vals = G.dedup([E.reify(v) for v in vals])
        return {"t": "enumlit", "values": vals}
    cname = rnd.choice(MIXIN_NAMES if ext and rnd.random() < 0.45 else ENUM_NAMES)
    names = [m.name for m in G.ENUMS[cname]]
    if rnd.random() < 0.25 and len(names) > 1:
        names = sorted(rnd.sample(names, rnd.randint(1, len(names) - 1)), key=names.index)
    return {"t": "enumcls", "cls": cname, "members": names}


B = {"t": "bool"}
INT = {"t": "num", "k": "Integer", "s": "Any"}


def rejecters(ext):
    """Options that reject a foreign document each in its own way (ValueError/TypeError from _validate, IndexError from
    value[i] of a positional Tuple/Array on a shorter list or on "", KeyError on a dict, decimal.InvalidOperation ...)."""
    out = [
        {"t": "seqeach", "k": "list", "item": B, "sz": NOSZ, "uniq": False},
        {"t": "tuple", "items": [INT, B], "uniq": False},
        {"t": "tuple", "items": [B], "uniq": False},
        {"t": "seqpos", "k": "list", "items": [INT, B], "sz": NOSZ, "uniq": False, "additional": None},
        {"t": "seqpos", "k": "deque", "items": [B, B, B], "sz": NOSZ, "uniq": False, "additional": False},
        {"t": "mapkv", "kf": {"t": "str"}, "vf": B, "sz": NOSZ},
        {"t": "set", "imm": False, "item": B, "sz": NOSZ},
    ]
    if ext:
        out += [{"t": "decimal"}, {"t": "decimal"}, {"t": "date", "k": "date", "custom": False}]
    return out


def _gen_field(rnd, depth, classes, max_depth, ext):
    if depth >= max_depth or rnd.random() < (0.42 if depth == 0 else 0.6):
        return x_scalar(rnd, ext)
    sub = lambda: _gen_field(rnd, depth + 1, classes, max_depth, ext)
    kinds = [("seqeach", 20), ("seqpos", 6), ("set", 10), ("tuple", 10), ("mapkv", 16), ("anyof", 20),
             ("any", 0 if ext else 3), ("ref", 16 if classes else 0)]
    t = G.weighted(rnd, kinds)
    if t == "any":
        return {"t": "anyj"}
    if t == "seqeach":
        return {"t": t, "k": rnd.choice(["list", "list", "deque"]), "item": sub(),
                "sz": G.gen_sz(rnd) if rnd.random() < 0.25 else [None, None], "uniq": rnd.random() < 0.1}
    if t == "seqpos":
        n = rnd.randint(1, 3)
        return {"t": t, "k": rnd.choice(["list", "list", "deque"]), "items": [sub() for _ in range(n)],
                "sz": [None, None], "uniq": False, "additional": rnd.choice([None, False, False, True])}
    if t == "set":
        return {"t": t, "imm": rnd.random() < 0.3, "item": x_scalar(rnd, ext),
                "sz": G.gen_sz(rnd) if rnd.random() < 0.25 else [None, None]}
    if t == "tuple":
        n = rnd.choice([1, 2, 2, 3])
        return {"t": t, "items": [sub() if rnd.random() < 0.3 else x_scalar(rnd, ext, simple=True) for _ in range(n)],
                "uniq": False}
    if t == "mapkv":
        r = rnd.random()
        if r < 0.45:
            kf = {"t": "str"}
        elif r < 0.6:
            kf = {"t": "num", "k": "Integer", "s": "Any"}
        else:
            kf = x_scalar(rnd, ext, simple=True)
        return {"t": t, "kf": kf, "vf": sub(), "sz": G.gen_sz(rnd) if rnd.random() < 0.25 else [None, None]}
    if t == "anyof":
        r = rnd.random()
        if r < 0.35:      # Optional[T], either order
            fs = [sub(), {"t": "none"}]
            if rnd.random() < 0.3:
                fs.reverse()
            return {"t": "anyof", "fs": fs}
        # ARBITRARY options of the fragment; whether a value distinguishes them is measured (distinguishable())
        n = rnd.choice([2, 2, 3])
        fs = []
        if rnd.random() < 0.4:
            # an option that has to REJECT the documents of the later ones, each kind in its own way
            fs.append(dict(rnd.choice(rejecters(ext))))
            n -= 1
            if fs[0]["t"] in ("tuple", "seqpos") and rnd.random() < 0.7:
                # ... followed by an option whose documents are (short) lists
                fs.append({"t": rnd.choice(["seqeach", "seqeach", "set"]), "k": rnd.choice(["list", "deque"]), "imm": False,
                           "item": x_scalar(rnd, ext, simple=True), "sz": NOSZ, "uniq": False})
                n -= 1
        for _ in range(n):
            fs.append(sub() if rnd.random() < 0.5 else x_scalar(rnd, ext, simple=rnd.random() < 0.5))
        if rnd.random() < 0.15:
            fs.insert(rnd.randint(0, len(fs)), {"t": "none"})
        return {"t": "anyof", "fs": fs}
    return {"t": "ref", "cls": rnd.choice(list(classes))}


def gen_anyof_dispatch(rnd, classes, ext):
    """AnyOf[R, M, ...]: an option R that must reject the documents of the later options (in its own way), then the
    options M the values are drawn from.  -> (declaration, [M...])"""
    R = dict(rnd.choice(rejecters(ext)))
    ms = []
    for _ in range(rnd.choice([1, 1, 2])):
        r = rnd.random()
        if r < 0.45:
            ms.append({"t": rnd.choice(["seqeach", "seqeach", "set"]), "k": rnd.choice(["list", "deque"]), "imm": False,
                       "item": x_scalar(rnd, ext, simple=True), "sz": NOSZ, "uniq": False})
        elif r < 0.8:
            ms.append(x_scalar(rnd, ext, simple=True))
        else:
            ms.append(_gen_field(rnd, 1, classes, 2, ext))
    fs = [R] + ms
    if rnd.random() < 0.15:
        fs.append({"t": "none"})
    return {"t": "anyof", "fs": fs}, ms


def add_dispatch_classes(rnd, ctx, pools, n, ext, prefix):
    """n classes with one AnyOf[R, M..] field (required or optional, sometimes inside an Array / as a Map value), each with
    instances whose value comes from a later option M."""
    for i in range(n):
        avail = [c for c in ctx.class_names() if ctx.instances.get(c)]
        f, ms = gen_anyof_dispatch(rnd, avail if rnd.random() < 0.3 else (), ext)
        wrap = rnd.choice(["bare", "bare", "bare", "array", "map"])
        decl = {"bare": f, "array": {"t": "seqeach", "k": "list", "item": f, "sz": NOSZ, "uniq": False},
                "map": {"t": "mapkv", "kf": {"t": "str"}, "vf": f, "sz": NOSZ}}[wrap]
        c = {"name": "%s%d" % (prefix, i), "fields": [{"name": "a", "field": decl}, {"name": "b", "field": {"t": "str"}}],
             "required": rnd.choice([["a"], []]), "additional": rnd.choice([False, None]), "ignore_none": rnd.random() < 0.4}
        try:
            ctx.add(c)
        except Exception:  # noqa
            ctx.ns.pop(c["name"], None)
            continue
        insts = []
        for _ in range(5):
            v = G.gen_valid(rnd, rnd.choice(ms), ctx.instances)
            v = SG.inject_falsy(rnd, f, v, 0.2)
            fv = {"bare": v, "array": ("list", [v]), "map": ("dict", [(("str", "k"), v)])}[wrap]
            kw = [("a", fv)]
            try:
                x = ctx.classes[c["name"]](**{k: G.unreify(w, ctx.classes) for k, w in kw})
            except Exception:  # noqa
                continue
            insts.append((kw, x))
        if insts:
            pools[c["name"]] = insts


def gen_field_main(rnd, depth=0, classes=(), max_depth=2):
    return _gen_field(rnd, depth, classes, max_depth, False)


def gen_field_ext(rnd, depth=0, classes=(), max_depth=2):
    return _gen_field(rnd, depth, classes, max_depth, True)


def kinds_in(f, acc=None):
    return SG.field_kinds(f, acc)


# ------------------------------------------------------------------ aligned walk over (declaration, stored value)

def _is_seq(v):
    return isinstance(v, (list, collections.deque))


def walk(f, v, ctx, depth=0):
    """(declaration, stored Python value) for the position itself and every aligned position below it."""
    from typedpy import Structure
    yield f, v
    if v is None or depth > 8:
        return
    t = f["t"]
    if t == "seqeach" and _is_seq(v):
        for x in v:
            yield from walk(f["item"], x, ctx, depth + 1)
    elif t == "seqpos" and _is_seq(v):
        for g, x in zip(f["items"], v):
            yield from walk(g, x, ctx, depth + 1)
    elif t == "tuple" and isinstance(v, tuple):
        gs = f["items"] * len(v) if len(f["items"]) == 1 else f["items"]
        for g, x in zip(gs, v):
            yield from walk(g, x, ctx, depth + 1)
    elif t == "set" and f.get("item") and isinstance(v, (set, frozenset)):
        for x in v:
            yield from walk(f["item"], x, ctx, depth + 1)
    elif t == "mapkv" and isinstance(v, dict):
        for k, x in v.items():
            yield from walk(f["kf"], k, ctx, depth + 1)
            yield from walk(f["vf"], x, ctx, depth + 1)
    elif t == "anyof":
        for g in f["fs"]:
            if g["t"] != "none" and accepts(g, v, ctx):
                yield from walk(g, v, ctx, depth + 1)
    elif t == "ref" and isinstance(v, Structure):
        yield from walk_instance(v, ctx, depth + 1)


def walk_instance(x, ctx, depth=0):
    try:
        c = ctx.ast(type(x).__name__)
    except KeyError:
        return
    for fd in c["fields"]:
        if fd["name"] in x.__dict__:
            yield from walk(fd["field"], x.__dict__[fd["name"]], ctx, depth)


_T_CACHE = {}


def field_class(f, ctx, required=False):
    """class T(Structure): f = <declaration> in ctx's namespace (cached per context and declaration)."""
    key = (id(ctx), len(ctx.asts), repr(f), required)
    T = _T_CACHE.get(key)
    if T is None:
        ns = dict(ctx.ns)
        exec("class T(Structure):\n    f = %s\n    _required = %s\n" % (SG.field_src(f), "['f']" if required else "[]"), ns)
        T = ns["T"]
        if len(_T_CACHE) > 4000:
            _T_CACHE.clear()
        _T_CACHE[key] = T
    return T


def accepts(f, v, ctx):
    try:
        field_class(f, ctx)(f=v)
        return True
    except Exception:  # noqa
        return False


# ------------------------------------------------------------------ measured hypotheses

def loose_eq(a, b, ignore_dates=False):
    """Equality up to the documented loss: a Decimal equals another when their float images agree.
    ignore_dates: two date/time values of the same type count as equal."""
    from typedpy import Structure
    if ignore_dates and isinstance(a, (datetime.date, datetime.time)) and type(a) is type(b):
        return True
    _eq = loose_eq
    if ignore_dates:
        _eq = lambda p, q: loose_eq(p, q, True)
    if isinstance(a, decimal.Decimal) and isinstance(b, decimal.Decimal):
        try:
            return float(a) == float(b)
        except Exception:  # noqa
            return a == b
    if isinstance(a, Structure) or isinstance(b, Structure):
        if type(a) is not type(b):
            return False
        # as Structure.__eq__: an absent attribute equals None; declared fields are read through the descriptor
        fields = type(a).get_all_fields_by_name()
        for k in set(a.__dict__) | set(b.__dict__):
            if k in SG.S.INTERNAL:
                continue
            if k in fields:
                if not _eq(getattr(a, k), getattr(b, k)):
                    return False
            elif not _eq(a.__dict__.get(k), b.__dict__.get(k)):
                return False
        na, nb = a.__dict__.get("_none_fields"), b.__dict__.get("_none_fields")
        return not ((na or nb) and na != nb)
    if isinstance(a, dict) and isinstance(b, dict):
        if len(a) != len(b):
            return False
        for k, v in a.items():
            hit = [k2 for k2 in b if _eq(k, k2)]
            if not hit or not _eq(v, b[hit[0]]):
                return False
        return True
    if isinstance(a, (set, frozenset)) and isinstance(b, (set, frozenset)):
        return len(a) == len(b) and all(any(_eq(x, y) for y in b) for x in a)
    seq = (list, tuple, collections.deque)
    if isinstance(a, seq) and isinstance(b, seq):
        if isinstance(a, tuple) != isinstance(b, tuple) or isinstance(a, collections.deque) != isinstance(b, collections.deque):
            return False
        return len(a) == len(b) and all(_eq(x, y) for x, y in zip(a, b))
    try:
        return bool(a == b) and bool(b == a)
    except Exception:  # noqa
        return False


def doc_eq(a, b):
    """Equality of two serialized documents, up to the order of a list (the JSON form of a set has no order of its own;
    the order of Arrays is compared on the instances)."""
    num = lambda v: isinstance(v, (int, float)) and not isinstance(v, bool)      # noqa: E731
    if num(a) and num(b):
        return a == b          # the statement's ==: 0 and 0.0 are the same JSON number (a Decimal comes back as a float)
    if type(a) is not type(b):
        return False
    if isinstance(a, dict):
        return a.keys() == b.keys() and all(doc_eq(a[k], b[k]) for k in a)
    if isinstance(a, list):
        if len(a) != len(b):
            return False
        if all(doc_eq(x, y) for x, y in zip(a, b)):
            return True
        rest = list(b)
        for x in a:
            for i, y in enumerate(rest):
                if doc_eq(x, y):
                    del rest[i]
                    break
            else:
                return False
        return True
    return a == b


def pure_json(j):
    """The first clause of C05 on the real output: built from dict/list/str/int/float/bool/None only (subclasses as
    json.dumps and the reifier see them: typedpy's list/dict wrappers are lists/dicts; enum members, deques, sets,
    tuples, Decimals, dates, Structures are not), floats finite, keys scalars."""
    import math
    if j is None or isinstance(j, bool):
        return True
    if isinstance(j, enum.Enum) and not isinstance(j, (str, int, float)):
        return False        # a member of a plain enum; a member of a mix-in enum IS a str/int/float (json.dumps renders it so)
    if isinstance(j, (str, int)):
        return True
    if isinstance(j, float):
        return math.isfinite(j)
    if isinstance(j, list):
        return all(pure_json(x) for x in j)
    if isinstance(j, dict):
        return all((k is None or isinstance(k, (str, int, float, bool))) and pure_json(x)
                   for k, x in j.items())
    return False


def json_kind(j):
    if j is None:
        return "null"
    if isinstance(j, (bool, int, float)):
        return "number"        # Python == (and so dict lookup, Enum literals, by-value enums) does not separate False from 0
    return {str: "string", list: "array", dict: "object"}.get(type(j), "other")


def distinguishable(f, v, ctx, rejections=None):
    """The AnyOf hypothesis of the property, measured on this value.  j = the serialized value.  The options are NOT
    distinguishable on it when some option CLAIMS j as the document of a different value w: that option's own
    deserializer reads j as w, w is accepted by that option, and w serializes to a document of the same JSON kind as j
    (Set and Array options both claim an array; a String option claims the name of an enum member).  An option that
    merely mis-reads j is no witness: NoneField reading [] as None (None serializes to null/absent, not to an array), a
    Set(maxItems=2) reading a longer list (it does not accept the result).  None: could not be measured.
    rejections (a list, optional) receives the exception class of every option that rejected the document before the
    first one that read it."""
    from typedpy import Serializer, deserialize_single_field
    try:
        T = field_class(f, ctx)
        x = T(f=v)
        j = Serializer(x).serialize().get("f")
        stored = x.__dict__.get("f")
    except Exception:  # noqa
        return None
    if stored is None:
        return True
    read = False
    for g in f["fs"]:
        try:
            Tg = field_class(g, ctx)
            got = deserialize_single_field(getattr(Tg, "f"), j, "f")
        except Exception as ex:  # noqa
            if rejections is not None and not read:
                rejections.append(type(ex).__name__)
            continue
        read = True
        try:
            xg = Tg(f=got)
            w = xg.__dict__.get("f")
        except Exception:  # noqa     the option does not accept what it read: no claim
            continue
        try:
            witness = json_kind(Serializer(xg).serialize().get("f")) == json_kind(j)
        except Exception:  # noqa     it accepts the value but cannot serialize it (F22...): the kinds cannot be compared; a claim
            witness = True
        if witness and not loose_eq(w, stored):
            return False
    return True


def serializing_option(f, stored, ctx):
    """The option of AnyOf declaration f that serialization uses for this stored value: the first one whose _validate
    (where the field class has one) and serializer do not raise -- what serialize_multifield_wrapper does."""
    from typedpy import serialize_field
    for g in f["fs"]:
        try:
            fld = getattr(field_class(g, ctx), "f")
            if getattr(fld, "_validate", None):
                fld._validate(stored)
            serialize_field(fld, stored)
            return g
        except Exception:  # noqa
            continue
    return None


def deserializing_option(f, doc, ctx):
    """(option, value) of the first option of AnyOf declaration f whose own deserializer reads the document -- the one
    deserialize_multifield_wrapper commits to -- or None."""
    from typedpy import deserialize_single_field
    for g in f["fs"]:
        try:
            return g, deserialize_single_field(getattr(field_class(g, ctx), "f"), doc, "f")
        except Exception:  # noqa
            continue
    return None


def ambiguous_anyof(x, ctx):
    """An AnyOf position of instance x whose value does not distinguish the options (or None)."""
    for f, v in walk_instance(x, ctx):
        if f["t"] == "anyof" and v is not None:
            if distinguishable(f, v, ctx) is False:
                return f, v
    return None


def differs_only_in_dates(x, cls, compact):
    """deserialize(serialize(x)) equals x once date/time values are disregarded (so the date format explains the difference)."""
    from typedpy import Serializer, Deserializer
    from typedpy.structures import TypedPyDefaults
    old = TypedPyDefaults.compact_deserialization_default
    try:
        TypedPyDefaults.compact_deserialization_default = bool(compact)
        y = Deserializer(cls).deserialize(Serializer(x).serialize(compact=compact))
    except Exception:  # noqa
        return False
    finally:
        TypedPyDefaults.compact_deserialization_default = old
    return loose_eq(y, x, ignore_dates=True)


def stored_state_valid(v, depth=0):
    """C05 speaks of VALID instances.  The constructor checks collection constraints (uniqueItems, minItems/maxItems of
    Set/Map) on the SUPPLIED elements, before they are converted one by one (root cause "normalised collision":
    C01-/C02-normalised-collision, C03-F20): [SwapN.C, 'A', SwapN.A] passes uniqueItems and is stored as
    [SwapN.C, SwapN.A, SwapN.A], which the declaration itself rejects.  Such a stored state is not a valid instance.
    True iff every Structure reachable from v (at any depth, v included) is accepted again by its own class when
    rebuilt from its stored state, and equals the result."""
    from typedpy import Structure
    if depth > 14 or v is None:
        return True
    if isinstance(v, Structure):
        state = {k: a for k, a in v.__dict__.items() if k not in SG.S.INTERNAL}
        try:
            if type(v)(**state) != v:
                return False
        except Exception:  # noqa
            return False
        return all(stored_state_valid(a, depth + 1) for a in state.values())
    if isinstance(v, dict):
        return all(stored_state_valid(k, depth + 1) and stored_state_valid(a, depth + 1) for k, a in v.items())
    if isinstance(v, (list, tuple, set, frozenset, collections.deque)):
        return all(stored_state_valid(a, depth + 1) for a in v)
    return True


def extra_names(v, depth=0, out=None):
    """Names of the additional properties (attributes that are not declared fields) of every Structure reachable from v."""
    from typedpy import Structure
    out = out if out is not None else []
    if depth > 12 or v is None:
        return out
    if isinstance(v, Structure):
        fields = type(v).get_all_fields_by_name()
        for k, a in v.__dict__.items():
            if k in SG.S.INTERNAL:
                continue
            if k not in fields:
                out.append(k)
            extra_names(a, depth + 1, out)
    elif isinstance(v, dict):
        for a in v.values():
            extra_names(a, depth + 1, out)
    elif isinstance(v, (list, tuple, set, frozenset, collections.deque)):
        for a in v:
            extra_names(a, depth + 1, out)
    return out


def has_extras(v):
    return bool(extra_names(v))


def name_class(n):
    if n.startswith("__"):
        return "dunder-like"
    if n.startswith("_"):
        return "single-underscore"
    if not n.isascii():
        return "non-ascii"
    if n != n.lower():
        return "camel/mixed-case"
    return "plain"


def compact_wrapper(cls):
    """A class whose compact form is the bare field: one field, required, additional properties forbidden."""
    from typedpy.structures import TypedPyDefaults
    fields = list(cls.get_all_fields_by_name().keys())
    return (len(fields) == 1 and cls.__dict__.get("_required", fields) == fields and
            cls.__dict__.get("_additional_properties", TypedPyDefaults.additional_properties_default) is False)


def required_none_fields(v, depth=0, out=None):
    """[(class name, field name)]: every Structure reachable from v (v included) that has a REQUIRED field whose
    stored value is None -- whatever the declaration that admits None (NoneField, AnyOf[..., None], Anything, ...)."""
    from typedpy import Structure
    out = out if out is not None else []
    if depth > 12 or v is None:
        return out
    if isinstance(v, Structure):
        cls = type(v)
        fields = list(cls.get_all_fields_by_name().keys())
        for name in getattr(cls, "_required", fields) or []:
            if name in fields and v.__dict__.get(name) is None:
                out.append((cls.__name__, name))
        for k, a in v.__dict__.items():
            if k not in SG.S.INTERNAL:
                required_none_fields(a, depth + 1, out)
    elif isinstance(v, dict):
        for k, a in v.items():
            required_none_fields(k, depth + 1, out)
            required_none_fields(a, depth + 1, out)
    elif isinstance(v, (list, tuple, set, frozenset, collections.deque)):
        for a in v:
            required_none_fields(a, depth + 1, out)
    return out


def date_leaves(x, ctx):
    """[(kind, custom, value, RT)] for the date/time values stored in x."""
    out = []
    for f, v in walk_instance(x, ctx):
        if f["t"] == "date" and isinstance(v, (datetime.date, datetime.time)):
            fmt = DATE_FMT[(f["k"], bool(f.get("custom")))][1]
            out.append((f["k"], bool(f.get("custom")), v, rt_format(f["k"], fmt, v)))
    return out


# ------------------------------------------------------------------ the deterministic lattice

def _enum_decl(cname, members=None):
    return {"t": "enumcls", "cls": cname, "members": members or [m.name for m in G.ENUMS[cname]]}


def lattice_leaves(ext):
    """[(declaration, [values (reified)], hashable)]: every falsy value and every member, plus one ordinary value."""
    I = lambda z: ("int", z)
    out = []
    if not ext:
        out += [
            ({"t": "num", "k": "Integer", "s": "Any"}, [I(0), I(7)]),
            ({"t": "num", "k": "Integer", "s": "NonNegative"}, [I(0)]),
            ({"t": "num", "k": "Float", "s": "Any"}, [("flt", 0, 0), E.reify(2.5)]),
            ({"t": "num", "k": "Number", "s": "Any"}, [I(0), ("flt", 0, 0), E.reify(-1.5)]),
            ({"t": "str"}, [("str", ""), ("str", "abc")]),
            ({"t": "str", "min": 0, "max": 3}, [("str", "")]),
            ({"t": "bool"}, [("bool", False), ("bool", True)]),
            ({"t": "enumlit", "values": [I(0), ("str", ""), ("str", "a"), I(1)]}, [I(0), ("str", ""), ("str", "a")]),
            ({"t": "enumlit", "values": [("bool", False), ("flt", 5, -1)]}, [("bool", False), ("flt", 5, -1)]),
        ]
        for cname in ENUM_NAMES:
            cls = G.ENUMS[cname]
            out.append((_enum_decl(cname), [E.reify(m) for m in cls]))
        out.append((_enum_decl("PrioV", ["NONE", "HIGH"]), [E.reify(PrioV.NONE), E.reify(PrioV.HIGH)]))
        out.append((_enum_decl("SwapV", ["A", "C"]), [E.reify(SwapV.A)]))
    else:
        out += [
            ({"t": "str"}, [("str", ""), ("str", "n/a"), ("str", "12.5")]),
            ({"t": "num", "k": "Integer", "s": "Any"}, [I(0), I(7)]),
            ({"t": "bool"}, [("bool", False)]),
            ({"t": "decimal"}, [("dec", 0, 0), E.reify(decimal.Decimal("12.5")), E.reify(decimal.Decimal("0.1"))]),
        ]
        for cname in MIXIN_NAMES:
            cls = G.ENUMS[cname]
            # a member of a str mix-in cannot be passed as an object (C08-str-mixin-enum-deser): it is given by name
            out.append((_enum_decl(cname), [("str", m.name) if cname in STR_MIXIN else E.reify(m) for m in cls]))
        out.append((_enum_decl("LevelIV", ["OFF", "HIGH"]), [E.reify(LevelIV.OFF)]))
        out += [
            ({"t": "date", "k": "date", "custom": False}, [("other", "date", "2020-01-31"), ("other", "date", "1999-12-01")]),
            ({"t": "date", "k": "date", "custom": True}, [("other", "date", "2001-02-03")]),
            ({"t": "date", "k": "datetime", "custom": True}, [("other", "datetime", "2020-01-31T00:00:00"),
                                                                ("other", "datetime", "1950-06-07T08:09:10.000123")]),
            ({"t": "date", "k": "datetime", "custom": False}, [("other", "datetime", "2020-01-31T07:15:45")]),
            ({"t": "date", "k": "time", "custom": True}, [("other", "time", "00:00:00"), ("other", "time", "23:59:58.000001")]),
            ({"t": "date", "k": "time", "custom": False}, [("other", "time", "00:00:00")]),
        ]
    return out


OTHER_KIND = {"t": "seqeach", "k": "list", "item": {"t": "bool"}, "sz": [None, None], "uniq": False}


def lattice_positions(L, v, ext=False):
    """[(label, field declaration, value)] — leaf L holding v at every wrapper position."""
    S = {"t": "str"}
    out = [
        ("bare", L, v),
        ("array", {"t": "seqeach", "k": "list", "item": L, "sz": NOSZ, "uniq": False}, ("list", [v])),
        ("array2", {"t": "seqeach", "k": "list", "item": L, "sz": NOSZ, "uniq": False}, ("list", [v, v])),
        ("deque", {"t": "seqeach", "k": "deque", "item": L, "sz": NOSZ, "uniq": False}, ("deque", [v])),
        ("array-of-array", {"t": "seqeach", "k": "list", "item": {"t": "seqeach", "k": "list", "item": L, "sz": NOSZ, "uniq": False},
                            "sz": NOSZ, "uniq": False}, ("list", [("list", [v]), ("list", [])])),
        ("positional", {"t": "seqpos", "k": "list", "items": [L, S], "sz": NOSZ, "uniq": False, "additional": False},
         ("list", [v, ("str", "")])),
        ("set", {"t": "set", "imm": False, "item": L, "sz": NOSZ}, ("set", False, [v])),
        ("frozenset", {"t": "set", "imm": True, "item": L, "sz": NOSZ}, ("set", True, [v])),
        ("tuple2", {"t": "tuple", "items": [L, S], "uniq": False}, ("tuple", [v, ("str", "")])),
        ("tuple1", {"t": "tuple", "items": [L], "uniq": False}, ("tuple", [v])),
        ("map-value", {"t": "mapkv", "kf": S, "vf": L, "sz": NOSZ}, ("dict", [(("str", ""), v), (("str", "k"), v)])),
        ("map-key", {"t": "mapkv", "kf": L, "vf": S, "sz": NOSZ}, ("dict", [(v, ("str", ""))])),
        ("optional", {"t": "anyof", "fs": [L, {"t": "none"}]}, v),
        ("optional-rev", {"t": "anyof", "fs": [{"t": "none"}, L]}, v),
        ("anyof-first", {"t": "anyof", "fs": [L, OTHER_KIND]}, v),
        ("anyof-last", {"t": "anyof", "fs": [OTHER_KIND, L]}, v),
        ("anyof-in-array", {"t": "seqeach", "k": "list", "item": {"t": "anyof", "fs": [OTHER_KIND, L]}, "sz": NOSZ, "uniq": False},
         ("list", [v, ("list", [("bool", False)])])),
    ]
    # the leaf (and an Array of it, whose documents are lists) behind every kind of rejecting option
    AL = {"t": "seqeach", "k": "list", "item": L, "sz": NOSZ, "uniq": False}
    seen = set()
    for ri, R in enumerate(rejecters(ext)):
        if repr(R) in seen or R == L:
            continue
        seen.add(repr(R))
        out.append(("anyof-after:%s" % G.shape(R), {"t": "anyof", "fs": [R, L]}, v))
        out.append(("anyof-array-after:%s" % G.shape(R), {"t": "anyof", "fs": [R, AL]}, ("list", [v])))
    return out


def build_lattice(ext, prefix):
    """-> [(ctx, cases)], one class environment per leaf declaration; cases are dicts {ast, kw, x, compact, label}.
    Class shapes per position: required field, optional field (+ _ignore_none), nested structure (required / optional
    inner field), compact wrapper."""
    worlds = []
    for li, (L, values) in enumerate(lattice_leaves(ext)):
        worlds.append(_lattice_world(L, values, "%s%d_" % (prefix, li), ext))
    return worlds


def _lattice_world(L, values, prefix, ext=False):
    ctx = XContext([])
    cases = []
    n = [0]

    def new_class(fields, required=None, additional=None, ignore_none=False):
        name = "%s%d" % (prefix, n[0])
        n[0] += 1
        c = {"name": name, "fields": [{"name": k, "field": f} for k, f in fields]}
        if required is not None:
            c["required"] = list(required)
        c["additional"] = additional
        if ignore_none:
            c["ignore_none"] = True
        try:
            ctx.add(c)
        except Exception:  # noqa    declaration rejected by typedpy (e.g. unhashable set items)
            ctx.ns.pop(name, None)
            n[0] -= 1
            return None
        return c

    def add_case(c, kw, label, compact=False):
        try:
            x = ctx.classes[c["name"]](**{k: G.unreify(v, ctx.classes) for k, v in kw})
        except Exception:  # noqa    not a valid instance (e.g. unhashable member of a set): not a case
            return None
        cases.append({"ast": c, "kw": kw, "x": x, "compact": compact, "label": label})
        return x

    if True:
        for pi, (label, f, _) in enumerate(lattice_positions(L, values[0], ext)):
            c_req = new_class([("f", f), ("g", {"t": "str"})], required=["f"], additional=False)
            c_opt = c_wrap = None
            if not label.startswith("anyof-a"):       # the positions behind a rejecting option: one class shape
                c_opt = new_class([("f", f), ("g", {"t": "str"})], required=[], additional=None, ignore_none=True)
                c_wrap = new_class([("f", f)], required=["f"], additional=False)
            c_outer = c_outer_opt = None
            if c_req is not None and c_opt is not None and label in ("bare", "array", "optional", "map-value"):
                c_outer = new_class([("n", {"t": "ref", "cls": c_req["name"]}), ("m", {"t": "num", "k": "Integer", "s": "Any"})],
                                    required=["n"], additional=False)
                c_outer_opt = new_class([("n", {"t": "ref", "cls": c_opt["name"]}),
                                         ("ns", {"t": "seqeach", "k": "list", "item": {"t": "ref", "cls": c_opt["name"]},
                                                 "sz": NOSZ, "uniq": False})], required=[], additional=False)
            for v in values:
                fv = lattice_positions(L, v, ext)[pi][2]
                tag = "%s/%s" % (label, G.shape(L))
                if c_req is not None:
                    add_case(c_req, [("f", fv)], tag + "/required")
                    if label == "bare":
                        add_case(c_req, [("f", fv), ("g", ("str", ""))], tag + "/required+falsy-sibling")
                if c_opt is not None:
                    add_case(c_opt, [("f", fv)], tag + "/optional")
                    add_case(c_opt, [("g", ("str", "x"))], tag + "/absent")
                    add_case(c_opt, [("f", ("none",)), ("g", ("str", ""))], tag + "/explicit-None")
                if c_wrap is not None:
                    add_case(c_wrap, [("f", fv)], tag + "/wrapper-compact", compact=True)
                if c_outer is not None:
                    inner = add_case(c_req, [("f", fv)], tag + "/inner")
                    if inner is not None:
                        ri = SG.reify_o(inner)
                        add_case(c_outer, [("n", ri), ("m", ("int", 0))], tag + "/nested")
                        inner_o = ctx.classes[c_opt["name"]]
                        try:
                            ro = SG.reify_o(inner_o(**{"f": G.unreify(fv, ctx.classes)}))
                            re_ = SG.reify_o(inner_o())
                            add_case(c_outer_opt, [("n", ro), ("ns", ("list", [ro, re_]))], tag + "/nested-optional")
                            add_case(c_outer_opt, [("n", re_)], tag + "/nested-empty")
                        except Exception:  # noqa
                            pass
    # duplicates (the same (class, kwargs, compact)) are dropped
    seen = set()
    uniq = []
    for k in cases:
        key = (k["ast"]["name"], repr(k["kw"]), k["compact"])
        if key not in seen:
            seen.add(key)
            uniq.append(k)
    return ctx, uniq
