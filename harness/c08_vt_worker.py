"""Runs under `python3-vt` (the only interpreter with jsonschema; typedpy is NOT importable here).
stdin: JSON {"jobs": [{"doc": <schema with definitions>, "instances": [<json>, ...]}, ...]}
stdout: JSON {"results": [{"schema_error": null|{...}, "refs_missing": [...], "verdicts": [...],
                           "errors": [null|{...}], "crash": null|str}, ...]}
Independent oracle of property C08: jsonschema.Draft4Validator (check_schema, $ref resolution, is_valid)."""
import json
import sys

import jsonschema
from jsonschema import Draft4Validator

KEYWORDS = {"type", "properties", "required", "additionalProperties", "patternProperties", "items",
            "additionalItems", "uniqueItems", "minItems", "maxItems", "minLength", "maxLength", "pattern",
            "minimum", "maximum", "exclusiveMaximum", "exclusiveMinimum", "multipleOf", "enum", "allOf",
            "anyOf", "oneOf", "not", "$ref", "default", "definitions", "dependencies"}


def refs_in(s, acc):
    if isinstance(s, dict):
        for k, v in s.items():
            if k == "$ref" and isinstance(v, str):
                acc.append(v)
            elif k in ("enum", "default"):
                continue
            else:
                refs_in(v, acc)
    elif isinstance(s, list):
        for x in s:
            refs_in(x, acc)
    return acc


def schema_error(doc):
    try:
        Draft4Validator.check_schema(doc)
        return None
    except jsonschema.SchemaError as e:
        path = [str(p) for p in e.absolute_path]
        kw = None
        for p in reversed(path):
            if p in KEYWORDS:
                kw = p
                break
        if e.validator == "dependencies":
            kw = "exclusiveMaximum" if "exclusiveMaximum" in e.message else (kw or "dependencies")
        return {"message": e.message[:200], "path": path, "validator": str(e.validator), "keyword": kw or "?"}


def first_error(v, inst):
    errs = sorted(v.iter_errors(inst), key=lambda e: (len(e.absolute_path), str(list(e.absolute_schema_path))))
    if not errs:
        return None
    e = errs[0]
    # descend to the most specific cause for anyOf/oneOf/allOf
    while e.context and e.validator in ("allOf",):
        e = sorted(e.context, key=lambda x: len(x.absolute_path))[0]
    val = e.validator_value
    try:
        json.dumps(val)
    except Exception:  # noqa
        val = str(val)
    return {"validator": str(e.validator), "value": val, "schema_path": [str(p) for p in e.absolute_schema_path],
            "instance_path": [str(p) for p in e.absolute_path], "message": e.message[:200],
            "instance": e.instance if isinstance(e.instance, (int, float, str, bool, type(None))) else type(e.instance).__name__}


def run(job):
    doc = job["doc"]
    out = {"schema_error": None, "refs_missing": [], "verdicts": [], "errors": [], "crash": None}
    try:
        out["schema_error"] = schema_error(doc)
        defs = doc.get("definitions", {}) if isinstance(doc, dict) else {}
        for r in refs_in(doc, []):
            if not (r.startswith("#/definitions/") and r[len("#/definitions/"):] in defs):
                out["refs_missing"].append(r)
    except Exception as ex:  # noqa
        out["crash"] = "check: %s: %s" % (type(ex).__name__, str(ex)[:200])
    for inst in job.get("instances", []):
        try:
            v = Draft4Validator(doc)
            ok = v.is_valid(inst)
            out["verdicts"].append(bool(ok))
            out["errors"].append(None if ok else first_error(v, inst))
        except Exception as ex:  # noqa
            out["verdicts"].append(None)
            out["errors"].append({"validator": "crash", "message": "%s: %s" % (type(ex).__name__, str(ex)[:200]),
                                  "value": None, "schema_path": [], "instance_path": [], "instance": None})
    return out


def main():
    data = json.load(sys.stdin)
    json.dump({"results": [run(j) for j in data["jobs"]]}, sys.stdout)


if __name__ == "__main__":
    main()
