"""C17, second sentence of the statement, decided on the implementation:

   "Deserializing a Versioned class from a document at any older version equals deserializing it
    from the converted latest-version document, and a newly constructed instance always carries
    the latest version."

The class is NOT fixed to "every key of the latest document is an Anything field": the declared
fields are a subset of the latest document's keys (plus, sometimes, a key that only the OLD
document has, or one that no document has), typed or untyped, with every value of
`_additional_properties`, so that the document also carries keys that are not fields.  Every
entry point that reaches deserialize_structure_internal for a Versioned class is exercised
(Deserializer.deserialize, deserialize_structure, the class as a nested field, as the item of an
Array, as the value of a Map) under every combination of the options keep_undefined /
direct_trusted_mapping / camel_case_convert.  For each combination the result obtained from the
old document must equal the result obtained from convert_dict(old) -- same outcome kind, same
exception class, equal instances, equal public attribute state (so a key the history deleted or
moved must not reappear as an extra attribute) -- and the inputs (document, mapping objects) must
be left intact."""
import copy
import itertools

EPS = ("Deserializer", "deserialize_structure", "field", "array", "map", "subclass", "optional", "set", "tuple")
KEEP = (None, True, False)
TRUSTED = (False, True)
CAMEL = (False, True)
# every entry point x keep_undefined x direct_trusted_mapping; camel_case_convert on the three main entry points
ALL_COMBOS = [(ep, ku, tr, False) for ep in EPS for ku in KEEP for tr in TRUSTED] + \
             [(ep, ku, tr, True) for ep in EPS[:3] for ku in KEEP for tr in TRUSTED]


def _base():
    from harness.props import c17
    return c17


def ident(k):
    return isinstance(k, str) and k.isidentifier() and not k.startswith("_")


# ------------------------------------------------------------------ class specifications

def gen_spec(rnd, doc, latest):
    """A class specification (JSON-able) for the Versioned class under test."""
    latest_keys = [k for k in latest if k != "version" and ident(k)]
    old_only = [k for k in doc if k != "version" and k not in latest and ident(k)]
    r = rnd.random()
    if r < 0.12:
        # every declared field a typed scalar: the class is eligible for direct_trusted_mapping
        scal = [k for k in latest_keys if type(latest[k]) in (bool, int, float, str)]
        chosen = [k for k in scal if rnd.random() < 0.7]
        return {"fields": [[k, typed_kind(latest[k], rnd)] for k in chosen],
                "additional": rnd.choice([None, None, True, False]),
                "required": [k for k in chosen if rnd.random() < 0.4], "immutable": False}
    if r < 0.24:
        chosen = list(latest_keys)
    elif r < 0.30:
        chosen = []
    else:
        chosen = [k for k in latest_keys if rnd.random() < 0.55]
    if old_only and rnd.random() < 0.3:
        chosen.append(rnd.choice(old_only))
    if rnd.random() < 0.12:
        chosen.append("zz_absent")
    fields = []
    for k in chosen:
        kind = "any"
        if k in latest and rnd.random() < 0.35:
            kind = typed_kind(latest[k], rnd)
        fields.append([k, kind])
    required = [k for k, _ in fields if k in latest and latest[k] is not None and rnd.random() < 0.4]
    spec = {"fields": fields, "additional": rnd.choice([None, None, True, False]), "required": required,
            "immutable": rnd.random() < 0.12}
    if rnd.random() < 0.15:
        # non-default global setting: non-field keys are handed to the constructor even when the class forbids them
        spec["defaults"] = {"ignore_invalid_additional_properties_in_deserialization": False}
    return spec


def typed_kind(v, rnd):
    if isinstance(v, bool):
        return "Boolean"
    if isinstance(v, int):
        return "Integer"
    if isinstance(v, float):
        return "Float"
    if isinstance(v, str):
        return "String"
    if isinstance(v, list):
        if v and all(isinstance(x, dict) and all(ident(k) for k in x) for x in v) and rnd.random() < 0.6:
            return ["ArrayOfStruct", sorted({k for x in v for k in x})]
        return "Array"
    if isinstance(v, dict):
        if all(ident(k) for k in v) and rnd.random() < 0.6:
            return ["Struct", sorted(v)]
        return "Map"
    return "any"


LATTICE_COMBOS = [(ep, ku, tr, False) for ep in ("Deserializer", "deserialize_structure", "field", "subclass")
                  for ku in KEEP for tr in TRUSTED] + [("Deserializer", ku, False, True) for ku in KEEP]


def lattice_specs(doc, latest):
    """Deterministic class shapes for a (document, history) pair: no key of the latest document is a field /
    every key is / only the first one is, with _additional_properties unset and False."""
    latest_keys = [k for k in latest if k != "version" and ident(k)]
    shapes = [[], list(latest_keys), latest_keys[:1]]
    out = []
    for sh in shapes:
        for add in (None, False):
            out.append({"fields": [[k, "any"] for k in sh], "additional": add, "required": [], "immutable": False})
    scal = [k for k in latest_keys if type(latest[k]) in (bool, int, float, str)]
    out.append({"fields": [[k, typed_kind(latest[k], None)] for k in scal[:2]], "additional": None, "required": [],
                "immutable": False})                       # eligible for direct_trusted_mapping
    out.append({"fields": [[k, "any"] for k in latest_keys], "additional": False, "required": [], "immutable": False,
                "defaults": {"ignore_invalid_additional_properties_in_deserialization": False}})
    return out


def build_classes(spec, maps):
    """-> dict of entry-point name -> class (V itself for the top-level entry points)."""
    from typedpy import (Versioned, Structure, ImmutableStructure, Anything, Array, Map, String, Integer, Float,
                         Boolean, AnyOf, NoneField, Set, Tuple)
    ns = {"Versioned": Versioned, "Structure": Structure, "ImmutableStructure": ImmutableStructure,
          "Anything": Anything, "Array": Array, "Map": Map, "String": String, "Integer": Integer, "Float": Float,
          "Boolean": Boolean, "AnyOf": AnyOf, "NoneField": NoneField, "Set": Set, "Tuple": Tuple, "maps": maps}
    src = ""
    nested = 0
    decls = []
    for k, kind in spec["fields"]:
        if isinstance(kind, list):
            nested += 1
            nm = "N%d" % nested
            src += f"class {nm}(Structure):\n    _required = []\n"
            for f in kind[1]:
                src += f"    {f} = Anything\n"
            if not kind[1]:
                src += "    pass\n"
            decls.append((k, nm if kind[0] == "Struct" else f"Array[{nm}]"))
        elif kind == "any":
            decls.append((k, "Anything"))
        else:
            decls.append((k, kind))
    bases = "Versioned, ImmutableStructure" if spec.get("immutable") else "Versioned"
    src += f"class V({bases}):\n    _versions_mapping = maps\n    _required = {spec['required']!r}\n"
    if spec["additional"] is not None:
        src += f"    _additional_properties = {spec['additional']!r}\n"
    for k, d in decls:
        src += f"    {k} = {d}\n"
    src += ("class OuterF(Structure):\n    v = V\n    _required = []\n"
            "class OuterA(Structure):\n    vs = Array[V]\n    _required = []\n"
            "class OuterM(Structure):\n    vm = Map[String, V]\n    _required = []\n"
            "class OuterO(Structure):\n    vo = AnyOf[V, NoneField]\n    _required = []\n"
            "class OuterS(Structure):\n    vt = Set[V]\n    _required = []\n"
            "class OuterT(Structure):\n    vu = Tuple[V, V]\n    _required = []\n"
            )
    if spec.get("immutable"):          # an ImmutableStructure cannot be extended: the subclass IS the class
        src += "Sub = V\n"
    else:                              # inherits the history: the mapping is found only through the base
        src += f"class Sub(V):\n    zz_sub = Anything\n    _required = {spec['required']!r}\n"
    exec(src, ns)
    return {"V": ns["V"], "field": ns["OuterF"], "array": ns["OuterA"], "map": ns["OuterM"], "optional": ns["OuterO"],
            "set": ns["OuterS"], "tuple": ns["OuterT"], "subclass": ns["Sub"], "src": src}


# ------------------------------------------------------------------ running one combination

def canon(x, depth=0):
    """Public state of a result, recursively (declared fields AND extra attributes)."""
    from typedpy import Structure
    if depth > 30:
        return "<deep>"
    if isinstance(x, Structure):
        return ("S", type(x).__name__,
                tuple(sorted((k, canon(v, depth + 1)) for k, v in x.__dict__.items() if not k.startswith("_"))))
    if isinstance(x, dict):
        return ("D", tuple(sorted(((repr(k), canon(v, depth + 1)) for k, v in x.items()))))
    if isinstance(x, (list, tuple)):
        return ("L", tuple(canon(v, depth + 1) for v in x))
    if isinstance(x, (set, frozenset)):
        return ("T", tuple(sorted(repr(canon(v, depth + 1)) for v in x)))
    return (type(x).__name__, repr(x))


def wrap_doc(ep, doc):
    if ep == "field":
        return {"v": doc}
    if ep == "array":
        return {"vs": [doc, copy.deepcopy(doc)]}
    if ep == "map":
        return {"vm": {"k1": doc}}
    if ep == "optional":
        return {"vo": doc}
    if ep == "set":
        return {"vt": [doc]}
    if ep == "tuple":
        return {"vu": [doc, copy.deepcopy(doc)]}
    return doc


def unwrap(ep, inst):
    """The Versioned instance(s) inside a successful result."""
    if ep == "field":
        return [inst.v] if getattr(inst, "v", None) is not None else []
    if ep == "array":
        return list(inst.vs) if getattr(inst, "vs", None) is not None else []
    if ep == "map":
        return list(inst.vm.values()) if getattr(inst, "vm", None) is not None else []
    if ep == "optional":
        return [inst.vo] if getattr(inst, "vo", None) is not None else []
    if ep == "set":
        return list(inst.vt) if getattr(inst, "vt", None) is not None else []
    if ep == "tuple":
        return list(inst.vu) if getattr(inst, "vu", None) is not None else []
    return [inst]


def run_one(classes, combo, doc):
    """-> ("ok", instance) | ("raise", exception class name)"""
    from typedpy import Deserializer, deserialize_structure
    ep, ku, tr, cc = combo
    cls = classes["V"] if ep in ("Deserializer", "deserialize_structure") else classes[ep]
    if ep == "subclass":
        ep = "Deserializer"
    d = wrap_doc(ep, doc)
    try:
        if ep == "deserialize_structure":
            kw = {"direct_trusted_mapping": tr, "camel_case_convert": cc}
            if ku is not None:
                kw["keep_undefined"] = ku
            return ("ok", deserialize_structure(cls, d, **kw)), d
        des = Deserializer(cls, camel_case_convert=cc)
        return ("ok", des.deserialize(d, keep_undefined=ku, direct_trusted_mapping=tr)), d
    except Exception as e:  # noqa
        return ("raise", type(e).__name__), d


def _trusted(inst):
    try:
        return bool(inst.used_trusted_instantiation())
    except Exception:  # noqa
        return False


def combo_name(combo):
    ep, ku, tr, cc = combo
    return f"{ep}(keep_undefined={ku}, direct_trusted_mapping={tr}, camel_case_convert={cc})"


def diff_kind(ep, a, b, field_names):
    """Which part of the result differs: outcome / exception-class / version / fields / extras / eq-only."""
    if a[0] != b[0]:
        return "outcome"
    if a[0] == "raise":
        return "exception-class"
    ia, ib = unwrap(ep, a[1]), unwrap(ep, b[1])
    if len(ia) != len(ib):
        return "state"
    kinds = set()
    for x, y in zip(ia, ib):
        cx, cy = canon(x), canon(y)
        if cx == cy:
            continue
        dx, dy = dict(cx[2]), dict(cy[2])
        if dx.get("version") != dy.get("version"):
            kinds.add("version")
        elif any(dx.get(k) != dy.get(k) for k in field_names):
            kinds.add("fields")
        else:
            kinds.add("extras")
    for k in ("version", "fields", "extras"):
        if k in kinds:
            return k
    return "eq-only" if canon(a[1]) == canon(b[1]) else "state"


class _Defaults:
    """TypedPyDefaults overridden for the duration of one class specification's runs."""

    def __init__(self, overrides):
        self.overrides = overrides or {}

    def __enter__(self):
        from typedpy.structures import TypedPyDefaults
        self.saved = {k: getattr(TypedPyDefaults, k) for k in self.overrides}
        for k, v in self.overrides.items():
            setattr(TypedPyDefaults, k, v)

    def __exit__(self, *a):
        from typedpy.structures import TypedPyDefaults
        for k, v in self.saved.items():
            setattr(TypedPyDefaults, k, v)
        return False


def check(doc, maps_ast, spec, combos=None, stats=None):
    """Evaluate the deserialization clauses for one (document, history, class).
    -> (fails [(key, what, combo)], ran: bool)"""
    with _Defaults(spec.get("defaults")):
        return _check(doc, maps_ast, spec, combos, stats)


def _check(doc, maps_ast, spec, combos=None, stats=None):
    base = _base()
    from typedpy.serialization.versioned_mapping import convert_dict
    fails = []
    funcs = base.FUNCS()
    maps = [base.realize_mapping(m, funcs) for m in maps_ast]
    n = len(maps)
    v = doc.get("version")
    if not (base.keeps_version(maps_ast) and type(v) is int and 1 <= v <= n + 1):
        return fails, False
    try:
        latest = convert_dict(copy.deepcopy(doc), maps)
    except Exception:  # noqa
        return fails, False
    if not all(isinstance(k, str) for k in latest):
        return fails, False
    try:
        classes = build_classes(spec, maps)
    except Exception as e:  # noqa  (a class the library refuses to define: not a case)
        if stats is not None:
            stats("class-definition-raises:" + type(e).__name__)
        return fails, False
    snap_maps = [base.describe_mapping(m) for m in maps]
    field_names = [k for k, _ in spec["fields"]]
    seen = set()
    for combo in (combos or ALL_COMBOS):
        ep = combo[0]
        a, da = run_one(classes, combo, copy.deepcopy(doc))
        b, _ = run_one(classes, combo, copy.deepcopy(latest))
        if stats is not None:
            stats("outcome:" + (a[0] if a[0] == "ok" else "raise:" + a[1]))
            if combo[2] and a[0] == "ok" and any(_trusted(i) for i in unwrap(ep, a[1])):
                stats("trusted-path-taken")
        if da != wrap_doc(ep, doc) or repr(da) != repr(wrap_doc(ep, doc)):
            key = f"deser-input-modified/{ep}"
            if key not in seen:
                seen.add(key)
                fails.append((key, f"{combo_name(combo)} modified its input document: {doc!r} -> {da!r}", combo))
        same = (a[0] == b[0]) and (a[1] == b[1] if a[0] == "raise"
                                   else (a[1] == b[1] and canon(a[1]) == canon(b[1])))
        if not same:
            kind = diff_kind(ep, a, b, field_names)
            key = f"deser-differs/{ep}/{kind}"
            if key not in seen:
                seen.add(key)
                sa = a[1] if a[0] == "raise" else canon(a[1])
                sb = b[1] if b[0] == "raise" else canon(b[1])
                fails.append((key, f"{combo_name(combo)}: the version-{v} document gives {sa!r} but its "
                                   f"latest-version conversion gives {sb!r}", combo))
        if a[0] == "ok":
            for inst in unwrap(ep, a[1]):
                ver = getattr(inst, "version", None)
                if ver != n + 1:
                    key = f"deser-version/{ep}"
                    if key not in seen:
                        seen.add(key)
                        fails.append((key, f"{combo_name(combo)}: deserialized instance has version {ver!r}, "
                                           f"latest is {n + 1}", combo))
    if [base.describe_mapping(m) for m in maps] != snap_maps:
        fails.append(("deser-mapping-modified", "deserialization modified a mapping object of the class", None))
    # ---- a newly constructed instance always carries the latest version, whatever the entry point
    V = classes["V"]
    kw = {k: latest[k] for k, kind in spec["fields"] if k in latest and latest[k] is not None and kind == "any"}
    if all(k in kw for k in spec["required"]):
        fails += new_instance_check(V, kw, n)
    return fails, True


def new_instance_check(V, kw, n):
    fails = []

    class Src:                                   # a plain object carrying the attributes (and a stale version)
        pass
    src = Src()
    for k, val in kw.items():
        setattr(src, k, copy.deepcopy(val))
    src.version = 1
    routes = [
        ("constructor", lambda: V(**copy.deepcopy(kw))),
        ("constructor(version=1)", lambda: V(version=1, **copy.deepcopy(kw))),
        ("constructor(version=latest+1)", lambda: V(version=n + 2, **copy.deepcopy(kw))),
        ("from_trusted_data(kw)", lambda: V.from_trusted_data(None, **copy.deepcopy(kw))),
        ("from_trusted_data(mapping)", lambda: V.from_trusted_data(dict(copy.deepcopy(kw), version=1))),
        ("from_other_class", lambda: V.from_other_class(src)),
        ("shallow_clone_with_overrides(version=1)",
         lambda: V(**copy.deepcopy(kw)).shallow_clone_with_overrides(version=1)),
        ("copy.deepcopy", lambda: copy.deepcopy(V(**copy.deepcopy(kw)))),
    ]
    for name, mk in routes:
        try:
            x = mk()
        except Exception as e:  # noqa
            if name.startswith("constructor") and "version=latest" not in name:
                fails.append((f"new-instance-raises/{name}", f"{name} of a latest-version instance raised "
                                                             f"{type(e).__name__}: {e}", None))
            continue
        if getattr(x, "version", None) != n + 1:
            fails.append((f"new-instance-version/{name}",
                          f"instance built by {name} has version {getattr(x, 'version', None)!r}, latest is {n + 1}",
                          None))
    return fails
