"""Generated layer for C19: effect facts of the copy / alias SITES of typedpy, recognised structurally on
the AST of /repo's working tree and written to coq/theories/Gen/AliasSites.v on every run.

Each fact is one of the effect kinds of Struct/Alias.v (`Copies | DeepCopies | RetainsArg | ReturnsInternal |
WritesArg | UnknownEff`).  Fails closed: whatever is not recognised becomes `UnknownEff`, which no safety
predicate of the model accepts."""
import ast
import os

from harness import core

MUTATORS = {"remove", "append", "pop", "extend", "insert", "clear", "sort", "reverse", "update", "setdefault",
            "popitem", "add", "discard", "__setitem__", "__delitem__"}


def _parse(rel):
    return ast.parse(open(os.path.join(core.REPO, "typedpy", rel)).read())


def _func(tree, name, cls=None):
    scope = tree
    if cls is not None:
        scope = next((n for n in ast.walk(tree) if isinstance(n, ast.ClassDef) and n.name == cls), None)
        if scope is None:
            return None
        return next((n for n in scope.body if isinstance(n, ast.FunctionDef) and n.name == name), None)
    return next((n for n in ast.walk(scope) if isinstance(n, ast.FunctionDef) and n.name == name), None)


def _mentions(expr, name):
    return any(isinstance(n, ast.Name) and n.id == name for n in ast.walk(expr))


def _callname(call):
    f = call.func
    if isinstance(f, ast.Name):
        return f.id
    if isinstance(f, ast.Attribute):
        return f.attr
    return None


def classify(expr, src):
    """How `expr` relates to the object named `src`: identity | copy | deep | unknown."""
    if isinstance(expr, ast.Name):
        return "identity" if expr.id == src else "unknown"
    if isinstance(expr, (ast.ListComp, ast.DictComp, ast.SetComp, ast.List, ast.Dict, ast.Set, ast.GeneratorExp)):
        return "copy"
    if isinstance(expr, ast.Subscript) and isinstance(expr.slice, ast.Slice) and _mentions(expr.value, src):
        return "copy"
    if isinstance(expr, ast.Call):
        n = _callname(expr)
        if n == "deepcopy" and expr.args and _mentions(expr.args[0], src):
            return "deep"
        if n in ("list", "dict", "set", "tuple", "sorted", "OrderedDict") and expr.args and _mentions(expr.args[0], src):
            return "copy"
        if n == "copy" and isinstance(expr.func, ast.Attribute) and _mentions(expr.func.value, src):
            return "copy"
        if n == "_get_defensive_copy_if_needed" and expr.args and _mentions(expr.args[0], src):
            return "identity"            # deep copy only when the owner is immutable
    if isinstance(expr, ast.IfExp):
        a, b = classify(expr.body, src), classify(expr.orelse, src)
        order = ["unknown", "identity", "copy", "deep"]
        return min(a, b, key=order.index)
    return "unknown"


def _mutates(fn, name):
    """Does the function body modify the object bound to `name` in place?"""
    for n in ast.walk(fn):
        if isinstance(n, ast.Call) and isinstance(n.func, ast.Attribute) and isinstance(n.func.value, ast.Name) \
                and n.func.value.id == name and n.func.attr in MUTATORS:
            return True
        if isinstance(n, (ast.Assign, ast.AugAssign, ast.Delete)):
            targets = n.targets if isinstance(n, (ast.Assign, ast.Delete)) else [n.target]
            for t in targets:
                if isinstance(t, ast.Subscript) and isinstance(t.value, ast.Name) and t.value.id == name:
                    return True
                if isinstance(n, ast.AugAssign) and isinstance(t, ast.Name) and t.id == name:
                    return True
    return False


def _is_super_call(call, name):
    f = call.func
    return (isinstance(f, ast.Attribute) and f.attr == name and isinstance(f.value, ast.Call)
            and isinstance(f.value.func, ast.Name) and f.value.func.id == "super")


TAKE = {"identity": "Copies", "copy": "Copies", "deep": "DeepCopies"}      # under list()/dict() construction
RESULT = {"identity": "ReturnsInternal", "copy": "Copies", "deep": "DeepCopies", "unknown": "UnknownEff"}


def wrapper_init(tree, cls, base, param):
    """_ListStruct/_DictStruct.__init__: the builtin base constructor copies one level of whatever it is given."""
    c = next((n for n in ast.walk(tree) if isinstance(n, ast.ClassDef) and n.name == cls), None)
    if c is None or not any(isinstance(b, ast.Name) and b.id == base for b in c.bases):
        return "UnknownEff"
    fn = _func(tree, "__init__", cls)
    if fn is None or param not in [a.arg for a in fn.args.args]:
        return "UnknownEff"
    calls = [n for n in ast.walk(fn) if isinstance(n, ast.Call) and _is_super_call(n, "__init__")]
    if len(calls) != 1 or len(calls[0].args) != 1:
        return "UnknownEff"
    return TAKE.get(classify(calls[0].args[0], param), "UnknownEff")


def set_wraps(tree, cls, wrapper):
    """<cls>.__set__ stores `wrapper(self, instance, value, ...)` of the PROCESSED value as its last statement, and that
    is the only way it stores anything -- apart from the `_trust_supplied_values` pass-through at its very top.  Any
    other early store (a fast path that skips the element-wise rebuild) makes the fact false."""
    fn = _func(tree, "__set__", cls)
    if fn is None or not fn.body:
        return False
    last = fn.body[-1]
    if not (isinstance(last, ast.Expr) and isinstance(last.value, ast.Call) and _is_super_call(last.value, "__set__")):
        return False
    args = last.value.args
    if not (len(args) == 2 and isinstance(args[1], ast.Call) and isinstance(args[1].func, ast.Name)
            and args[1].func.id == wrapper and any(isinstance(a, ast.Name) and a.id == "value" for a in args[1].args)):
        return False
    allowed = {id(last.value)}
    first = fn.body[0]
    if isinstance(first, ast.If) and "_trust_supplied_values" in ast.unparse(first.test):
        allowed |= {id(n) for n in ast.walk(first) if isinstance(n, ast.Call)}
    for n in ast.walk(fn):
        if isinstance(n, ast.Call) and id(n) not in allowed:
            if _is_super_call(n, "__set__"):
                return False
            if isinstance(n.func, ast.Attribute) and n.func.attr in ("__setitem__", "__setattr__") or \
                    (isinstance(n.func, ast.Name) and n.func.id == "setattr" and n.args and ast.unparse(n.args[0]) == "instance"):
                return False
    for n in ast.walk(fn):       # instance.__dict__[...] = ...
        if isinstance(n, ast.Assign) and any("instance.__dict__" in ast.unparse(t) for t in n.targets):
            return False
    return True


def _delegating(expr):
    """`cached(value)` / `self._serialize(value)`: the cached closure, classified where it is created."""
    if not isinstance(expr, ast.Call):
        return False
    f = expr.func
    return (isinstance(f, ast.Name) and f.id == "cached") or (isinstance(f, ast.Attribute) and f.attr == "_serialize")


def _results(nodes, src):
    """Classification of every produced result (returns and the lambdas stored as the cached serializer)."""
    out = []
    for top in nodes:
        for n in ast.walk(top):
            if isinstance(n, ast.Return) and n.value is not None and not _delegating(n.value):
                out.append(classify(n.value, src))
            if isinstance(n, ast.Lambda):
                p = n.args.args[0].arg if n.args.args else src
                out.append(classify(n.body, p))
    return out


def _worst(kinds):
    order = ["unknown", "identity", "copy", "deep"]
    return RESULT[min(kinds, key=order.index)] if kinds else "UnknownEff"


def array_serialize(tree):
    fn = _func(tree, "serialize", "Array")
    if fn is None:
        return "UnknownEff", "UnknownEff", "UnknownEff"
    scalar_ifs = [n for n in ast.walk(fn) if isinstance(n, ast.If) and "Number" in ast.unparse(n.test)]
    scalar_nodes = [s for i in scalar_ifs for s in i.body]
    inside = {id(x) for top in scalar_nodes for x in ast.walk(top)}
    last = fn.body[-1]
    noitems = RESULT[classify(last.value, "value")] if isinstance(last, ast.Return) and last.value is not None else "UnknownEff"
    others = []
    for n in ast.walk(fn):
        if id(n) in inside or n is last:
            continue
        if isinstance(n, ast.Return) and n.value is not None and not _delegating(n.value):
            others.append(classify(n.value, "value"))
        if isinstance(n, ast.Lambda):
            others.append(classify(n.body, n.args.args[0].arg if n.args.args else "value"))
    items = _worst(others)
    scalar = _worst(_results(scalar_nodes, "value")) if scalar_ifs else items
    return scalar, items, noitems


def map_serialize(tree):
    fn = _func(tree, "serialize", "Map")
    if fn is None:
        return "UnknownEff"
    ifs = [n for n in fn.body if isinstance(n, ast.If) and "items" in ast.unparse(n.test)]
    if not ifs:
        return "UnknownEff"
    return _worst(_results(ifs[0].body, "value"))


def regular_serialize(tree):
    fn = _func(tree, "serialize_val")
    if fn is None:
        return "UnknownEff", "UnknownEff"
    outer = [n for n in fn.body if isinstance(n, ast.If) and "SizedCollection" in ast.unparse(n.test)]
    if len(outer) != 1:
        return "UnknownEff", "UnknownEff"
    map_ifs = [n for n in outer[0].body if isinstance(n, ast.If) and "Map" in ast.unparse(n.test)]
    if len(map_ifs) != 1:
        return "UnknownEff", "UnknownEff"
    m = _worst(_results([map_ifs[0]], "val"))
    rest = [s for s in outer[0].body if s is not map_ifs[0]]
    l = _worst(_results(rest, "val"))
    return l, m


def takes_deep(fn):
    """First parameter is deep-copied into a local and never modified in place."""
    if fn is None:
        return "UnknownEff"
    p = fn.args.args[0].arg
    kinds = [classify(n.value, p) for n in ast.walk(fn)
             if isinstance(n, ast.Assign) and isinstance(n.value, ast.Call) and _mentions(n.value, p)
             and _callname(n.value) in ("deepcopy", "copy", "dict")]
    if _mutates(fn, p):
        return "WritesArg"
    if "deep" in kinds:
        return "DeepCopies"
    if "copy" in kinds:
        return "Copies"
    return "UnknownEff"


def _is_copy_expr(v):
    if isinstance(v, ast.Call) and _callname(v) in ("list", "deepcopy", "copy", "sorted"):
        return True
    if isinstance(v, ast.IfExp):
        return all(_is_copy_expr(x) or isinstance(x, ast.Constant) for x in (v.body, v.orelse))
    return False


def _required_gets(v):
    return [n for n in ast.walk(v) if isinstance(n, ast.Call) and isinstance(n.func, ast.Attribute)
            and n.func.attr == "get" and isinstance(n.func.value, ast.Name) and n.func.value.id == "schema"
            and n.args and isinstance(n.args[0], ast.Constant) and n.args[0].value == "required"]


def code_required(tree):
    fn = _func(tree, "schema_to_struct_code")
    if fn is None:
        return "UnknownEff"
    assigns = [n for n in fn.body if isinstance(n, ast.Assign) and len(n.targets) == 1
               and isinstance(n.targets[0], ast.Name) and n.targets[0].id == "required"]
    nested = [n for n in ast.walk(fn) if isinstance(n, ast.Assign) and any(
        isinstance(t, ast.Name) and t.id == "required" for t in n.targets)]
    if not assigns or len(nested) != len(assigns):
        return "UnknownEff"           # (re)bound somewhere the recogniser does not follow
    aliased = None
    for a in assigns:                 # top-level statements, in order
        v = a.value
        if _is_copy_expr(v) and (_mentions(v, "required") or _required_gets(v)):
            aliased = False
        elif _required_gets(v):
            wrapped = any(isinstance(n, ast.Call) and _callname(n) in ("list", "deepcopy", "copy", "sorted")
                          and any(g in ast.walk(n) for g in _required_gets(v)) for n in ast.walk(v)
                          if n not in _required_gets(v))
            aliased = not wrapped
        else:
            return "UnknownEff"
    if aliased is None:
        return "UnknownEff"
    if not _mutates(fn, "required"):
        return "Copies"
    return "WritesArg" if aliased else "Copies"


def schema_required(tree):
    fn = _func(tree, "structure_to_schema")
    inner = _func(tree, "_generate_schema_for_fields_internal")
    if fn is None or inner is None:
        return "UnknownEff"
    assigns = [n for n in ast.walk(fn) if isinstance(n, ast.Assign) and len(n.targets) == 1
               and isinstance(n.targets[0], ast.Name) and n.targets[0].id == "required"]
    if len(assigns) != 1:
        return "UnknownEff"
    v = assigns[0].value
    direct = isinstance(v, ast.Call) and _callname(v) == "getattr" and len(v.args) >= 2 \
        and isinstance(v.args[1], ast.Constant) and v.args[1].value == "_required"
    copied = isinstance(v, ast.Call) and _callname(v) in ("list", "deepcopy", "copy", "sorted") and "_required" in ast.unparse(v)
    passes = any(isinstance(n, ast.Call) and _callname(n) == "_generate_schema_for_fields_internal"
                 and any(isinstance(a, ast.Name) and a.id == "required" for a in n.args) for n in ast.walk(fn))
    writes = _mutates(fn, "required") or (passes and "required" in [a.arg for a in inner.args.args] and _mutates(inner, "required"))
    if copied or not writes:
        return "Copies"
    return "WritesArg" if direct else "UnknownEff"


def schema_default(tree):
    inner = _func(tree, "_generate_schema_for_fields_internal")
    if inner is None:
        return "UnknownEff"
    stores = [n for n in ast.walk(inner) if isinstance(n, ast.Assign) and len(n.targets) == 1
              and isinstance(n.targets[0], ast.Subscript) and isinstance(n.targets[0].slice, ast.Constant)
              and n.targets[0].slice.value == "default"]
    if len(stores) != 1:
        return "UnknownEff"
    v = stores[0].value
    if isinstance(v, ast.Call) and _callname(v) == "deepcopy":
        return "DeepCopies"
    if not isinstance(v, ast.Name):
        return "UnknownEff"
    srcs = [n.value for n in ast.walk(inner) if isinstance(n, ast.Assign) and len(n.targets) == 1
            and isinstance(n.targets[0], ast.Name) and n.targets[0].id == v.id]
    if any("deepcopy" in ast.unparse(s) for s in srcs) and all(
            "deepcopy" in ast.unparse(s) or ".name" in ast.unparse(s) for s in srcs):
        return "DeepCopies"
    return "ReturnsInternal"


def trusted_array(tree):
    fn = _func(tree, "_remap_input")
    if fn is None:
        return "UnknownEff"
    ifs = [n for n in ast.walk(fn) if isinstance(n, ast.If) and ast.unparse(n.test) == "isinstance(field_def, Array)"]
    if len(ifs) != 1:
        return "UnknownEff"
    node = ifs[0].body
    # innermost else of the if/elif chain inside the Array branch
    chain = [s for s in node if isinstance(s, ast.If)]
    if len(chain) != 1:
        return "UnknownEff"
    cur = chain[0]
    while len(cur.orelse) == 1 and isinstance(cur.orelse[0], ast.If):
        cur = cur.orelse[0]
    if len(cur.orelse) != 1 or not isinstance(cur.orelse[0], ast.Assign):
        return "UnknownEff"
    k = classify(cur.orelse[0].value, "v")
    return {"identity": "RetainsArg", "copy": "Copies", "deep": "DeepCopies"}.get(k, "UnknownEff")


def facts():
    coll = _parse("fields/collections_impl.py")
    arr = _parse("fields/array.py")
    mp = _parse("fields/map_field.py")
    ser = _parse("serialization/serialization.py")
    ver = _parse("serialization/versioned_mapping.py")
    js = _parse("json_schema/json_schema_mapping.py")
    sc, it, no = array_serialize(arr)
    rl, rm = regular_serialize(ser)
    return [
        ("s_liststruct_init", wrapper_init(coll, "_ListStruct", "list", "mylist")),
        ("s_dictstruct_init", wrapper_init(coll, "_DictStruct", "dict", "mydict")),
        ("s_array_set_wraps", "true" if set_wraps(arr, "Array", "_ListStruct") else "false"),
        ("s_map_set_wraps", "true" if set_wraps(mp, "Map", "_DictStruct") else "false"),
        ("s_array_ser_scalar", sc),
        ("s_array_ser_items", it),
        ("s_array_ser_noitems", no),
        ("s_map_ser_items", map_serialize(mp)),
        ("s_regular_ser_list", rl),
        ("s_regular_ser_map", rm),
        ("s_convert_dict", takes_deep(_func(ver, "convert_dict"))),
        ("s_convert_step", takes_deep(_func(ver, "_convert"))),
        ("s_code_required", code_required(js)),
        ("s_schema_required", schema_required(js)),
        ("s_schema_default", schema_default(js)),
        ("s_trusted_array", trusted_array(ser)),
    ]


def render(fs):
    lines = ["(* GENERATED by harness/aliasgen.py from the AST of /repo/typedpy (collections_impl.py, array.py, map_field.py,",
             "   serialization.py, versioned_mapping.py, json_schema_mapping.py).  Do not edit. *)",
             "From TP Require Import Struct.Alias.", "",
             "Definition alias_sites : sites :=", "  {|"]
    lines.append(";\n".join("    %s := %s" % (k, v) for k, v in fs))
    lines += ["  |}.", ""]
    return "\n".join(lines)


def regenerate():
    try:
        fs = facts()
    except Exception as e:  # noqa  -- fail closed: every site unknown
        names = ["s_liststruct_init", "s_dictstruct_init", "s_array_set_wraps", "s_map_set_wraps", "s_array_ser_scalar",
                 "s_array_ser_items", "s_array_ser_noitems", "s_map_ser_items", "s_regular_ser_list", "s_regular_ser_map",
                 "s_convert_dict", "s_convert_step", "s_code_required", "s_schema_required", "s_schema_default",
                 "s_trusted_array"]
        fs = [(n, "false" if n.endswith("_wraps") else "UnknownEff") for n in names]
    core.write_if_changed(os.path.join(core.COQDIR, "theories", "Gen", "AliasSites.v"), render(fs))
    return dict(fs)
