"""Deterministic scheduler for C20: every operation runs in its own REAL thread under
`sys.settrace`; a thread blocks on its own semaphore whenever it is about to execute one of the
pre-emption lines (source lines of typedpy named in the generated shared-access table), so the
controller drives any line-granular schedule.  Exactly one worker runs at any time.

Also: instrumentation of `Field._name` (a data descriptor installed on the Field class from the
harness process, no repo hook) and `Field.__setattr__`, logging every read of `_name` and every
attribute write on shared Field objects with the accessing thread, source line and value."""
import sys
import threading

_TLS = threading.local()


class Worker(threading.Thread):
    def __init__(self, tid, fn, sched):
        super().__init__(daemon=True)
        self.tid = tid
        self.fn = fn
        self.sched = sched
        self.go = threading.Semaphore(0)
        self.finished = False
        self.outcome = None
        self.stops = []          # (file, line) of each breakpoint this worker stopped at

    # -- tracing ---------------------------------------------------------
    def _global_trace(self, frame, event, arg):
        if event == "call":
            lines = self.sched.bp_by_code.get(frame.f_code)
            if lines is None:
                fn = frame.f_code.co_filename
                by_file = self.sched.bp_by_file.get(fn)
                if by_file is None:
                    self.sched.bp_by_code[frame.f_code] = ()
                    return None
                co = frame.f_code
                first = co.co_firstlineno
                last = max([l for _, _, l in co.co_lines() if l is not None] or [first])
                lines = frozenset(l for l in by_file if first <= l <= last)
                self.sched.bp_by_code[frame.f_code] = lines or ()
            if lines:
                return self._local_trace
        return None

    def _local_trace(self, frame, event, arg):
        if event == "line":
            if frame.f_lineno in self.sched.bp_by_code.get(frame.f_code, ()):
                self.stops.append((frame.f_code.co_filename, frame.f_lineno))
                self._yield()
        return self._local_trace

    def _yield(self):
        self.sched.ctl.release()
        self.go.acquire()

    def run(self):
        _TLS.tid = self.tid
        self.go.acquire()
        sys.settrace(self._global_trace)
        try:
            try:
                self.outcome = ("ok", self.fn())
            except BaseException as e:  # noqa
                self.outcome = ("raise", e)
        finally:
            sys.settrace(None)
            self.finished = True
            _TLS.tid = None
            self.sched.ctl.release()


class SchedTimeout(RuntimeError):
    pass


class Sched:
    """ops: list of zero-argument callables.  breakpoints: iterable of (filename, lineno)."""

    def __init__(self, breakpoints):
        self.bp_by_file = {}
        for f, l in breakpoints:
            self.bp_by_file.setdefault(f, set()).add(l)
        self.bp_by_code = {}
        self.ctl = threading.Semaphore(0)

    def run(self, ops, segments, timeout=20.0):
        """segments: list of (tid, k): let thread tid run k steps (a step = until its next
        pre-emption line or its end); k=None: to completion.  Afterwards every unfinished thread
        is run to completion in tid order.  Returns (outcomes, steps_taken_per_thread, executed)
        where executed is the list of (tid, steps actually run) segments."""
        workers = [Worker(i, fn, self) for i, fn in enumerate(ops)]
        for w in workers:
            w.start()
        executed = []
        steps = [0] * len(ops)

        def step(w):
            w.go.release()
            if not self.ctl.acquire(timeout=timeout):
                import traceback
                fr = sys._current_frames().get(w.ident)
                where = "".join(traceback.format_stack(fr)[-6:]) if fr is not None else "<no frame>"
                # the stuck worker is abandoned (daemon thread); a fresh semaphore for later runs
                self.ctl = threading.Semaphore(0)
                raise SchedTimeout("scheduler: worker %d did not yield within %ss; it is at:\n%s" % (w.tid, timeout, where))
            steps[w.tid] += 1

        for tid, k in list(segments) + [(i, None) for i in range(len(ops))]:
            w = workers[tid]
            n = 0
            while not w.finished and (k is None or n < k):
                step(w)
                n += 1
            if n:
                executed.append((tid, n))
        for w in workers:
            w.join(timeout)
        return [w.outcome for w in workers], steps, executed, [w.stops for w in workers]


def current_tid():
    return getattr(_TLS, "tid", None)


# --------------------------------------------------------------------------- instrumentation

class Instrument:
    """Logs accesses to shared Field objects.  Installed on the Field class for the duration of a
    `with` block and removed afterwards (process-wide state restored)."""

    def __init__(self, log_reads=True):
        self.events = []         # (tid, 'W'|'R', id(field), attr, value, file, line)
        self.log_reads = log_reads
        self.enabled = False

    def __enter__(self):
        from typedpy.structures import Field
        self.Field = Field
        inst = self
        self._had_name = "_name" in Field.__dict__
        self._old_setattr = Field.__dict__.get("__setattr__")

        def getter(obj):
            v = obj.__dict__.get("_name")
            if inst.enabled and inst.log_reads:
                fr = sys._getframe(1)
                inst.events.append((current_tid(), "R", id(obj), "_name", v, fr.f_code.co_filename, fr.f_lineno))
            return v

        def setter(obj, v):
            # writes are logged by __setattr__ below
            obj.__dict__["_name"] = v

        def deleter(obj):
            del obj.__dict__["_name"]

        def patched_setattr(obj, name, value):
            if inst.enabled:
                fr = sys._getframe(1)
                inst.events.append((current_tid(), "W", id(obj), name, value, fr.f_code.co_filename, fr.f_lineno))
            object.__setattr__(obj, name, value)

        Field._name = property(getter, setter, deleter)
        Field.__setattr__ = patched_setattr
        return self

    def __exit__(self, *a):
        Field = self.Field
        if not self._had_name:
            del Field._name
        if self._old_setattr is None:
            del Field.__setattr__
        else:
            Field.__setattr__ = self._old_setattr
        return False

    def take(self):
        ev, self.events = self.events, []
        return ev
