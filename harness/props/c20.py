"""C20 — concurrent use of a class from several threads equals some sequential order.  (PARTIAL:
atomicity grain = source line.)

Proof obligations: Props/C20.v (theorems over ALL interleavings of the thread model), applied to the
GENERATED shared-access lists (Gen/SharedAccess.v, from the AST of /repo on every run).
Tie to the code:
  * access-table stream: the AST-derived table is cross-checked dynamically (Field._name descriptor +
    Field.__setattr__ installed from the harness process): every write to a shared Field object
    during real operations happens at a line of the table;
  * trace stream (correspondence, evaluated in Coq): real operations run under harness-driven
    schedules with their accesses logged; Coq checks that the log is an execution of the model
    (memory consistency, per-thread program = instantiation of the generated list, outcome = the
    model's outcome function of what was read);
  * schedule stream (the property's clause on the implementation): every operation's result /
    exception class / named field under every explored schedule vs its sequential result;
  * the model's witness schedule for every validator classified racy, replayed exactly."""
import collections
import concurrent.futures
import copy
import itertools
import multiprocessing
import os
import random
import re
import time

from harness import core
from harness import coqemit as E
from harness import sched as S

FIELD = "f"
FCODE = 7

IMPORTS = ("from collections import deque\n"
           "from typedpy import (Structure, Integer, String, Float, Boolean, Number, Positive, Array, Deque, Tuple, Set, "
           "ImmutableSet, Map, AllOf, AnyOf, OneOf, NotField, Enum)\n")

INNER = ("class Inner(Structure):\n    x = Integer\n    ys = Array[Integer]\n"
         "class Flat(Structure):\n    x = Integer\n    t = String\n")

LEAF = ("leaf",)


def node(name, *ch):
    return ("node", name, list(ch))


def struct(*fs):
    return ("struct", list(fs))


def _ints(t, n, off=0):
    return [1000 * (t + 1) + off + i for i in range(n)]


def _strs(t, n, off=0):
    return ["s%d" % x for x in _ints(t, n, off)]


def _doc_plain(v):
    return v


# name, declaration, tree, flat entry (or None), value(t, n), corrupt(value), n for thread t, extra field names
KINDS = [
    dict(name="Integer", decl="Integer(minimum=0)", tree=LEAF, val=lambda t, n: 1000 * (t + 1), bad=lambda v: "x"),
    dict(name="String", decl="String(maxLength=8)", tree=LEAF, val=lambda t, n: "s%d" % t, bad=lambda v: 5),
    dict(name="Float", decl="Float", tree=LEAF, val=lambda t, n: t + 0.5, bad=lambda v: "x"),
    dict(name="Enum", decl="Enum(values=['p', 'q', 'r'])", tree=LEAF, val=lambda t, n: "pqr"[t % 3], bad=lambda v: "zz"),
    dict(name="Array.Each", decl="Array[Integer]", tree=node("Array.Each", LEAF), flat="Array.Each",
         val=lambda t, n: _ints(t, n), bad=lambda v: v[:-1] + ["x"]),
    dict(name="Array.Positional", decl="Array(items=[Integer, String, Integer])", tree=node("Array.Positional", LEAF, LEAF, LEAF),
         flat="Array.Positional", fixed=3,
         val=lambda t, n: [1000 * (t + 1), "s%d" % t, 1000 * (t + 1) + 2], bad=lambda v: [v[0], v[1], "x"]),
    dict(name="Deque.Each", decl="Deque[Integer]", tree=node("Deque.Each", LEAF), flat="Deque.Each",
         val=lambda t, n: collections.deque(_ints(t, n)), bad=lambda v: collections.deque(list(v)[:-1] + ["x"])),
    dict(name="Deque.Positional", decl="Deque(items=[Integer, String])", tree=node("Deque.Positional", LEAF, LEAF),
         flat="Deque.Positional", fixed=2,
         val=lambda t, n: collections.deque([1000 * (t + 1), "s%d" % t]), bad=lambda v: collections.deque([v[0], 5])),
    dict(name="Tuple.Uniform", decl="Tuple[Integer]", tree=node("Tuple.Uniform", LEAF), flat="Tuple.Uniform",
         val=lambda t, n: tuple(_ints(t, n)), bad=lambda v: v[:-1] + ("x",)),
    dict(name="Tuple.Positional", decl="Tuple[Integer, String]", tree=node("Tuple.Positional", LEAF, LEAF),
         flat="Tuple.Positional", fixed=2,
         val=lambda t, n: (1000 * (t + 1), "s%d" % t), bad=lambda v: (v[0], 5)),
    dict(name="Set", decl="Set[Integer]", tree=node("Set", LEAF), flat="Set", unordered=True,
         val=lambda t, n: set(_ints(t, n)), bad=lambda v: set(list(v)[:-1] + ["x"])),
    dict(name="ImmutableSet", decl="ImmutableSet[Integer]", tree=node("ImmutableSet", LEAF), flat="ImmutableSet", unordered=True, no_trace=True,
         val=lambda t, n: set(_ints(t, n)), bad=lambda v: set(list(v)[:-1] + ["x"])),
    dict(name="Map", decl="Map[String, Integer]", tree=node("Map", LEAF, LEAF), flat="Map",
         val=lambda t, n: dict(zip(_strs(t, n), _ints(t, n))), bad=lambda v: dict(list(v.items())[:-1] + [("k", "x")])),
    dict(name="AllOf", wrapper=True, decl="AllOf[Integer, Number]", tree=node("AllOf", LEAF, LEAF), flat="AllOf", fixed=2,
         val=lambda t, n: 1000 * (t + 1), bad=lambda v: "x"),
    dict(name="AnyOf", wrapper=True, decl="AnyOf[Integer, String]", tree=node("AnyOf", LEAF, LEAF), flat="AnyOf", fixed=1, fixed_bad=2,
         val=lambda t, n: 1000 * (t + 1), bad=lambda v: 1.5),
    dict(name="OneOf", wrapper=True, decl="OneOf[Integer, String]", tree=node("OneOf", LEAF, LEAF),
         val=lambda t, n: 1000 * (t + 1) if t % 2 == 0 else "s%d" % t, bad=lambda v: 1.5),
    dict(name="NotField", wrapper=True, decl="NotField[String]", tree=node("NotField", LEAF), val=lambda t, n: 1000 * (t + 1), bad=lambda v: "x"),
    # wrappers whose option is a collection (the option USES its name while it iterates)
    dict(name="OneOf[Array]", decl="OneOf[Array[Integer], String]", tree=node("OneOf", node("Array.Each", LEAF), LEAF),
         val=lambda t, n: _ints(t, n), bad=lambda v: v[:-1] + ["x"], wrapper=True),
    dict(name="NotField[Array]", decl="NotField[Array[String]]", tree=node("NotField", node("Array.Each", LEAF)),
         val=lambda t, n: _ints(t, n), bad=lambda v: ["s%d" % x for x in v], wrapper=True),
    dict(name="OneOf[Tuple]", decl="OneOf[Tuple[Integer, String], Integer]", tree=node("OneOf", node("Tuple.Positional", LEAF, LEAF), LEAF),
         fixed_n=2, val=lambda t, n: (1000 * (t + 1), "s%d" % t), bad=lambda v: (v[0], 5), wrapper=True),
    # nested
    dict(name="Array[Array]", decl="Array[Array[Integer]]", tree=node("Array.Each", node("Array.Each", LEAF)),
         val=lambda t, n: [_ints(t, 2, 10 * i) for i in range(n)], bad=lambda v: v[:-1] + [[v[-1][0], "x"]]),
    dict(name="Map[Array]", decl="Map[String, Array[Integer]]", tree=node("Map", LEAF, node("Array.Each", LEAF)),
         val=lambda t, n: {k: _ints(t, 2, 10 * i) for i, k in enumerate(_strs(t, n))},
         bad=lambda v: dict(list(v.items())[:-1] + [("k", [1, "x"])])),
    dict(name="Map[Map]", decl="Map[String, Map[String, Integer]]", tree=node("Map", LEAF, node("Map", LEAF, LEAF)),
         val=lambda t, n: {k: dict(zip(_strs(t, 2, 10 * i + 500), _ints(t, 2, 10 * i))) for i, k in enumerate(_strs(t, n))},
         bad=lambda v: dict(list(v.items())[:-1] + [("k", {"kk": "x"})])),
    dict(name="Array[Struct]", decl="Array[Inner]", tree=node("Array.Each", struct(LEAF, node("Array.Each", LEAF))),
         val=lambda t, n: [("Inner", {"x": 1000 * (t + 1) + i, "ys": _ints(t, 2, 10 * i + 100)}) for i in range(n)],
         bad=lambda v: v[:-1] + [("Inner", {"x": "bad", "ys": [1]})], names=["x", "ys"]),
    dict(name="Struct", decl="Inner", tree=struct(LEAF, node("Array.Each", LEAF)),
         val=lambda t, n: ("Inner", {"x": 1000 * (t + 1), "ys": _ints(t, n, 100)}),
         bad=lambda v: ("Inner", {"x": v[1]["x"], "ys": v[1]["ys"][:-1] + ["x"]}), names=["x", "ys"]),
    dict(name="StructFlat", decl="Flat", tree=struct(LEAF, LEAF),
         val=lambda t, n: ("Flat", {"x": 1000 * (t + 1), "t": "s%d" % t}), bad=lambda v: ("Flat", {"x": "bad", "t": "u"}),
         names=["x", "t"]),
    dict(name="Array[AnyOf]", decl="Array[AnyOf[Integer, String]]", tree=node("Array.Each", node("AnyOf", LEAF, LEAF)),
         val=lambda t, n: [x if i % 2 == 0 else "s%d" % x for i, x in enumerate(_ints(t, n))], bad=lambda v: v[:-1] + [1.5]),
    dict(name="AnyOf[Array]", decl="AnyOf[Array[Integer], String]", tree=node("AnyOf", node("Array.Each", LEAF), LEAF),
         val=lambda t, n: _ints(t, n), bad=lambda v: v[:-1] + ["x"]),
    dict(name="Array[Tuple]", decl="Array[Tuple[Integer, String]]", tree=node("Array.Each", node("Tuple.Positional", LEAF, LEAF)),
         val=lambda t, n: [(x, "s%d" % x) for x in _ints(t, n)], bad=lambda v: v[:-1] + [(1, 2)]),
]
KIND = {k["name"]: k for k in KINDS}
SIZES = [3, 2, 4]          # elements of thread 0, 1, 2 (as the model's sample threads)


# ------------------------------------------------------------------ realisation

def class_source(k, cname="K"):
    return IMPORTS + INNER + "class %s(Structure):\n    %s = %s\n    s = String\n" % (cname, FIELD, k["decl"])


def make_class(k, cname="K"):
    ns = {}
    exec(class_source(k, cname), ns)
    return ns[cname], ns


def realise(v, ns):
    """('Inner', {...}) -> instance of the nested class (fresh each time)"""
    if isinstance(v, tuple) and len(v) == 2 and isinstance(v[0], str) and v[0] in ("Inner", "Flat") and isinstance(v[1], dict):
        return ns[v[0]](**{a: realise(b, ns) for a, b in v[1].items()})
    if isinstance(v, list):
        return [realise(x, ns) for x in v]
    if isinstance(v, collections.deque):
        return collections.deque(realise(x, ns) for x in v)
    if isinstance(v, tuple):
        return tuple(realise(x, ns) for x in v)
    if isinstance(v, dict):
        return {a: realise(b, ns) for a, b in v.items()}
    if isinstance(v, (set, frozenset)):
        return set(v)
    return v


def canon(x, depth=0):
    from typedpy import Structure
    if depth > 8:
        return "<deep>"
    if isinstance(x, Structure):
        return ["S", type(x).__name__, sorted((a, canon(b, depth + 1)) for a, b in x.__dict__.items() if not a.startswith("_"))]
    if isinstance(x, collections.deque):
        return ["Q"] + [canon(y, depth + 1) for y in x]
    if isinstance(x, list):
        return ["L"] + [canon(y, depth + 1) for y in x]
    if isinstance(x, tuple):
        return ["T"] + [canon(y, depth + 1) for y in x]
    if isinstance(x, (set, frozenset)):
        return ["Set"] + sorted((canon(y, depth + 1) for y in x), key=repr)
    if isinstance(x, dict):
        return ["D"] + [[canon(a, depth + 1), canon(b, depth + 1)] for a, b in x.items()]
    if isinstance(x, (int, float, str, bool)) or x is None:
        return x
    return repr(type(x))


def leaves(c, acc=None):
    acc = [] if acc is None else acc
    if isinstance(c, list):
        for y in c[1:] if c and isinstance(c[0], str) and c[0] in ("S", "Q", "L", "T", "Set", "D") else c:
            leaves(y, acc)
    elif isinstance(c, tuple):
        for y in c:
            leaves(y, acc)
    else:
        acc.append(c)
    return acc


NAME_RE = re.compile(r"(?:^|[\s.'\"])([A-Za-z][A-Za-z0-9]*(?:_[A-Za-z0-9]+)*)(?=: |'$|' |'\)|$)")


def named_field(msg):
    """the field an error message names: the token before the first ': ' (after an optional 'Class.')"""
    m = re.match(r"^(?:[A-Za-z_][A-Za-z0-9_]*\.)?\s*([A-Za-z_][A-Za-z0-9_]*): ", msg)
    if m:
        return m.group(1)
    m = re.search(r"has no attribute '([A-Za-z_][A-Za-z0-9_]*)'", msg)
    if m:
        return m.group(1)
    m = re.match(r"^(?:[A-Za-z_][A-Za-z0-9_]*\.)?'([A-Za-z_][A-Za-z0-9_]*)'$", msg.strip('"'))
    if m:
        return m.group(1)
    return None


def outcome_of(o):
    """scheduler outcome -> canonical comparable form"""
    if o is None:
        return ("hung",)
    if o[0] == "ok":
        return ("ok", canon(o[1]))
    e = o[1]
    msg = str(e)
    cls = type(e).__name__
    return ("raise", cls, named_field(msg), re.sub(r"0x[0-9a-f]+", "0x", msg)[:300])


def same_outcome(a, b):
    if a[0] != b[0]:
        return False
    if a[0] == "ok":
        return a[1] == b[1]
    if a[0] == "raise":
        return a[1] == b[1] and a[2] == b[2]
    return True


# ------------------------------------------------------------------ operations

OPKINDS = ["construct", "deserialize", "setattr", "serialize", "fieldser"]


def build_op(k, cls, ns, opkind, t, valid, sizes=SIZES):
    """-> (callable, description).  Everything the operation touches besides the class is private
    to it (own input, own instance)."""
    from typedpy import Deserializer, Serializer
    n = k.get("fixed_n", sizes[t % len(sizes)])
    ast_v = k["val"](t, n)
    if not valid:
        ast_v = k["bad"](ast_v)
    desc = {"op": opkind, "thread": t, "valid": valid, "value": repr(ast_v)}
    if opkind == "construct":
        # nested instances are built by the operation itself (inside its thread)
        return (lambda: getattr(cls(**{FIELD: realise(ast_v, ns), "s": "t%d" % t}), FIELD)), desc
    if opkind == "setattr":
        inst = cls(**{FIELD: realise(k["val"](t + 5, 2), ns), "s": "t%d" % t})

        def op():
            setattr(inst, FIELD, realise(ast_v, ns))
            return getattr(inst, FIELD)
        return op, desc
    if opkind == "serialize":
        inst = cls(**{FIELD: realise(k["val"](t, n), ns), "s": "t%d" % t})
        return (lambda: Serializer(inst).serialize()), desc
    if opkind == "fieldser":
        # the per-field serializer FastSerializable classes call (installs a cached closure on first use)
        inst = cls(**{FIELD: realise(k["val"](t, n), ns), "s": "t%d" % t})
        fld = cls.get_all_fields_by_name()[FIELD]
        return (lambda: fld.serialize(getattr(inst, FIELD))), desc
    if opkind == "deserialize":
        good = cls(**{FIELD: realise(k["val"](t, n), ns), "s": "t%d" % t})
        doc = Serializer(good).serialize()
        if not valid:
            doc = corrupt_doc(doc)
        desc["doc"] = repr(doc)
        return (lambda: getattr(Deserializer(cls).deserialize(copy.deepcopy(doc)), FIELD)), desc
    raise ValueError(opkind)


def corrupt_doc(doc):
    d = copy.deepcopy(doc)

    def go(x):
        if isinstance(x, list) and x:
            if isinstance(x[-1], (list, dict)):
                return x[:-1] + [go(x[-1])]
            return x[:-1] + [{"zz": 1.5}]
        if isinstance(x, dict) and x:
            key = list(x)[-1]
            if isinstance(x[key], (list, dict)):
                x[key] = go(x[key])
            else:
                x[key] = {"zz": 1.5}
            return x
        return {"zz": 1.5}
    d[FIELD] = go(d[FIELD])
    return d


# ------------------------------------------------------------------ breakpoints from the generated table

def breakpoints(sa, extra=()):
    bps = set()
    for e in sa["entries"]:
        for a in e["acc"]:
            if a[1] in ("W", "C", "RB", "A", "U", "S") and a[2] > 0:
                bps.add((os.path.join(core.REPO, a[4]), a[2]))
        if "fn_range" in e:
            rel, lo, hi = e["fn_range"]
            for l in range(lo + 1, hi + 1):
                bps.add((os.path.join(core.REPO, rel), l))
    srel, sl = sa["store"]
    for l, _ in sl:
        bps.add((os.path.join(core.REPO, srel), l))
    mrel, ml = sa["mapper_cache"]
    for l in ml:
        bps.add((os.path.join(core.REPO, mrel), l))
    for f, l in extra:
        bps.add((f, l))
    return sorted(bps)


# ------------------------------------------------------------------ schedules

ENUM_LIMIT = 150000     # schedules enumerated before falling back to direct sampling (bounds time and memory)


def _gen_schedules(counts, max_pre):
    """generator of (pre-emptions, segment list) for all schedules with at most max_pre pre-emptions"""
    nt = len(counts)
    segs = []

    def rec(done, pre, last):
        unfinished = [t for t in range(nt) if done[t] < counts[t]]
        if not unfinished:
            yield pre, list(segs)
            return
        for t in unfinished:
            if t == last:
                continue
            remaining = counts[t] - done[t]
            segs.append((t, None))          # run t to completion (no pre-emption)
            d2 = list(done)
            d2[t] = counts[t]
            yield from rec(d2, pre, t)
            segs.pop()
            if pre < max_pre and len(unfinished) > 1:
                for kk in range(1, remaining):
                    segs.append((t, kk))
                    d2 = list(done)
                    d2[t] += kk
                    yield from rec(d2, pre + 1, t)
                    segs.pop()

    yield from rec([0] * nt, 0, None)


def _random_schedule(counts, max_pre, rnd):
    """one schedule with at most max_pre pre-emptions, built directly"""
    nt = len(counts)
    done = [0] * nt
    segs, pre, last = [], 0, None
    target = rnd.randint(1, max_pre) if max_pre else 0
    while True:
        unfinished = [t for t in range(nt) if done[t] < counts[t] and t != last]
        if not unfinished:
            if all(done[t] >= counts[t] for t in range(nt)):
                return segs
            unfinished = [last]
        t = rnd.choice(unfinished)
        remaining = counts[t] - done[t]
        others = any(done[u] < counts[u] for u in range(nt) if u != t)
        if pre < target and remaining > 1 and others:
            kk = rnd.randrange(1, remaining)
            segs.append((t, kk))
            done[t] += kk
            pre += 1
        else:
            segs.append((t, None))
            done[t] = counts[t]
        last = t


def enum_schedules(counts, max_pre, cap, rnd):
    """All segment lists with at most max_pre pre-emptions (a switch away from an unfinished thread)
    for threads with `counts` steps when run alone; beyond `cap`, every schedule with fewer
    pre-emptions plus a seeded sample.  The enumeration is lazy (reservoir sampling, nothing but the kept
    schedules in memory) and stops after ENUM_LIMIT schedules, the rest of the sample then being built directly.
    -> (list of segment lists, exhaustive?)"""
    low, high, n_low, n_high, n = [], [], 0, 0, 0
    truncated = False
    for pre, segs in _gen_schedules(counts, max_pre):
        n += 1
        if n > ENUM_LIMIT:
            truncated = True
            break
        if pre < max_pre:
            n_low += 1
            if len(low) <= cap:             # complete while it fits, a uniform reservoir afterwards
                low.append(segs)
            else:
                j = rnd.randrange(n_low)
                if j <= cap:
                    low[j] = segs
        else:
            n_high += 1
            if len(high) < cap:
                high.append(segs)
            else:
                j = rnd.randrange(n_high)
                if j < cap:
                    high[j] = segs
    if not truncated and n <= cap:
        return low + high, True
    rnd.shuffle(high)
    if n_low > cap:
        # more schedules with fewer pre-emptions than the cap: two thirds of them, one third with max_pre pre-emptions
        rnd.shuffle(low)
        out = low[: cap - min(len(high), cap // 3)] + high[: cap // 3]
    else:
        out = low + high[: cap - len(low)]
    if truncated:
        # replace half of the sample by schedules drawn over the WHOLE space (the lazy enumeration only saw a prefix of it)
        keep = out[: max(len(low) if n_low <= cap else 0, cap // 2)][:cap]
        seen = {repr(x) for x in keep}
        tries = 0
        while len(keep) < cap and tries < 20 * cap:
            tries += 1
            sg = _random_schedule(counts, max_pre, rnd)
            if repr(sg) not in seen:
                seen.add(repr(sg))
                keep.append(sg)
        out = keep
    return out, False


# ------------------------------------------------------------------ the schedule stream (one task per kind x op tuple)

def op_tuples(tier):
    if tier == "quick":
        return [(("construct", True), ("construct", True)),
                (("construct", True), ("construct", False)),
                (("deserialize", True), ("setattr", True)),
                (("serialize", True), ("construct", True)),
                (("serialize", True), ("serialize", True)),
                (("fieldser", True), ("fieldser", True)),
                (("deserialize", False), ("setattr", False))]
    return [(("construct", True), ("construct", True), ("construct", True)),
            (("construct", True), ("construct", False), ("setattr", True)),
            (("deserialize", True), ("setattr", True), ("serialize", True)),
            (("serialize", True), ("serialize", True), ("construct", True)),
            (("fieldser", True), ("fieldser", True), ("fieldser", True)),
            (("deserialize", False), ("setattr", False), ("construct", True)),
            (("construct", True), ("construct", False)),
            (("deserialize", True), ("deserialize", True))]


def explore_task(args):
    """Runs in a worker process.  -> dict(stats, deviations)"""
    kname, ops_spec, bps, max_pre, cap, seed, fresh_class = args
    k = KIND[kname]
    rnd = random.Random(seed)
    cls, ns = make_class(k)
    sch = S.Sched(bps)
    res = {"kind": kname, "ops": ops_spec, "schedules": 0, "exhaustive": True, "deviations": [], "steps": None,
           "error": None, "seq": None}
    try:
        def fresh_ops():
            c, n_ = (make_class(k) if fresh_class else (cls, ns))
            built = [build_op(k, c, n_, ok, t, valid) for t, (ok, valid) in enumerate(ops_spec)]
            return [b[0] for b in built], [b[1] for b in built]
        # sequential reference: every operation alone (and the step counts)
        try:
            ops, descs = fresh_ops()
        except Exception as e:  # noqa  the private pre-state of an operation cannot be built for this kind
            res["skipped"] = "%s: %s" % (type(e).__name__, str(e)[:200])
            return res
        seq = []
        counts = []
        for i, op in enumerate(ops):
            o, steps, _, _ = sch.run([op], [])
            seq.append(outcome_of(o[0]))
            counts.append(steps[0])
        res["seq"] = seq
        res["steps"] = counts
        scheds, exhaustive = enum_schedules(counts, max_pre, cap, rnd)
        res["exhaustive"] = exhaustive
        for segs in scheds:
            ops, descs = fresh_ops()
            try:
                o, steps, executed, _ = sch.run(ops, segs)
            except S.SchedTimeout:
                # once more with a long timeout (a loaded machine); a second timeout is reported
                ops, descs = fresh_ops()
                o, steps, executed, _ = sch.run(ops, segs, timeout=120.0)
            res["schedules"] += 1
            outs = [outcome_of(x) for x in o]
            bad = [i for i in range(len(ops)) if not same_outcome(outs[i], seq[i])]
            if bad:
                res["deviations"].append({"kind": kname, "ops": [list(x) for x in ops_spec], "segments": executed,
                                          "requested_segments": segs, "threads": bad,
                                          "observed": outs, "sequential": seq, "inputs": descs,
                                          "fresh_class": fresh_class})
    except Exception as e:  # noqa
        import traceback
        res["error"] = traceback.format_exc()[-1500:]
    return res


def family(k):
    return [FIELD, "s"] + list(k.get("names", []))


def in_family(tok, k):
    if tok is None:
        return False
    for nm in family(k):
        if tok == nm or tok.startswith(nm + "_"):
            return True
    return False


def symptom(dev, t, k):
    """Classify how thread t's outcome differs from its sequential outcome."""
    obs, seq = dev["observed"][t], dev["sequential"][t]
    if obs[0] == "ok" and seq[0] == "ok":
        own = leaves(seq[1])
        if all(x in own for x in leaves(obs[1])):
            return "reread", "result %r instead of %r (only the thread's own elements, misplaced)" % (obs[1], seq[1])
        return "foreign-value", "result %r contains a value that is not in the thread's own input (sequential: %r)" % (obs[1], seq[1])
    if obs[0] == "raise" and seq[0] == "ok":
        if obs[1] in ("AttributeError", "KeyError") and in_family(obs[2], k):
            return "reread", "%s: %s (sequentially: returns %r)" % (obs[1], obs[3], seq[1])
        return "unexpected-exception:" + obs[1], "%s: %s (sequentially: returns %r)" % (obs[1], obs[3], seq[1])
    if obs[0] == "ok" and seq[0] == "raise":
        return "lost-exception", "returned %r; sequentially raises %s: %s" % (obs[1], seq[1], seq[3])
    if obs[0] == "raise" and seq[0] == "raise":
        if obs[1] == seq[1] and in_family(obs[2], k) and in_family(seq[2], k) \
                and (obs[2] or "").split("_")[0] == (seq[2] or "").split("_")[0]:
            return "reread", "message names %r; sequentially it names %r (%s)" % (obs[2], seq[2], obs[3])
        if obs[1] in ("AttributeError", "KeyError") and in_family(obs[2], k):
            return "reread", "%s: %s (sequentially: %s: %s)" % (obs[1], obs[3], seq[1], seq[3])
        return "different-exception", "%s: %s; sequentially %s: %s" % (obs[1], obs[3], seq[1], seq[3])
    return "hung", "operation did not finish"


def replay_src(dev):
    k = KIND[dev["kind"]]
    return (class_source(k) + "# operations (one thread each): %r\n# schedule (thread, steps between pre-emption lines of the "
            "generated access table): %r\n" % (dev["inputs"], dev["segments"]))


# ------------------------------------------------------------------ Coq side: classification

HEADER = """From Coq Require Import List Arith Bool String. Import ListNotations.
From TP Require Import Check.C20chk.
Local Open Scope string_scope.
"""


def emit_tree(t, idx):
    if t[0] == "leaf":
        return "FLeaf"
    if t[0] == "struct":
        return "(FStruct %s)" % E.lst([emit_tree(x, idx) for x in t[1]])
    return "(FNode %d %s)" % (idx.get(t[1], 999), E.lst([emit_tree(x, idx) for x in t[2]]))


def coq_classification(sa):
    idx = {e["name"]: i for i, e in enumerate(sa["entries"])}
    body = "Eval vm_compute in (map snd table_verdicts).\n"
    for k in KINDS:
        body += "Eval vm_compute in (racy_nodes %s).\n" % emit_tree(k["tree"], idx)
    rc, out, err = core.eval_cases([body], "c20cls", HEADER)[0]
    vals = core.parse_eval(out)
    if rc != 0 or len(vals) != 1 + len(KINDS):
        return None, None, (out + err)[-1500:]
    codes = core.parse_nat_list(vals[0])
    verdicts = {e["name"]: codes[i] for i, e in enumerate(sa["entries"])}
    racy = {}
    for k, v in zip(KINDS, vals[1:]):
        racy[k["name"]] = [sa["entries"][i]["name"] if i < len(sa["entries"]) else "?" for i in core.parse_nat_list(v)]
    return verdicts, racy, ""


VERDICT_NAMES = {0: "SafePrivate", 1: "SafeIdempotent", 2: "Racy", 3: "CacheConst", 4: "Undecided", 5: "Toggle"}


# ------------------------------------------------------------------ traces for the correspondence

def cell_map(k, fld):
    """id(Field object) -> model cell, for the flat kinds"""
    from typedpy.structures import Field
    m = {id(fld): 0}
    items = getattr(fld, "items", None)
    flat = k["flat"]
    if flat in ("AllOf", "AnyOf", "OneOf", "NotField"):
        for i, f in enumerate(fld.get_fields()):
            m[id(f)] = 10 + i
    elif flat == "Map":
        m[id(items[0])] = 2
        m[id(items[1])] = 3
    elif flat in ("Tuple.Uniform",):
        m[id(items[0])] = 1
    elif isinstance(items, Field):
        m[id(items)] = 1
    elif isinstance(items, list):
        for i, f in enumerate(items):
            m[id(f)] = 10 + i
    return m


def enc_name(v, sa):
    if v is None:
        return []
    if v == FIELD:
        return [FCODE]
    for i, sfx in enumerate(sa["suffixes"]):
        if v == FIELD + sfx:
            return [FCODE, 100 + i]
    m = re.match(r"^%s_(\d+)$" % FIELD, v)
    if m:
        return [FCODE, int(m.group(1))]
    return [9, 9, 9]


def vlit(v):
    return "[" + "; ".join(str(x) for x in v) + "]"


def role_lines(sa, entry):
    """(file,line) ranges at which a READ of a sub-field's name is a modelled action"""
    rng = []
    for a in entry["acc"]:
        if a[1] == "RB":
            rng.append((os.path.join(core.REPO, a[4]), a[2], a[3]))
    srel, sl = sa["store"]
    for l, e_ in sl:
        rng.append((os.path.join(core.REPO, srel), l, e_))
    return rng


def reify_outcome(k, inp, result):
    """-> list of (iteration, slot) naming which member of the thread's OWN input each member of the
    result is; None if some member is not from the own input."""
    flat = k["flat"]
    try:
        if flat in ("AllOf", "AnyOf", "OneOf", "NotField"):
            return [] if canon(result) == canon(inp) else None
        if flat == "Map":
            keys, vals = list(inp.keys()), list(inp.values())
            out = []
            for rk, rv in result.items():
                out.append((vals.index(rv), 1))
                out.append((keys.index(rk), 0))
            return out
        src = list(inp)
        return [(src.index(x), 0) for x in result]
    except ValueError:
        return None


def trace_cases(rep, sa, bps, tier, rnd, verdicts):
    """Correspondence stream: real runs with logged accesses -> Coq cases."""
    idx = {e["name"]: i for i, e in enumerate(sa["entries"])}
    sch = S.Sched(bps)
    cases = []
    meta = []
    per_kind = 60 if tier == "quick" else 200
    nthreads = 2 if tier == "quick" else 3
    for k in KINDS:
        if "flat" not in k or k["flat"] not in idx or k.get("no_trace"):
            continue        # (ImmutableSet.__set__ chains into Set.__set__: two loops, outside the one-loop instantiation)
        entry = sa["entries"][idx[k["flat"]]]
        rng = role_lines(sa, entry)
        cls, ns = make_class(k)
        fld = cls.get_all_fields_by_name()[FIELD]
        cmap = cell_map(k, fld)
        objs = {c: o for o, c in cmap.items()}
        import ctypes  # noqa
        for valid_spec in ([(True,) * nthreads, (True, False) + (True,) * (nthreads - 2)]):
            def mk():
                ins_, ops_, its_ = [], [], []
                for t in range(nthreads):
                    n = SIZES[t]
                    v = k["val"](t, n)
                    if not valid_spec[t]:
                        v = k["bad"](v)
                    rv = realise(v, ns)
                    ins_.append(rv)
                    its_.append(k["fixed_bad"] if (not valid_spec[t] and "fixed_bad" in k) else
                                k.get("fixed", len(rv) if hasattr(rv, "__len__") and not isinstance(rv, str) else 1))
                    ops_.append((lambda rv=rv, t=t: getattr(cls(**{FIELD: rv, "s": "t%d" % t}), FIELD)))
                return ins_, ops_, its_
            ins0, ops0, _ = mk()
            counts = []
            for op in ops0:
                _, st, _, _ = sch.run([op], [])
                counts.append(st[0])
            scheds, _ = enum_schedules(counts, 2 if tier == "quick" else 3, per_kind // 2, rnd)
            for segs in scheds:
                inputs, ops, iters = mk()
                init = []
                byid = {}
                for f_ in [fld] + _subfields(fld):
                    byid[id(f_)] = f_
                for oid, c in cmap.items():
                    if c != 0:
                        init.append((c, enc_name(byid[oid].__dict__.get("_name"), sa)))
                with S.Instrument(log_reads=True) as ins:
                    ins.enabled = True
                    o, steps, executed, _ = sch.run(ops, segs)
                    ins.enabled = False
                    evs = ins.take()
                evl = []
                for (tid, kind, oid, attr, val, file, line) in evs:
                    if tid is None or attr != "_name" or oid not in cmap or cmap[oid] == 0:
                        continue
                    c = cmap[oid]
                    if kind == "W":
                        evl.append("EW %d %d %s" % (tid, c, vlit(enc_name(val, sa))))
                    elif any(file == f and lo <= line <= hi for f, lo, hi in rng):
                        evl.append("ER %d %d %s" % (tid, c, vlit(enc_name(val, sa))))
                status, obs = [], []
                for t in range(nthreads):
                    if o[t] is None:
                        status.append(2)
                        obs.append("None")
                    elif o[t][0] == "ok":
                        r = reify_outcome(k, inputs[t], o[t][1])
                        if r is None:
                            # a member that is not from the thread's own input: outside the model
                            status.append(2)
                            obs.append("None")
                            rep.finding("C20/%s/foreign-value" % k["name"],
                                        "the result of an operation contains a value that is not in its own input",
                                        {"kind": k["name"], "segments": executed, "observed": repr(o[t][1]),
                                         "input": repr(inputs[t]), "python": class_source(k)})
                        else:
                            status.append(0)
                            obs.append("(Some %s)" % E.lst(["(%d, %d)" % p for p in r]))
                    elif type(o[t][1]).__name__ in ("AttributeError", "KeyError"):
                        status.append(1)
                        obs.append("None")
                    else:
                        status.append(2)
                        obs.append("None")
                cases.append("{| c_entry := %d; c_f := %d; c_iters := %s; c_status := %s; c_init := %s;\n    c_evs := %s;\n"
                             "    c_obs := %s; c_unordered := %s |}"
                             % (idx[k["flat"]], FCODE, E.lst([str(x) for x in iters]), E.lst([str(x) for x in status]),
                                E.lst(["(%d, %s)" % (c, vlit(v)) for c, v in init]), E.lst(["(" + x + ")" for x in evl]),
                                E.lst(obs), E.blit(bool(k.get("unordered")))))
                meta.append({"kind": k["name"], "segments": executed, "valid": list(valid_spec),
                             "outcomes": [repr(outcome_of(x))[:200] for x in o], "python": class_source(k)})
                rep.count("traces", 1, (k["name"], tuple(executed), valid_spec))
                rep.stat("traces", "kind:" + k["name"])
    return cases, meta


def _subfields(fld):
    from typedpy.structures import Field
    out = []
    items = getattr(fld, "items", None)
    if isinstance(items, Field):
        out.append(items)
    elif isinstance(items, list):
        out += [x for x in items if isinstance(x, Field)]
    if hasattr(fld, "get_fields"):
        out += list(fld.get_fields())
    return out


# ------------------------------------------------------------------ dynamic cross-check of the table

def access_table_check(rep, sa):
    """Every write to an attribute of a Field object during real operations must be at a statement of
    the generated table.  -> extra breakpoints for lines that are not."""
    table = []
    for e in sa["entries"]:
        for a in e["acc"]:
            if a[1] in ("W", "A"):
                table.append((os.path.join(core.REPO, a[4]), a[2], a[3]))
    seen_w = collections.Counter()
    unknown = {}
    exercised = set()
    n_ops = 0
    for k in KINDS:
        cls, ns = make_class(k, "KA")
        with S.Instrument(log_reads=True) as ins:
            for opkind in OPKINDS:
                for valid in (True, False):
                    for t in (0, 1):
                        try:
                            op, _ = build_op(k, cls, ns, opkind, t, valid)
                        except Exception:  # noqa  (e.g. building the private instance failed)
                            continue
                        ins.enabled = True
                        try:
                            op()
                        except Exception:  # noqa
                            pass
                        ins.enabled = False
                        n_ops += 1
            for (tid, kind, oid, attr, val, file, line) in ins.take():
                if kind == "W":
                    hit = [r for r in table if r[0] == file and r[1] <= line <= r[2]]
                    if hit:
                        exercised.add(hit[0])
                        seen_w[(os.path.relpath(file, core.REPO), hit[0][1])] += 1
                    elif file.startswith(core.REPO):
                        unknown.setdefault((file, line, attr), k["name"])
                elif kind == "R":
                    pass
        rep.count("access-table", 1, k["name"])
    rep.cov["streams"].setdefault("access-table", {})["writes_by_table_line"] = {"%s:%d" % kk: v for kk, v in seen_w.items()}
    rep.cov["streams"]["access-table"]["operations"] = n_ops
    rep.obligation("regen:shared-access-complete", not unknown,
                   "%d operations; every write to a shared Field object happens at a table statement" % n_ops if not unknown
                   else "writes outside the generated table: " + "; ".join("%s:%d (%s, %s)" % (os.path.relpath(f, core.REPO), l, a, kn)
                                                                          for (f, l, a), kn in list(unknown.items())[:6]))
    wlines = [r for r in table]
    rep.obligation("regen:shared-access-exercised", len(exercised) * 2 >= len(wlines),
                   "%d of %d write statements of the table observed dynamically" % (len(exercised), len(wlines)))
    return [(f, l) for (f, l, a) in unknown], unknown


# ------------------------------------------------------------------ the model's witness, replayed

def witness_candidates(sa, name):
    """(k, j) pairs computed IN COQ: thread 0 (3 elements) runs k actions, thread 1 (2 elements) runs j
    actions, thread 0 finishes, thread 1 finishes - and the model's outcome of thread 0 differs from
    its sequential outcome."""
    idx = {e["name"]: i for i, e in enumerate(sa["entries"])}[name]
    body = """Definition e := nth %d shared_access {| v_name := "?"; v_file := ""; v_acc := [] |}.
Definition t0 := strip_self (instantiate e 7 3).
Definition t1 := strip_self (instantiate e 7 2).
Definition tr (k j : nat) : trace := (tag 0 (firstn k t0) ++ tag 1 (firstn j t1) ++ tag 0 (skipn k t0) ++ tag 1 (skipn j t1))%%list.
Definition dev (k j : nat) : bool :=
  negb (out_eqb false (model_outcome e 3 (obs_in (fun _ => []) (tr k j) 0)) (seq_outcome e 7 3)).
Eval vm_compute in (flat_map (fun k => flat_map (fun j => if dev k j then [k; j] else []) (seq 1 (List.length t1)))
                             (seq 1 (List.length t0))).
Eval vm_compute in (List.length t0, List.length t1).
""" % idx
    rc, out, err = core.eval_cases([body], "c20wit", HEADER)[0]
    vals = core.parse_eval(out)
    if rc != 0 or len(vals) != 2:
        return None, (out + err)[-1200:]
    flat = core.parse_nat_list(vals[0])
    return list(zip(flat[0::2], flat[1::2])), ""


def replay_witness(rep, sa, bps, name):
    """Translate the model's (k, j) into line-granular segments by counting the modelled accesses
    each thread has performed when it stops, run it, and compare with the sequential results."""
    k = KIND[name]
    cands, err = witness_candidates(sa, k["flat"])
    if cands is None:
        rep.broken("witness:" + name, "could not evaluate the witness search in Coq: " + err)
        return
    if not cands:
        rep.broken("witness:" + name, "the model classifies %s racy but finds no schedule changing the outcome" % name)
        return
    idx = {e["name"]: i for i, e in enumerate(sa["entries"])}
    entry = sa["entries"][idx[k["flat"]]]
    rng = role_lines(sa, entry)
    cls, ns = make_class(k, "KW")
    fld = cls.get_all_fields_by_name()[FIELD]
    cmap = cell_map(k, fld)
    sch = S.Sched(bps)

    def mk():
        vals = [realise(k["val"](t, SIZES[t]), ns) for t in (0, 1)]
        return vals, [(lambda v=v, t=t: getattr(cls(**{FIELD: v, "s": "t%d" % t}), FIELD)) for t, v in enumerate(vals)]

    # modelled accesses performed before each stop, per thread (running alone)
    before = []
    for t in (0, 1):
        _, ops = mk()
        counts_at_stop = []
        with S.Instrument(log_reads=True) as ins:
            ins.enabled = True
            w = S.Worker(0, ops[t], sch)

            # run alone, stop by stop, counting modelled events
            def modelled(evs):
                n = 0
                for (tid, kind, oid, attr, val, file, line) in evs:
                    if attr != "_name" or oid not in cmap or cmap[oid] == 0:
                        continue
                    if kind == "W" or any(file == f and lo <= line <= hi for f, lo, hi in rng):
                        n += 1
                return n
            w.start()
            total = 0
            while not w.finished:
                w.go.release()
                sch.ctl.acquire()
                total += modelled(ins.take())
                counts_at_stop.append(total)
            w.join(5)
            ins.enabled = False
        before.append(counts_at_stop)      # counts_at_stop[s-1] = accesses done after s steps
    tried = 0
    for (ka, ja) in cands:
        # steps after which exactly ka (resp. ja) modelled accesses have been performed
        s0 = [s + 1 for s, c in enumerate(before[0][:-1]) if c == ka]
        s1 = [s + 1 for s, c in enumerate(before[1]) if c == ja]
        if not s0 or not s1:
            continue            # not realisable at line granularity
        tried += 1
        vals, ops = mk()
        segs = [(0, s0[-1]), (1, s1[-1])]
        o, steps, executed, _ = sch.run(ops, segs)
        outs = [outcome_of(x) for x in o]
        seq = [("ok", canon(v)) for v in vals]
        rep.count("witness", 1, (name, ka, ja))
        if not same_outcome(outs[0], seq[0]):
            dev = {"kind": name, "ops": [["construct", True], ["construct", True]], "segments": executed,
                   "threads": [0], "observed": outs, "sequential": seq,
                   "inputs": [{"op": "construct", "thread": t, "valid": True, "value": repr(k["val"](t, SIZES[t]))} for t in (0, 1)],
                   "fresh_class": False, "model_witness": [ka, ja]}
            sym, what = symptom(dev, 0, k)
            rep.obligation("witness:" + name, True,
                           "model schedule (thread 0: %d accesses, thread 1: %d accesses) replayed as %r: %s" % (ka, ja, executed, what))
            key = "C20/%s/_name-reread" % k["flat"] if sym == "reread" else "C20/%s/%s" % (name, sym)
            rep.finding(key, "model witness replayed on the implementation: " + what, dict(dev, python=replay_src(dev)))
            return
    rep.obligation("witness:" + name, False, "%d line-realisable model witnesses replayed, none changed the outcome" % tried)
    rep.broken("witness:" + name, "the model predicts a deviating schedule for %s but none of the %d line-realisable "
               "witnesses deviates on the implementation" % (name, tried))


# ------------------------------------------------------------------ replay

def replay(obj):
    if obj.get("stream") == "lines" and "segments" in obj:
        from harness import c20lines as LN
        return LN.replay(obj)
    if "segments" not in obj or "kind" not in obj:
        print("nothing to replay on the implementation:", obj.get("what"))
        return 1
    from harness.genmods import shared_access as gen
    sa = gen.shared_access()
    bps = breakpoints(sa, [tuple(x) for x in obj.get("extra_breakpoints", [])])
    k = KIND[obj["kind"]]
    sch = S.Sched(bps)
    cls, ns = make_class(k)
    spec = [tuple(x) for x in obj["ops"]]

    def mk():
        c, n_ = (make_class(k) if obj.get("fresh_class") else (cls, ns))
        return [build_op(k, c, n_, ok, t, valid)[0] for t, (ok, valid) in enumerate(spec)]
    seq = []
    for op in mk():
        o, _, _, _ = sch.run([op], [])
        seq.append(outcome_of(o[0]))
    o, steps, executed, _ = sch.run(mk(), [tuple(x) for x in obj["segments"]])
    outs = [outcome_of(x) for x in o]
    print(class_source(k))
    print("operations:", spec)
    print("schedule (thread, steps):", executed)
    fails = 0
    for t in range(len(spec)):
        ok = same_outcome(outs[t], seq[t])
        print("thread %d: observed %r\n          required (sequential) %r   %s" % (t, outs[t], seq[t], "" if ok else "<-- DIFFERS"))
        fails += 0 if ok else 1
    if not fails:
        print("no clause of C20 fails on this schedule now")
    return 1 if fails else 0


# ------------------------------------------------------------------ caches and the every-line stream

HEADER2 = """From Coq Require Import List Arith Bool String. Import ListNotations.
From TP Require Import Check.C20chk Check.C20cachechk Check.C20classchk.
Local Open Scope string_scope.
"""

CVERDICT_NAMES = {0: "CacheSafe", 2: "CacheRacy", 4: "CacheUndecided"}


def coq_classification2(sa, ca, trees, classes=None):
    """racy validators inside every profile field; verdict / witness / placeholder line of every cache entry;
    class-level safety (Global/ClassModel.v) of every class profile"""
    idx = {e["name"]: i for i, e in enumerate(sa["entries"])}
    classes = classes or {}
    cnames = sorted(classes)
    body = ("Eval vm_compute in cache_verdicts.\nEval vm_compute in cache_witnesses.\nEval vm_compute in cache_placeholder_tags.\n"
            "Eval vm_compute in cache_removal_witnesses.\n")
    for (_, _, _, t) in trees:
        body += "Eval vm_compute in (racy_nodes %s).\n" % emit_tree(t, idx)
    for cn in cnames:
        body += "Eval vm_compute in (class_safe_of %s).\n" % E.lst([str(i) for i in classes[cn][0]])
    rc, out, err = core.eval_cases([body], "c20cls2", HEADER2)[0]
    vals = core.parse_eval(out)
    if rc != 0 or len(vals) != 4 + len(trees) + len(cnames):
        return None, (out + err)[-1500:]
    class_vals = vals[4 + len(trees):]
    rwit = core.parse_nat_list(vals[3])
    vals = vals[:3] + vals[4:4 + len(trees)]
    codes = core.parse_nat_list(vals[0])
    wit = core.parse_nat_list(vals[1])
    tags = core.parse_nat_list(vals[2])
    if len(codes) != len(ca["entries"]) or len(wit) != 5 * len(codes) or len(tags) != len(codes):
        return None, "the cache table in Coq (%d entries) differs from the generated one (%d)" % (len(codes), len(ca["entries"]))
    caches = []
    for i, e in enumerate(ca["entries"]):
        w = wit[5 * i:5 * i + 5]
        rw = rwit[5 * i:5 * i + 5] if len(rwit) == 5 * len(codes) else [0] * 5
        caches.append({"name": e["name"], "verdict": codes[i], "witness": w[1:] if w[0] else None, "tag": tags[i],
                       "removal": rw[1:] if rw[0] else None})
    racy = []
    for v in vals[3:]:
        racy.append([sa["entries"][i]["name"] if i < len(sa["entries"]) else "?" for i in core.parse_nat_list(v)])
    return {"caches": caches, "racy": racy,
            "class_safe": {cn: v.strip().startswith("true") for cn, v in zip(cnames, class_vals)}}, ""


def cache_stream(rep, ca, cls2, model_ok):
    """classification of the generated cache protocols (in scope: those the operations really touch), logged real
    accesses checked against the protocols in Coq, the model's witness replayed for racy entries"""
    from harness import c20lines as LN
    cases, touched, problems = LN.cache_traces(ca)
    in_scope = set(touched) | {i for i, e in enumerate(ca["entries"]) if e["kind"] in ("lru", "field-attr")}
    rep.cov["cache_table"] = [{"name": e["name"], "kind": e["kind"], "in_scope": i in in_scope,
                               "protocols": {pr["fn"]: [a[0] for a in pr["acts"]] for pr in e["progs"]},
                               "verdict": CVERDICT_NAMES.get(cls2["caches"][i]["verdict"], "?") if cls2 else "?"}
                              for i, e in enumerate(ca["entries"])]
    rep.obligation("regen:cache-table-complete", not problems,
                   "%d real calls touch %d cache(s); every accessing function is listed in the generated table" % (len(cases), len(touched))
                   if not problems else "; ".join(problems[:4]))
    for ei, pi, evs, meta in cases:
        rep.count("cache-traces", 1, (ei, pi, tuple(evs)))
        rep.stat("cache-traces", "%s:%s" % (meta["entry"], " ".join(evs) or "-"))
    if not model_ok or cls2 is None:
        return in_scope
    # correspondence in Coq
    if cases:
        body = "Definition cases : list cachecase := %s.\n" % E.lst(
            ["\n {| cc_entry := %d; cc_prog := %d; cc_evs := %s |}" % (ei, pi, E.lst(evs)) for ei, pi, evs, _ in cases])
        body += "Eval vm_compute in (cidx_where cache_mismatch cases 0).\nEval vm_compute in (cidx_where stores_nonfinal cases 0).\n"
        rc, out, err = core.eval_cases([body], "c20cache", HEADER2)[0]
        vals = core.parse_eval(out)
        if rc != 0 or len(vals) != 2:
            rep.obligation("correspondence:cache-traces", False, (out + err)[-600:])
            rep.broken("correspondence:cache-traces/coq-eval", (out + err)[-1500:])
        else:
            mism = core.parse_nat_list(vals[0])
            nonfinal = core.parse_nat_list(vals[1])
            rep.obligation("correspondence:cache-traces", not mism,
                           "%d real calls, %d whose logged accesses are not a run of the generated protocol; %d store a value "
                           "that is not the returned one" % (len(cases), len(mism), len(nonfinal)))
            rep.cov["streams"].setdefault("cache-traces", {})["nonfinal_store_calls"] = len(nonfinal)
            if mism:
                m = cases[mism[0]]
                rep.broken("correspondence:cache-traces",
                           "the logged accesses of %d real calls are not runs of the generated cache protocol (first: %s in %s at "
                           "lines %s: %s)" % (len(mism), m[3]["entry"], m[3]["function"], m[3]["lines"], " ".join(m[2])))
    # classification of what is in scope
    bad = []
    for i in sorted(in_scope):
        c = cls2["caches"][i]
        e = ca["entries"][i]
        if c["verdict"] == 0:
            continue
        bad.append("%s: %s" % (e["name"], CVERDICT_NAMES.get(c["verdict"], "?")))
        dev, tried = (None, 0)
        if c["verdict"] == 2 and c["tag"]:
            dev, tried = LN.cache_witness_replay(e, c["tag"])
        if dev is None and c["verdict"] == 2 and c.get("removal"):
            # check-then-read next to a removal site: (reader protocol, steps to its test, remover protocol, steps to its removal)
            ri, rsteps, qi, qsteps = c["removal"]
            try:
                reads = [a for a in e["progs"][ri]["acts"] if a[1] == "R"]
                clears = [a for a in e["progs"][qi]["acts"] if a[1] == "C"]
                rdev, rtried, rnote = LN.cache_removal_replay(e, reads[0][2], clears[0][2])
            except Exception as ex:  # noqa
                rdev, rtried, rnote = None, 0, "replay failed: %s: %s" % (type(ex).__name__, ex)
            tried += rtried
            if rdev is not None:
                t = rdev["threads"][0]
                sym, what, _ = LN.symptom(rdev, t)
                rep.count("cache-witness", rtried, e["name"])
                rep.finding("C20/cache/%s/removed-between-test-and-read" % e["name"],
                            "%s: the model's removal witness replayed on the implementation (the reader's key is cached; it is stopped "
                            "before line %d of %s, after its membership test hit; a second thread's burst of %s operations with distinct "
                            "keys reaches the removal at line %d; the reader resumes): thread %d (%s): %s"
                            % (e["name"], reads[0][2], e["file"], rdev["ops"][1][1], clears[0][2], t, rdev["ops"][t][0], what), rdev)
                continue
            bad[-1] += " (%s)" % rnote
        if dev is not None:
            t = dev["threads"][0]
            sym, what, _ = LN.symptom(dev, t)
            rep.count("cache-witness", tried, e["name"])
            rep.finding("C20/cache/%s/placeholder-visible" % e["name"],
                        "%s: the model's witness schedule replayed on the implementation (writer stopped right after line %d of %s, "
                        "which puts a value that is not the computed one into the cache; a second thread then runs): thread %d (%s): %s"
                        % (e["name"], c["tag"], e["file"], t, dev["ops"][t][0], what), dev)
        else:
            rep.broken("cache-protocol:" + e["name"],
                       "the generated protocol of %s is classified %s (%s) and %d replayed witness schedules show no deviating outcome"
                       % (e["name"], CVERDICT_NAMES.get(c["verdict"], "?"),
                          {pr["fn"]: [a[0] for a in pr["acts"]] for pr in e["progs"]}, tried))
    rep.obligation("regen:cache-protocols-safe", not bad,
                   "every cache the operations touch only ever holds completely computed values (C20_cache_classified_safe applies)"
                   if not bad else "; ".join(bad))
    return in_scope


def lines_stream(rep, tier, rnd):
    from harness import c20lines as LN
    t0 = time.time()
    results, ntasks = LN.run_stream(tier, rnd, core.NPROC)
    rep.cov["lines_stream_wall_s"] = round(time.time() - t0, 1)
    n_sched = n_dev = n_to = 0
    sites = set()
    errors = []
    st = rep.cov["streams"].setdefault("lines", {"evaluations": 0})
    for r in results:
        if r["error"]:
            errors.append("%s %s: %s" % (r["profile"], r["ops"], r["error"][-300:]))
            continue
        if r["skipped"]:
            rep.stat("lines", "skipped:%s:%s" % (r["profile"], r["skipped"][:60]))
            continue
        n_sched += r["schedules"]
        n_to += r["timeouts"]
        opsname = "+".join("%s:%s" % tuple(o) for o in r["ops"]) + ("/cold" if r["cold"] else "/warm")
        rep.count("lines", r["schedules"])
        for s_ in range(0, r["schedules"], max(1, r["schedules"] // 10)):
            rep.distinct.add(("lines", r["profile"], opsname, r["chunk"], s_))
        rep.stat("lines", "profile:" + r["profile"], r["schedules"])
        rep.stat("lines", "ops:" + opsname, r["schedules"])
        if r["chunk"] == 0:
            for sq in r["seq"] or []:
                rep.stat("lines", "alone-outcome:" + (sq[0] if sq[0] != "raise" else "raise:" + sq[1]))
        sites.update(tuple(x) for x in r["sites"])
        for d in r["deviations"]:
            p = LN.PROFILE[d["profile"]]
            for t in d["threads"]:
                mult = 1 + d.get("more", 0)
                n_dev += mult
                sym, what, f15 = LN.symptom(d, t)
                rep.stat("lines", "deviation:%s:%s%s" % (d["profile"], sym, ":F15-shaped" if f15 else ""), mult)
                if f15 and f15 in p.get("racy_internal", {}):
                    # the racy validator belongs to one of typedpy's own Structure classes (built internally by the operation)
                    key = "C20/%s/_name-reread/internal:%s" % (p["racy"][f15], p["racy_internal"][f15])
                elif f15 and p.get("racy", {}).get(f15):
                    key = "C20/%s/_name-reread" % p["racy"][f15]
                else:
                    key = "C20/lines/%s/%s" % (LN.site_of(d), sym)
                rep.finding(key, "%s, thread %d (%s, classes %s): %s" % (d["profile"], t, d["ops"][t][0],
                                                                         "cold" if d["cold"] else "warm", what), d)
    st["tasks"] = ntasks
    st["chunks"] = len(results)
    st["timeouts"] = n_to
    st["deviating_thread_outcomes"] = n_dev
    st["distinct_preemption_sites(file,function)"] = len(sites)
    st["files_with_preemptions"] = sorted({s_[0] for s_ in sites})
    rep.obligation("lines:explored", not errors and n_to * 50 <= max(1, n_sched),
                   "%d schedules (pre-emption at every typedpy line of %d operation pairs x class states), pre-empted inside %d distinct "
                   "functions of %d files; %d timeouts" % (n_sched, ntasks, len(sites), len({s_[0] for s_ in sites}), n_to)
                   if not errors else "; ".join(errors[:3]))
    if errors:
        rep.broken("lines-stream", "exploration tasks failed: " + "; ".join(errors[:3]))
    elif n_to * 50 > max(1, n_sched):
        rep.broken("lines-stream", "%d of %d schedules did not finish (an operation blocks while another is pre-empted)" % (n_to, n_sched + n_to))
    return n_sched


# ------------------------------------------------------------------ run

def run(rep, tier):
    from harness.genmods import shared_access as gen
    rnd = random.Random(core.seed() * 1000003 + 20)
    proofs_ok, model_ok = core.standard_proof_obligations(
        rep, "C20", ["theories/Check/C20chk.vo", "theories/Check/C20cachechk.vo", "theories/Check/C20classchk.vo",
                     "theories/Global/SharedNameProofs.vo", "theories/Global/CacheProofs.vo", "theories/Global/ClassModelProofs.vo"])
    rep.assumptions += [
        "PARTIAL: atomicity grain = source line (pre-emption points: the statements named in the generated "
        "shared-access table, the store lines of Field.__set__, every line of the cache-installing serializers, "
        "the mapper-cache lines); CPython may pre-empt between bytecodes, which only adds schedules",
        "theorems are about the thread model (Global/Threads.v); nested declarations are classified by tree_racy "
        "(no theorem at tree level) and checked by exploration",
        "lazily installed serializer closures are recognised syntactically (closure over the declaration only)",
        "caches: the theorems are about the slot model (Global/Cache.v: one key, protocols = lists of lookups/stores); "
        "which store is FINAL is recognised syntactically (the stored name is what the function returns afterwards) and "
        "cross-checked dynamically (the stored object IS the returned object, unchanged); lru_cache is CPython's",
        "lines stream: one pre-emption at every line boundary inside typedpy (quick: first and last occurrence of every "
        "distinct source line per operation; thorough: first/last 3 occurrences + sampled two-pre-emption schedules)",
    ]
    sa = gen.shared_access()
    # today's per-validator Examples (informational: a fix of typedpy changes them)
    ok_today, log_today, failed_today = core.build(["theories/Check/C20today.vo"]) if model_ok else (False, "", None)
    rep.cov["today_examples"] = "hold" if ok_today else "changed: %s" % failed_today
    verdicts, racy, err = (None, None, "model not built")
    if model_ok:
        verdicts, racy, err = coq_classification(sa)
    rep.obligation("model:classification-evaluated", verdicts is not None, err)
    if verdicts is None:
        rep.broken("model:classification", "could not evaluate the classification of the generated table in Coq: " + err)
        verdicts, racy = {}, {k["name"]: ["?"] for k in KINDS}
    rep.cov["table_verdicts"] = {n: VERDICT_NAMES.get(c, "?") for n, c in verdicts.items()}
    rep.cov["racy_validators_per_kind"] = racy
    undecided = [n for n, c in verdicts.items() if c == 4]
    rep.obligation("regen:shared-access-recognised", not undecided,
                   "every validator's access list is decided by the model" if not undecided
                   else "not decided (unrecognised construct / neither safe nor racy): " + ", ".join(undecided))

    # ---- caches: generated protocols, their classification, logged real accesses, witness replay
    from harness.genmods import cache_access as cgen
    from harness import c20lines as LN
    ca = cgen.cache_access()
    trees = LN.profile_field_trees()
    cls2, err2 = (None, "model not built")
    class_idx = LN.class_entry_indices(sa)
    if model_ok:
        cls2, err2 = coq_classification2(sa, ca, trees, class_idx)
    rep.obligation("model:cache-classification-evaluated", cls2 is not None, err2)
    if cls2 is None:
        rep.broken("model:cache-classification", "could not evaluate the classification of the generated cache table in Coq: " + err2)
        rep.cov["lines_racy_fields"] = LN.set_racy(trees, [["?"] if any(x in repr(t) for x in ("Array.Each", "Deque.Each", "Tuple.Uniform")) else []
                                                         for (_, _, _, t) in trees])
    else:
        rep.cov["lines_racy_fields"] = LN.set_racy(trees, cls2["racy"])
    cache_stream(rep, ca, cls2, model_ok)
    if cls2 is not None:
        # class level: C20_class_safe_all_schedules applies to the classes decided safe; it must agree with the per-field verdicts
        rep.cov["class_level_safe"] = {cn: {"fields_validators": [sa["entries"][i]["name"] for i in class_idx[cn][0]],
                                            "scalar_fields": class_idx[cn][1], "safe": cls2["class_safe"].get(cn)}
                                       for cn in sorted(class_idx)}
        incons = []
        for cn, (ids, _, unknown_v) in class_idx.items():
            flat_racy = [sa["entries"][i]["name"] for i in ids if verdicts.get(sa["entries"][i]["name"]) not in (0, 1)]
            if cls2["class_safe"].get(cn) != (not flat_racy) or unknown_v:
                incons.append("%s: class_safe_b=%s, fields not classified safe: %s, validators not in the table: %s"
                              % (cn, cls2["class_safe"].get(cn), flat_racy, unknown_v))
        rep.obligation("model:class-level-agrees-with-fields", not incons,
                       "%d classes: the class is decided safe exactly when every field's validator is (cells of different fields "
                       "are disjoint after renaming); safe today: %s" % (len(class_idx), sorted(c for c, v in cls2["class_safe"].items() if v))
                       if not incons else "; ".join(incons[:4]))
        if incons:
            rep.broken("model:class-level", "class-level decision and per-field classification disagree: " + "; ".join(incons[:4]))

    # ---- census: which module-level / class-level state do the operations write at all?
    census_unknown, census_all, census_ops = LN.shared_write_census(ca)
    rep.cov["shared_state_written_by_operations"] = ["%s %s.%s" % k for k in census_all]
    rep.count("census", census_ops, "ops")
    rep.obligation("regen:shared-state-census", not census_unknown,
                   "%d operations over %d class profiles write %d module-level / class-level names, all of them caches of the "
                   "generated table or attributes installed by the listed class-install functions"
                   % (census_ops, len(LN.PROFILES), len(census_all)) if not census_unknown
                   else "module-level / class-level state written by operations and not accounted for by the generated tables: "
                   + "; ".join("%s %s.%s" % k for k in census_unknown[:6]))

    # ---- dynamic cross-check of the generated table
    extra, unknown = access_table_check(rep, sa)
    bps = breakpoints(sa, extra)
    rep.cov["breakpoints"] = len(bps)

    # ---- schedule stream
    max_pre = 2 if tier == "quick" else 3
    cap = 260 if tier == "quick" else 600
    tasks = []
    for k in KINDS:
        for spec in op_tuples(tier):
            fresh = all(o in ("serialize", "fieldser") for o, _ in spec[:2])
            kcap = max(cap, 1600) if k.get("wrapper") and len(spec) == 2 else cap
            tasks.append((k["name"], spec, bps, max_pre, kcap, rnd.randrange(1 << 30), fresh))
    t0 = time.time()
    ctx = multiprocessing.get_context("fork")
    results = []
    with concurrent.futures.ProcessPoolExecutor(max_workers=core.NPROC, mp_context=ctx) as ex:
        for r in ex.map(explore_task, tasks, chunksize=1):
            results.append(r)
    rep.cov["schedule_stream_wall_s"] = round(time.time() - t0, 1)
    n_sched = 0
    nonexh = 0
    devs_by_kind = collections.defaultdict(list)
    for r in results:
        if r["error"]:
            rep.broken("schedule-stream:" + r["kind"], "exploration task failed: " + r["error"])
            continue
        if r.get("skipped"):
            rep.stat("schedules", "skipped:%s:%s" % (r["kind"], r["skipped"][:60]))
            continue
        n_sched += r["schedules"]
        nonexh += 0 if r["exhaustive"] else 1
        opsname = "+".join("%s%s" % (o, "" if v else "!") for o, v in r["ops"])
        rep.count("schedules", r["schedules"])
        for s_ in range(0, r["schedules"], max(1, r["schedules"] // 20)):
            rep.distinct.add(("schedules", r["kind"], opsname, s_))
        rep.stat("schedules", "kind:" + r["kind"], r["schedules"])
        rep.stat("schedules", "ops:" + opsname, r["schedules"])
        for i, sq in enumerate(r["seq"]):
            rep.stat("schedules", "sequential-outcome:" + (sq[0] if sq[0] != "raise" else "raise:" + sq[1]))
        for d in r["deviations"]:
            devs_by_kind[r["kind"]].append(d)
    rep.cov["streams"].setdefault("schedules", {})["tasks"] = len(tasks)
    rep.cov["streams"]["schedules"]["tasks_sampled_not_exhaustive"] = nonexh
    rep.cov["streams"]["schedules"]["max_preemptions"] = max_pre
    n_dev = 0
    for kname, devs in devs_by_kind.items():
        k = KIND[kname]
        predicted = racy.get(kname, [])
        for d in devs:
            for t in d["threads"]:
                n_dev += 1
                sym, what = symptom(d, t, k)
                rep.stat("schedules", "deviation:%s:%s" % (kname, sym))
                if sym == "reread" and predicted:
                    key = "C20/%s/_name-reread" % predicted[0]
                elif predicted:
                    key = "C20/%s/%s" % (kname, sym)
                else:
                    key = "C20/%s/unpredicted-%s" % (kname, sym)
                rep.finding(key, "%s, thread %d (%s): %s" % (kname, t, d["inputs"][t]["op"], what),
                            dict(d, python=replay_src(d), extra_breakpoints=[list(x) for x in extra]))
    rep.cov["streams"]["schedules"]["deviating_thread_outcomes"] = n_dev
    # a kind the model predicts racy must deviate under some explored schedule (else the model is wrong)
    for k in KINDS:
        if racy.get(k["name"]) and not devs_by_kind.get(k["name"]) and racy[k["name"]] != ["?"]:
            rep.broken("model:prediction:" + k["name"],
                       "the model predicts a race in %s (%s) but no explored schedule deviates" % (k["name"], racy[k["name"]]))
    rep.sample({"kind": "Array.Each", "class": class_source(KIND["Array.Each"]), "schedules_explored": n_sched})
    for kname, devs in list(devs_by_kind.items())[:3]:
        d = devs[0]
        rep.sample({"kind": kname, "schedule": d["segments"], "observed": repr(d["observed"])[:300],
                    "sequential": repr(d["sequential"])[:300]})

    # ---- every-line stream (class profiles, cold and warm class state)
    n_lines = lines_stream(rep, tier, rnd)
    rep.sample({"stream": "lines", "profile": LN.PROFILES[1]["name"], "classes": LN.PROFILES[1]["src"], "schedules_explored": n_lines})

    # ---- the model's witness schedule, replayed exactly
    if model_ok and verdicts:
        for k in KINDS:
            if k.get("flat") and verdicts.get(k["flat"]) == 2 and k["name"] == k["flat"]:
                replay_witness(rep, sa, bps, k["name"])

    # ---- trace stream: correspondence in Coq
    if model_ok:
        cases, meta = trace_cases(rep, sa, bps, tier, rnd, verdicts)
        per = 150
        shards = []
        for s_ in range(0, len(cases), per):
            body = "Definition cases : list ccase := %s.\n" % E.lst(["\n " + c for c in cases[s_:s_ + per]])
            body += "Eval vm_compute in (idx_where mismatch cases 0).\n"
            body += "Eval vm_compute in (idx_where deviates cases 0).\n"
            body += "Eval vm_compute in (idx_where unpredicted cases 0).\n"
            shards.append(body)
        res = core.eval_cases(shards, "c20", HEADER)
        mism, dev, unp = [], [], []
        bad_shard = None
        for si, (rc, out, err_) in enumerate(res):
            vals = core.parse_eval(out)
            if rc != 0 or len(vals) != 3:
                bad_shard = (si, (out + err_)[-1500:])
                continue
            mism += [si * per + i for i in core.parse_nat_list(vals[0])]
            dev += [si * per + i for i in core.parse_nat_list(vals[1])]
            unp += [si * per + i for i in core.parse_nat_list(vals[2])]
        rep.obligation("correspondence:traces", not mism and bad_shard is None,
                       "%d real traces, %d mismatches with the model; %d deviate from the sequential outcome "
                       "(all on validators classified racy: %s)" % (len(cases), len(mism), len(dev), not unp))
        rep.cov["streams"].setdefault("traces", {})["deviating_cases"] = len(dev)
        if bad_shard is not None:
            rep.broken("correspondence:traces/coq-eval", "case shard %d failed to evaluate: %s" % bad_shard)
        for i in unp:
            m = meta[i]
            rep.finding("C20/%s/unpredicted-deviation" % m["kind"],
                        "%s is classified safe by the model, yet a thread's outcome differs from its sequential outcome" % m["kind"],
                        {"kind": m["kind"], "ops": [["construct", v] for v in m["valid"]], "segments": m["segments"],
                         "observed": m["outcomes"], "python": m["python"], "fresh_class": False})
        for i in dev:
            if i not in unp:
                m = meta[i]
                rep.finding("C20/%s/_name-reread" % KIND[m["kind"]]["flat"],
                            "%s: outcome differs from the sequential outcome exactly as the model computes from the logged reads" % m["kind"],
                            {"kind": m["kind"], "ops": [["construct", v] for v in m["valid"]], "segments": m["segments"],
                             "observed": m["outcomes"], "python": m["python"], "fresh_class": False})
        if mism and not any(not v["no_input"] for v in rep.violations):
            m = meta[mism[0]]
            rep.broken("correspondence:traces",
                       "the logged accesses of %d real runs are not executions of the model instantiated from the generated "
                       "access list (first: %s)" % (len(mism), m["kind"]),
                       {"kind": m["kind"], "ops": [["construct", v] for v in m["valid"]], "segments": m["segments"],
                        "observed": m["outcomes"], "python": m["python"], "fresh_class": False})
    if unknown and not any(not v["no_input"] for v in rep.violations):
        rep.broken("regen:shared-access-complete",
                   "writes to shared Field objects outside the generated table and no deviating schedule found: %r" % list(unknown)[:5])
    if census_unknown and not any(not v["no_input"] for v in rep.violations):
        rep.broken("regen:shared-state-census",
                   "operations write shared module-level / class-level state that no generated table accounts for, and no deviating "
                   "schedule was found: " + "; ".join("%s %s.%s" % k for k in census_unknown[:6]))
    if undecided and not any(not v["no_input"] for v in rep.violations):
        rep.broken("regen:shared-access-recognised", "validators whose shared accesses the model cannot decide, and no deviating "
                   "schedule found: " + ", ".join(undecided))
    if not proofs_ok:
        from harness.props.c17 import broken_build
        broken_build(rep)
    return rep.finish(
        rule="schedules: every schedule with <= %d pre-emptions (at the lines of the generated access table) of 2-3 operations "
             "(construct/deserialize/setattr/serialize, valid and invalid inputs, distinct instances of one shared class) per field "
             "kind (%d kinds), capped at %d per operation tuple (then all schedules with fewer pre-emptions + a seeded sample); "
             "traces: the same for the flat kinds with all accesses logged and checked against the model in Coq; "
             "lines: %d class profiles (mappers, FastSerializable, nested, enum, trusted, inherited/immutable, wrappers) x operation "
             "pairs x cold/warm class state, one pre-emption at every line boundary inside typedpy, both roles; cache-traces: every "
             "real call of a cache-touching function with its accesses logged; "
             "distinct = distinct (kind, operation tuple, schedule bucket) / (kind, schedule, validity) / (profile, operations, chunk, bucket)"
             % (max_pre, len(KINDS), cap, len(LN.PROFILES)))
