"""C18 — rejections name the offending field; collect-all mode reports all invalid ones.

Streams: random argument sets; the enumerated lattice of harness/c18lattice.py (leaf kind x value class x
position); the validation chains of harness/c18guards.py (real field objects against the chains regenerated
into Gen/GuardProgs.v); nested documents.

Proof obligations: Props/C18.v (theorems over ALL names / value texts / argument lists; the template
table Gen/Templates.v is regenerated from the raise sites of the working tree on every run).
Tie to the code: (1) every observed field-level exception is re-rendered inside Coq from the generated
template of its raise site (found through the traceback) and compared with the real text, with and
without the class prefix, and with the element suffix the harness expects; (2) every observed
str(exception) is parsed by the model of typedpy/errors.py inside Coq and compared with the real
ErrorInfo; (3) the fail-fast / collect-all split of Structure.__init__ and of the deserializer is
compared with the model on the per-field outcomes.  The clauses of the statement are evaluated
directly on the implementation's behaviour (Python side) to yield replays."""
import collections
import json
import os
import random
import re
import traceback

from harness import core
from harness import coqemit as E
from harness import fieldgen as G
from harness import structgen as S
from harness.genmods import templates as gen
from harness import c18lattice as L

SCALARS = ("num", "str", "bool", "enumlit", "enumcls")
IMPORTS = G.IMPORTS + "from typedpy import Deserializer\n" + L.IMPORTS


# ------------------------------------------------------------------ generation of flat classes

def gen_scalar(rnd):
    while True:
        f = G.gen_field(rnd, 9, max_depth=0)
        if f["t"] not in SCALARS:
            continue
        if f["t"] == "enumlit":
            f["values"] = [v for v in f["values"] if v[0] in ("int", "str", "flt")] or [("int", 1)]
        return f


def gen_flat_field(rnd):
    r = rnd.random()
    if r < 0.42:
        return gen_scalar(rnd)
    if r < 0.60:
        return {"t": "seqeach", "k": rnd.choice(["list", "list", "deque"]), "item": gen_scalar(rnd),
                "sz": G.gen_sz(rnd), "uniq": rnd.random() < 0.2}
    if r < 0.70:
        return {"t": "seqpos", "k": rnd.choice(["list", "list", "deque"]),
                "items": [gen_scalar(rnd) for _ in range(rnd.randint(1, 3))], "sz": [None, None], "uniq": False,
                "additional": rnd.choice([None, False, True])}
    if r < 0.79:
        return {"t": "set", "imm": rnd.random() < 0.3, "item": gen_scalar(rnd), "sz": G.gen_sz(rnd)}
    if r < 0.88:
        return {"t": "tuple", "items": [gen_scalar(rnd) for _ in range(rnd.choice([1, 2, 2, 3]))], "uniq": False}
    kf = {"t": "str"} if rnd.random() < 0.6 else {"t": "num", "k": "Integer", "s": "Any"}
    return {"t": "mapkv", "kf": kf, "vf": gen_scalar(rnd), "sz": G.gen_sz(rnd)}


def gen_class(rnd, name):
    n = rnd.randint(2, 5)
    fields = [{"name": fn, "field": gen_flat_field(rnd)} for fn in S.NAMES[:n]]
    names = [fd["name"] for fd in fields]
    req = sorted(rnd.sample(names, rnd.randint(0, len(names))))
    return {"name": name, "fields": fields, "required": req, "additional": False}


def class_src(c):
    """Source of a class AST.  `shared_src` (harness/c18shared.py): the source as written by a user who binds a
    Field INSTANCE to a module-level name and uses it in several declarations."""
    return c["shared_src"] if c.get("shared_src") else S.class_src(c)


def realise(c):
    ns = {}
    exec(IMPORTS, ns)
    exec(class_src(c), ns)
    return ns[c["name"]], ns


# values of a class no scalar field accepts: unhashable ones, hashable containers, an enum member
ODD_VALUES = [("list", [("int", 1)]), ("list", []), ("dict", [(("str", "k"), ("int", 1))]), ("dict", []),
              ("set", False, [("int", 1)]), ("deque", [("int", 1)]), ("tuple", [("list", [])]),
              ("tuple", [("int", 1)]), ("tuple", []), ("set", True, [("int", 1)]), ("enum", "Color", "RED", ("int", 1))]


def wrong_type(g, rnd):
    if rnd.random() < 0.3:
        return rnd.choice(ODD_VALUES)
    return _wrong_type(g, rnd)


def _wrong_type(g, rnd):
    t = g["t"]
    if t == "num":
        return rnd.choice([("str", "zz"), ("str", "7"), ("list", [("int", 1)])]) if rnd.random() < 0.8 else ("none",)
    if t == "str":
        return rnd.choice([("int", 5), ("flt", 5, -1), ("bool", True), ("int", 0)])
    if t == "bool":
        return rnd.choice([("int", 7), ("str", "yes"), ("int", 0), ("str", "")])
    return rnd.choice([("str", "__nope__"), ("int", 987654)])


def wrong_container(f, rnd):
    t = f["t"]
    if t in ("seqeach", "seqpos"):
        return rnd.choice([("int", 5), ("str", "abc"), ("dict", [(("str", "k"), ("int", 1))]), ("int", 0), ("str", "")])
    if t == "set":
        return rnd.choice([("int", 5), ("str", "abc"), ("dict", [(("str", "k"), ("int", 1))])])
    if t == "tuple":
        return rnd.choice([("int", 5), ("str", "abc"), ("int", 0)])
    return rnd.choice([("int", 5), ("str", "abc"), ("list", [("int", 1)]), ("list", []), ("int", 0)])


def bound_violation(f, v, rnd):
    """A value of the right type that breaks a declared bound, or None."""
    t = f["t"]
    if t == "num":
        for _ in range(30):
            r = G.gen_number_for(rnd, f, want_valid=False)
            if r[0] in ("int", "flt") and not G.num_ok(f, r):
                if f["k"] == "Integer" and r[0] != "int":
                    continue
                return r
        return None
    if t == "str":
        opts = []
        if f.get("max") is not None:
            opts.append(("str", "x" * (f["max"] + 1 + rnd.randint(0, 2))))
        if f.get("min"):
            opts.append(("str", "x" * (f["min"] - 1)))
        if f.get("pat") is not None:
            rx = re.compile(G.PATTERNS[f["pat"]])
            bad = [s for s in G.STRINGS + ["q;r", "Q Q"] if not rx.match(s)]
            if bad:
                opts.append(("str", rnd.choice(bad)))
        return rnd.choice(opts) if opts else None
    if t in ("seqeach", "set", "mapkv") and v[0] in ("list", "deque", "set", "dict"):
        lo, hi = f["sz"]
        items = list(v[2] if v[0] == "set" else v[1])
        if lo and rnd.random() < 0.5:
            items = items[:lo - 1]
        elif hi is not None and items:
            k = 0
            while len(items) <= hi and k < 8:
                k += 1
                if t == "mapkv":
                    nk = ("str", "k%d" % k) if f["kf"]["t"] == "str" else ("int", 1000 + k)
                    items.append((nk, items[0][1]))
                elif t == "set":
                    x = G.gen_valid(rnd, f["item"])
                    items.append(x)
                    items = G.dedup(items)
                else:
                    items.append(items[rnd.randrange(len(items))])
            if len(items) <= hi:
                return None
        elif t == "seqeach" and f.get("uniq") and items:
            items.append(items[0])
        else:
            return None
        if t == "mapkv":
            return ("dict", items)
        if t == "set":
            return ("set", v[1], sorted(items, key=E.canon_key))
        return (v[0], items)
    if t in ("seqpos", "tuple") and v[0] in ("list", "deque", "tuple") and v[1]:
        items = list(v[1])
        if t == "tuple" and len(f["items"]) == 1:
            return None
        return (v[0], items[:-1])          # too short
    return None


def make_invalid(rnd, f, v):
    """(reified value, kind, expected element suffix () | (kind, ...) | None = unknown).
    A top-level None is never produced: null handling is the subject of other properties."""
    for _ in range(10):
        r = _make_invalid(rnd, f, v)
        if r[0][0] != "none" and not _has_special(r[0]):
            return r
    return ("str", "zz") if f["t"] != "str" else ("int", 5), "type", ()


def _has_special(r):
    """Non-finite floats, Decimals and opaque objects: their rejection class is C02's subject."""
    t = r[0]
    if t in ("other", "dec"):
        return True
    if t in ("list", "tuple", "deque"):
        return any(_has_special(x) for x in r[1])
    if t == "set":
        return any(_has_special(x) for x in r[2])
    if t == "dict":
        return any(_has_special(k) or _has_special(x) for k, x in r[1])
    return False


def _make_invalid(rnd, f, v):
    t = f["t"]
    kinds = ["type", "bound", "generic"]
    if t in ("seqeach", "seqpos", "tuple", "set") and (v[2] if v[0] == "set" else v[1]):
        kinds += ["elem", "elem", "elem"]
    if t == "mapkv" and v[0] == "dict" and v[1]:
        kinds += ["key", "val", "val"]
    if t in ("str", "bool", "enumlit", "enumcls") and rnd.random() < 0.08:
        kinds = ["newline"]
    kind = rnd.choice(kinds)
    if kind == "type":
        return (wrong_type(f, rnd) if t in SCALARS else wrong_container(f, rnd)), kind, ()
    if kind == "bound":
        b = bound_violation(f, v, rnd)
        if b is not None:
            return b, kind, ()
        kind = "generic"
    if kind == "newline":
        return ("str", rnd.choice(["a\nb", "line1\nline2;x", "\n", "zz\n"])), kind, ()
    if kind == "elem":
        if t == "set":
            items = [x for x in v[2]]
            items[rnd.randrange(len(items))] = wrong_type(f["item"], rnd)
            items = [x for x in items if G.is_hashable(x)]
            return ("set", v[1], sorted(G.dedup(items), key=E.canon_key)), kind, ()
        items = list(v[1])
        i = rnd.randrange(len(items))
        if t == "seqeach":
            g = f["item"]
        else:
            its = f["items"]
            if t == "tuple" and len(its) == 1:
                g = its[0]
            elif i < len(its):
                g = its[i]
            else:
                i = rnd.randrange(len(its))
                g = its[i]
        items[i] = wrong_type(g, rnd)
        return (v[0], items), kind, ("index", i)
    if kind in ("key", "val"):
        pairs = list(v[1])
        i = rnd.randrange(len(pairs))
        k, x = pairs[i]
        if kind == "key":
            bad = wrong_type(f["kf"], rnd)
            if not G.is_hashable(bad):
                bad = ("flt", 5, -1) if f["kf"]["t"] == "str" else ("str", "zz")
            pairs[i] = (bad, x)
            return G.mk_dict(pairs), kind, ("key",)
        pairs[i] = (k, wrong_type(f["vf"], rnd))
        return ("dict", pairs), kind, ("value",)
    try:
        return G.corrupt(rnd, f, v), "generic", None
    except Exception:  # noqa
        return G.gen_any(rnd), "generic", None


def jsonify(x):
    """Python value -> the document form handed to the Deserializer."""
    import enum as _enum
    if isinstance(x, _enum.Enum):
        return x.name
    if isinstance(x, (list, tuple, set, frozenset, collections.deque)):
        out = [jsonify(y) for y in x]
        if isinstance(x, (set, frozenset)):
            try:
                out.sort(key=repr)
            except Exception:  # noqa
                pass
        return out
    if isinstance(x, dict):
        return {jsonify_key(k): jsonify(v) for k, v in x.items()}
    return x


def jsonify_key(k):
    import enum as _enum
    return k.name if isinstance(k, _enum.Enum) else k


# ------------------------------------------------------------------ observation

TYPEDPY_DIR = os.path.join(core.REPO, "typedpy") + os.sep
_templates = None


def template_table():
    global _templates
    if _templates is None:
        _templates = gen.templates()
    return _templates


def origin_of(e):
    """(file relative to typedpy/, function, line, frame) of the innermost typedpy frame of e's traceback."""
    tb = e.__traceback__
    last = None
    while tb is not None:
        fn = tb.tb_frame.f_code.co_filename
        if fn.startswith(TYPEDPY_DIR):
            last = tb
        tb = tb.tb_next
    if last is None:
        return None
    fr = last.tb_frame
    return (os.path.relpath(fr.f_code.co_filename, TYPEDPY_DIR), fr.f_code.co_name, last.tb_lineno, fr)


def raise_statement_at(rel, line):
    """The template of the `raise` statement of typedpy/<rel> that spans `line`, or None: the exception
    then comes from the interpreter / a library while an expression of that line was evaluated."""
    for t in template_table():
        if t["file"] == rel and t["line"] <= line <= t["end_line"]:
            return t
    return None


def leaf_kind(obj):
    """The kind of the field object whose method raised, in the vocabulary of the generators: the class
    name, and for Enum (one class, two validation branches) which of the two it is."""
    if obj is None:
        return "-"
    name = type(obj).__name__
    if hasattr(obj, "_is_enum"):
        name += "[cls]" if getattr(obj, "_is_enum") else "[values]"
    return re.sub(r"[^A-Za-z0-9_\[\]]", "_", name)


def origin_key(e):
    """file:function:exception of the innermost typedpy frame.  An exception that no `raise` statement of
    typedpy produced (a comparison, a hash, an index that failed) is further keyed by WHICH kind of field
    was validating WHICH category of value (number / unhashable / other): one such key = one root cause, so that a known finding about one
    field kind never covers the same symptom appearing in another."""
    o = origin_of(e)
    if o is None:
        return "outside-typedpy:%s" % type(e).__name__
    rel, fn, line, fr = o
    if raise_statement_at(rel, line) is not None:
        return "%s:%s:%s" % (os.path.basename(rel), fn, type(e).__name__)
    # not tied to the name of the function the expression happens to live in: extracting a helper does not
    # turn a known defect into a new one
    loc = fr.f_locals
    val = loc["value"] if "value" in loc else loc.get("source_val", loc.get("val", _MISSING))
    return "%s:%s/%s/%s" % (os.path.basename(rel), type(e).__name__, leaf_kind(loc.get("self")),
                            "-" if val is _MISSING else value_category(val))


def value_category(v):
    """number | unhashable | other: what decides whether ordering / hashing / converting v can fail."""
    import decimal
    import numbers
    if isinstance(v, (numbers.Number, decimal.Decimal)):
        return "number"
    try:
        hash(v)
    except Exception:  # noqa
        return "unhashable"
    return "other"


_MISSING = object()


def site_of(e):
    """The template (dict) of the raise site that produced e, with the rendering arguments read from
    the raising frame, or None when e was not raised by a translated `raise` statement."""
    o = origin_of(e)
    if o is None:
        return None
    rel, _, line, fr = o
    for t in [raise_statement_at(rel, line)]:
        if t is not None:
            env = dict(fr.f_globals)
            loc = dict(fr.f_locals)
            params = {}
            path = None
            got = None
            for s in t["segs"]:
                try:
                    if s[0] == "field":
                        pv = eval(s[1], env, loc)  # noqa: S307 (expressions come from typedpy's own source)
                        if not pv:                 # a field object without _name: the err_prefix() idiom prints nothing
                            return {"t": t, "unrenderable": True}
                        path = str(pv)
                    elif s[0] == "value":
                        got = loc[s[2]]
                    elif s[0] == "param":
                        try:
                            params[s[1]] = str(eval(s[1], env, loc))  # noqa: S307
                        except NameError:
                            # `except ... as e:` unbinds e when the block is left, also by a raise: the handled
                            # exception is still reachable from the one it was turned into
                            m = re.fullmatch(r"(?:str\()?([A-Za-z_][A-Za-z0-9_]*)\)?", s[1])
                            if m and m.group(1) not in loc and e.__context__ is not None:
                                params[s[1]] = str(e.__context__)
                            else:
                                raise
                    elif s[0] == "other":
                        return {"t": t, "unrenderable": True}
                except Exception:  # noqa
                    return {"t": t, "unrenderable": True}
            return {"t": t, "path": path or "", "got": "" if got is None and path is None else str(got),
                    "got_is_str": isinstance(got, str), "params": params}
    return None


def root_cause(e):
    """The field-level exception behind a construction error (Structure.__init__ chains it)."""
    # one level: `raise e.__class__(f"{cls_name}.{e}") from e`.  What the field's own raise statement is chained
    # to in turn (`raise ValueError(...) from ex` inside a validator) is not the field-level exception.
    c = e.__cause__
    if c is not None and str(e).endswith("." + str(c)):
        return c
    return e


def observe_exception(e):
    """What the statement's observation points show of a rejection (called while the fail-fast
    switch is still as the operation ran)."""
    from typedpy.errors import standard_readable_error_for_typedpy_exception as helper
    raw = str(e)
    js = None
    try:
        d = json.loads(raw)
        if isinstance(d, list) and all(isinstance(x, str) for x in d):
            js = d
        else:
            js = ("other-json", type(d).__name__)
    except Exception:  # noqa
        js = None
    try:
        h = helper(e)
        hs = h if isinstance(h, list) else [h]
        out = []
        for ei in hs:
            p = ei.problem
            if isinstance(p, str):
                pr = ["match"] if p.startswith("Expected <re.Match object") else ["text", p]
            else:
                pr = ["list", len(p)]
            out.append({"field": ei.field, "value": ei.value, "problem": pr})
        hres = ["ok", out, isinstance(h, list)]
    except Exception as ex:  # noqa
        hres = ["raise", "%s: %s" % (type(ex).__name__, ex)]
    return {"raw": raw, "exn": type(e).__name__, "json": js, "helper": hres}


class Case:
    """A realised flat class + one argument set, with the per-field oracles."""

    def __init__(self, cast, kw, meta=None):
        self.cast = cast                  # class AST
        self.kw = kw                      # [(name, reified value)] supplied arguments
        self.meta = meta or {}            # name -> (kind, expected suffix) for the fields made invalid
        self.C, self.ns = realise(cast)      # for introspection only; every operation runs on a fresh() class
        self.fields = {fd["name"]: fd["field"] for fd in cast["fields"]}
        self.py = {k: G.unreify(v, {}) for k, v in kw}
        self.doc = {k: jsonify(v) for k, v in self.py.items()}

    def source(self):
        return IMPORTS + "from typedpy.errors import standard_readable_error_for_typedpy_exception\n\n" + \
            class_src(self.cast) + "\nkwargs = dict(%s)\n" % ", ".join("%s=%s" % (k, G.py_src(v)) for k, v in self.kw) + \
            "document = %r\n" % (self.doc,)

    def fresh(self):
        """A newly realised class: the field objects carry process-wide scratch state (`_name` of item
        fields, F15), so every operation and every oracle call starts from the state a new process has."""
        return realise(self.cast)[0]

    def bound_order(self):
        try:
            return list(self.C.__signature__.bind(**self.py).arguments.keys())
        except TypeError:
            return [k for k, _ in self.kw]

    def field_order(self):
        return [n for n in self.C.get_all_fields_by_name() if n in self.doc]


def run_op(case, mode, ff, kwargs=None, doc=None):
    """Runs construction / deserialization under the given fail-fast switch (restored afterwards).
    Returns None (accepted) or (exception, observation)."""
    from typedpy import Structure, Deserializer
    old = Structure.failing_fast()
    Structure.set_fail_fast(ff)
    try:
        try:
            if mode == "ctor":
                case.fresh()(**(case.py if kwargs is None else kwargs))
            else:
                Deserializer(case.fresh()).deserialize(dict(case.doc if doc is None else doc))
            return None
        except Exception as e:  # noqa
            return e, observe_exception(e)
    finally:
        Structure.set_fail_fast(old)


def field_oracles(case, baseline):
    """Per supplied field, one at a time over a valid baseline: what setattr says (ctor) and what the
    deserializer's pre-validation and then the constructor say (deser)."""
    from typedpy import Structure
    from typedpy.serialization.serialization import deserialize_single_field
    assert Structure.failing_fast()
    out = {}
    for n in case.py:
        o = {"ctor": None, "pre": None, "post": None, "falsy": not bool(case.doc[n])}
        kw1 = dict(baseline)
        kw1[n] = case.py[n]
        try:
            case.fresh()(**kw1)
        except Exception as e:  # noqa
            e0 = root_cause(e)
            o["ctor"] = {"outer": str(e), "inner": str(e0), "exn": type(e0).__name__, "origin": origin_key(e0),
                         "site": site_of(e0), "chained": e0 is not e, "te_ve": isinstance(e0, (TypeError, ValueError))}
        try:
            C2 = case.fresh()
            r = deserialize_single_field(C2.get_all_fields_by_name()[n], case.doc[n], n)
            kw2 = dict(baseline)
            kw2[n] = r
            try:
                C2(**kw2)
            except Exception as e:  # noqa
                e0 = root_cause(e)
                o["post"] = {"outer": str(e), "inner": str(e0), "exn": type(e0).__name__, "origin": origin_key(e0),
                             "site": site_of(e0), "chained": e0 is not e, "te_ve": isinstance(e0, (TypeError, ValueError))}
        except Exception as e:  # noqa
            o["pre"] = {"inner": str(e), "exn": type(e).__name__, "origin": origin_key(e), "site": site_of(e),
                        "te_ve": isinstance(e, (TypeError, ValueError))}
        out[n] = o
    return out


# ------------------------------------------------------------------ the statement's clauses

PATH_RX = re.compile(r"^[a-zA-Z0-9_.]+")


def names_field(cls, name, path):
    return re.fullmatch(r"(?:%s\.)?%s(?:_[0-9]+|_key|_value)?" % (re.escape(cls), re.escape(name)), path) is not None


def fields_named(cls, names, path):
    return [n for n in names if names_field(cls, n, path)]


def check_rejection(cls, invalid, obs, ff, tainted=frozenset(), uncaught=False):
    """Clauses of C18 on one observed rejection.  invalid: the invalid supplied fields; tainted: those
    whose own message is already reported as defective (their share of the clauses is not repeated:
    fail-fast runs with a tainted field are skipped, collect-all runs tolerate one anonymous message
    per tainted field and need not report it).  Returns (list of (clause, text), reported set)."""
    fails = []
    if ff and tainted:
        return fails, None
    if uncaught:
        return fails, None
    msgs = [obs["raw"]]
    if not ff:
        if isinstance(obs["json"], list):
            msgs = obs["json"]
    elif isinstance(obs["json"], list):
        fails.append(("json-list-in-fail-fast", "fail-fast mode raised the collect-all JSON list form: %r" % obs["raw"]))
    anonymous = 0
    for m in msgs:
        mm = PATH_RX.match(m)
        named = fields_named(cls, invalid, mm.group(0)) if mm else []
        if not named:
            anonymous += 1
            if anonymous > len(tainted):
                fails.append(("no-field-path", "message %r does not begin with a path naming an invalid supplied field %s"
                              % (m, sorted(invalid))))
    h = obs["helper"]
    if h[0] == "raise":
        fails.append(("helper-raises", "standard_readable_error_for_typedpy_exception raised %s" % h[1]))
        return fails, None
    reported = set()
    anonymous = 0
    for ei in h[1]:
        named = fields_named(cls, invalid, ei["field"]) if ei["field"] else []
        if not named:
            anonymous += 1
            if anonymous > len(tainted):
                fails.append(("helper-no-field", "ErrorInfo field %r names no invalid supplied field %s (message %r)"
                              % (ei["field"], sorted(invalid), obs["raw"])))
        reported.update(named)
        p = ei["problem"]
        if (p[0] == "text" and p[1] == "") or (p[0] == "list" and p[1] == 0):
            fails.append(("empty-problem", "ErrorInfo for %r has an empty problem" % ei["field"]))
    if ff:
        if len(h[1]) != 1:
            fails.append(("fail-fast-count", "fail-fast mode reported %d errors" % len(h[1])))
    else:
        flds = [ei["field"] for ei in h[1] if ei["field"]]
        if len(flds) != len(set(flds)) or len(h[1]) > len(invalid):
            fails.append(("duplicate-report", "an error is reported more than once: %r for invalid fields %s"
                          % ([ei["field"] for ei in h[1]], sorted(invalid))))
        if not (set(invalid) - set(tainted) <= reported <= set(invalid)):
            fails.append(("reported-set", "reported top-level fields %s != invalid supplied fields %s%s"
                          % (sorted(reported), sorted(invalid),
                             " (apart from %s, reported separately)" % sorted(tainted) if tainted else "")))
    return fails, reported


# ------------------------------------------------------------------ emission

def emit_args(site):
    return "{| r_path := %s; r_got := %s; r_got_is_str := %s; r_params := %s |}" % (
        E.pstr(site["path"]), E.pstr(site["got"]), E.blit(site["got_is_str"]),
        E.lst(["(%s, %s)" % (E.pstr(k), E.pstr(v)) for k, v in site["params"].items()]))


def emit_suffix(s):
    if not s:
        return "SNone"
    if s[0] == "index":
        return "(SIndex %s)" % E.nlit(s[1])
    return "SKey" if s[0] == "key" else "SValue"


def emit_exn_text(obs):
    if obs is None:
        return "None"
    js = obs["json"]
    return "(Some {| x_raw := %s; x_json := %s |})" % (
        E.pstr(obs["raw"]), E.opt(js if isinstance(js, list) else None, lambda l: E.lst([E.pstr(x) for x in l])))


def emit_obs_ei(ei):
    p = ei["problem"]
    pr = "(OText %s)" % E.pstr(p[1]) if p[0] == "text" else ("OMatchRepr" if p[0] == "match" else "OExpanded")
    return "{| o_field := %s; o_value := %s; o_problem := %s |}" % (E.opt(ei["field"], E.pstr), E.opt(ei["value"], E.pstr), pr)


HEADER = """From Coq Require Import ZArith NArith String List Bool. Import ListNotations.
From TP Require Import Base.PyVal Base.PyEq Base.PyOps Errors.Template Errors.Render Errors.Parse Errors.TemplateOk Errors.Collect
  Errors.Guard Errors.GuardSchema Errors.Switch Gen.GuardProgs Gen.SwitchSites Check.C18chk.
Local Open Scope string_scope.
"""


def eval_streams(rep, specs, streams, per=300, extra=None):
    """Evaluates the boolean functions of every stream over its emitted cases inside Coq, all shards of all
    streams in one parallel batch.  specs: [(name, case type, [function names])].
    Returns ({name: {fn: [indices]} | None}, [values of the `extra` commands] | None)."""
    shards = []
    owner = []
    for name, ctype, fns in specs:
        items = [x[0] for x in streams[name]]
        for s0 in range(0, len(items), per):
            body = "Definition cases : list %s := %s.\n" % (ctype, E.lst(["\n " + i for i in items[s0:s0 + per]]))
            for f in fns:
                body += "Eval vm_compute in (indices_where %s cases 0).\n" % f
            shards.append(body)
            owner.append((name, s0))
    if extra:
        shards.append("".join("Eval vm_compute in (%s).\n" % e for e in extra))
        owner.append(("__extra__", 0))
    import time as _t
    _t0 = _t.time()
    if os.environ.get("C18_KEEP"):
        os.makedirs(os.environ["C18_KEEP"], exist_ok=True)
        for i, (b, o) in enumerate(zip(shards, owner)):
            with open(os.path.join(os.environ["C18_KEEP"], "keep_%s_%d.v" % (o[0].strip("_"), i)), "w") as fh:
                fh.write(HEADER + "\n" + b)
    res = core.eval_cases(shards, "c18all", HEADER) if shards else []
    if os.environ.get("C18_TIMING"):
        print("[c18] coq evaluation: %d shards, %.1fs" % (len(shards), _t.time() - _t0))
    out = {name: {f: [] for f in fns} for name, _, fns in specs}
    fns_of = {name: fns for name, _, fns in specs}
    extra_vals = None
    for (name, s0), (rc, so, se) in zip(owner, res):
        vals = core.parse_eval(so)
        if name == "__extra__":
            extra_vals = vals if rc == 0 and len(vals) == len(extra) else None
            if extra_vals is None:
                rep.broken("correspondence:extra/coq-eval", "evaluation failed: %s" % (so + se)[-1500:])
            continue
        if out[name] is None:
            continue
        if rc != 0 or len(vals) != len(fns_of[name]):
            rep.broken("correspondence:%s/coq-eval" % name, "case shard at %d failed to evaluate: %s" % (s0, (so + se)[-1500:]))
            out[name] = None
            continue
        for f, v in zip(fns_of[name], vals):
            out[name][f] += [s0 + i for i in core.parse_nat_list(v)]
    return out, extra_vals


# ------------------------------------------------------------------ one argument set, all configurations

NESTED_SRC = """
class InnerN(Structure):
    x = PositiveInt
    s = String(maxLength=3)
    _required = ['x']

class OuterN(Structure):
    inner = InnerN
    arr = Array[InnerN]
    m = Map[String, InnerN]
    i = Integer
    _required = []
"""

NESTED_INPUTS = [
    {"inner": {"x": -1}}, {"inner": {"x": "a", "s": "toolong"}}, {"arr": [{"x": 1}, {"x": 0}]},
    {"arr": [{"x": 1, "s": 5}], "i": "q"}, {"m": {"k": {"x": -5}}}, {"inner": 5}, {"inner": {"y": 1}},
    {"arr": [3]}, {"inner": {"x": 1, "s": "a\nb"}}, {"m": {"k": 7}}, {"inner": {"x": -1, "s": "toolong"}, "i": 1.5},
    {"inner": {}}, {"arr": {"x": 1}},
]


NESTED3_SRC = """
class Leaf(Structure):
    x = PositiveInt
    s = String(maxLength=3)
    e = Enum(values=Color)
    a = Array[Integer]
    _required = ['x']

class Mid(Structure):
    leaf = Leaf
    leaves = Array[Leaf]
    by = Map[String, Leaf]
    n = Integer
    _required = []

class Top(Structure):
    mid = Mid
    mids = Array[Mid]
    pair = Tuple[Leaf, Integer]
    i = Integer
    _required = []
"""

_LEAF_BAD = {"x": [-1, 0, "a", [], 1.5, True], "s": ["toolong", 5, "a\nb", ["x"], ""], "e": ["NOPE", [1], 7, {"k": 1}],
             "a": [[1, "x"], 5, "12", [[1]], {"k": 1}]}


def _leaf(rnd):
    d = {"x": rnd.choice([1, 2, 7])}
    if rnd.random() < 0.7:
        d["s"] = rnd.choice(["ab", "", "abc"])
    if rnd.random() < 0.6:
        d["e"] = rnd.choice(["RED", "GREEN"])
    if rnd.random() < 0.6:
        d["a"] = rnd.choice([[1, 2], [], [3]])
    return d


def _mid(rnd):
    d = {}
    if rnd.random() < 0.7:
        d["leaf"] = _leaf(rnd)
    if rnd.random() < 0.6:
        d["leaves"] = [_leaf(rnd) for _ in range(rnd.randint(0, 3))]
    if rnd.random() < 0.5:
        d["by"] = {k: _leaf(rnd) for k in rnd.sample(["k", "m", "zz"], rnd.randint(0, 2))}
    if rnd.random() < 0.5:
        d["n"] = rnd.choice([0, 5])
    return d


def _top(rnd):
    d = {}
    if rnd.random() < 0.7:
        d["mid"] = _mid(rnd)
    if rnd.random() < 0.6:
        d["mids"] = [_mid(rnd) for _ in range(rnd.randint(0, 2))]
    if rnd.random() < 0.5:
        d["pair"] = [_leaf(rnd), rnd.choice([0, 3])]
    if rnd.random() < 0.5:
        d["i"] = 4
    return d


def _leaves_of(doc, acc):
    """every dict of the document that is a Leaf document (has 'x'), to be corrupted in place"""
    if isinstance(doc, dict):
        if "x" in doc:
            acc.append(doc)
        for v in doc.values():
            _leaves_of(v, acc)
    elif isinstance(doc, list):
        for v in doc:
            _leaves_of(v, acc)
    return acc


def _containers_of(doc, acc, parent=None, key=None):
    if isinstance(doc, (dict, list)):
        if parent is not None:
            acc.append((parent, key))
        for k, v in (doc.items() if isinstance(doc, dict) else enumerate(doc)):
            _containers_of(v, acc, doc, k)
    return acc


def gen_nested_docs(rnd, n):
    """Valid three-level documents with 1-3 point corruptions anywhere: a bad leaf value, a missing required
    key, an unknown key, a sub-document replaced by a scalar / a list / a string."""
    import copy
    out = []
    for _ in range(n):
        doc = _top(rnd)
        for _ in range(rnd.randint(1, 3)):
            leaves = _leaves_of(doc, [])
            r = rnd.random()
            if leaves and r < 0.55:
                lf = rnd.choice(leaves)
                f = rnd.choice(sorted(_LEAF_BAD))
                lf[f] = copy.deepcopy(rnd.choice(_LEAF_BAD[f]))
            elif leaves and r < 0.65:
                rnd.choice(leaves).pop("x", None)
            elif leaves and r < 0.75:
                rnd.choice(leaves)["zz"] = 1
            else:
                cs = _containers_of(doc, [])
                if cs:
                    parent, key = rnd.choice(cs)
                    parent[key] = copy.deepcopy(rnd.choice([5, "str", [], [3], {}, {"y": 1}, None, "a\nb"]))
                else:
                    doc["i"] = rnd.choice(["q", 1.5, [1]])
        out.append(doc)
    return out


def _to_obj(ns, cname, doc):
    """Builds the nested instances of a document for the construction path (any rejection propagates)."""
    if not isinstance(doc, dict):
        return doc
    C = ns[cname]
    sub = {"Top": {"mid": "Mid", "mids": ["Mid"], "pair": ("Leaf",)}, "Mid": {"leaf": "Leaf", "leaves": ["Leaf"], "by": {"": "Leaf"}},
           "Leaf": {}, "OuterN": {"inner": "InnerN", "arr": ["InnerN"], "m": {"": "InnerN"}}, "InnerN": {}}[cname]
    kw = {}
    for k, v in doc.items():
        t = sub.get(k)
        if isinstance(t, str):
            v = _to_obj(ns, t, v)
        elif isinstance(t, list) and isinstance(v, list):
            v = [_to_obj(ns, t[0], x) for x in v]
        elif isinstance(t, dict) and isinstance(v, dict):
            v = {a: _to_obj(ns, t[""], b) for a, b in v.items()}
        elif isinstance(t, tuple) and isinstance(v, list):
            v = tuple([_to_obj(ns, t[0], v[0])] + list(v[1:])) if v else ()
        kw[k] = v
    return C(**kw)


def nested_checks(rep, extra_docs=(), only=None):
    """For nested structures the helper must return without raising (all four configurations): the fixed
    two-level inputs and generated three-level documents.  only = (source name, doc) re-runs one input."""
    from typedpy import Structure, Deserializer
    n = 0
    groups = [("NESTED_SRC", NESTED_SRC, "OuterN", NESTED_INPUTS), ("NESTED3_SRC", NESTED3_SRC, "Top", list(extra_docs))]
    if only is not None:
        groups = [(g, src, top, [only[1]]) for g, src, top, _ in groups if g == only[0]]
    for gname, src, top, docs in groups:
        ns = {}
        exec(IMPORTS, ns)
        exec(src, ns)
        for doc in docs:
            for ff in (True, False):
                for mode in ("ctor", "deser"):
                    old = Structure.failing_fast()
                    Structure.set_fail_fast(ff)
                    try:
                        try:
                            if mode == "deser":
                                Deserializer(ns[top]).deserialize(dict(doc) if isinstance(doc, dict) else doc)
                            else:
                                _to_obj(ns, top, doc)
                            rep.stat("nested", "%s:%s:accepted" % (gname, mode))
                            continue
                        except Exception as e:  # noqa
                            obs = observe_exception(e)
                    finally:
                        Structure.set_fail_fast(old)
                    n += 1
                    rep.count("nested", 1, (gname, mode, ff, obs["exn"], obs["helper"][0] == "ok" and len(obs["helper"][1])))
                    rep.stat("nested", "%s:%s:%s" % (gname, mode, obs["exn"]))
                    if obs["helper"][0] == "raise":
                        rep.finding("C18/nested/%s/%s/helper-raises" % (mode, "ff" if ff else "all"),
                                    "helper raised on a nested-structure rejection: %s" % obs["helper"][1],
                                    {"nested": True, "group": gname, "doc": doc, "mode": mode, "ff": ff, "python": IMPORTS + src})
    return n


def evaluate_case(case, rep, streams, stats_only=False):
    """Runs the oracles and the 4 configurations of one argument set; evaluates the clauses; appends
    the emitted correspondence cases to `streams`.  Returns list of (key, text) spec failures."""
    cls = case.cast["name"]
    fails = []
    baseline = case.meta.get("__baseline__")
    orc = field_oracles(case, baseline)
    case.orc = orc
    inv_ctor = [n for n, o in orc.items() if o["ctor"]]
    inv_pre = [n for n, o in orc.items() if o["pre"]]
    inv_post = [n for n, o in orc.items() if o["post"]]
    inv_deser = sorted(set(inv_pre) | set(inv_post))

    # ---- render correspondence + per-field expectations
    for n, o in orc.items():
        for which in ("ctor", "pre", "post"):
            x = o[which]
            if not x:
                continue
            site = x["site"]
            if site is None or site.get("unrenderable"):
                rep.stat("render", "no-template:" + x["origin"])
                continue
            exp = case.meta.get(n, (None, None))[1] if which == "ctor" else None
            streams["render"].append((
                "{| rc_tid := %s; rc_cls := %s; rc_args := %s; rc_inner := %s; rc_outer := %s; rc_expect := %s |}" % (
                    E.nlit(site["t"]["id"]), E.pstr(cls), emit_args(site), E.pstr(x["inner"]),
                    E.pstr(x.get("outer", cls + "." + x["inner"])),
                    "None" if exp is None else "(Some (%s, %s))" % (E.pstr(n), emit_suffix(exp))),
                {"case": case, "field": n, "which": which, "site": "%s:%d" % (site["t"]["file"], site["t"]["line"])}))
            rep.stat("render", "site:%s:%s" % (site["t"]["cls"], site["t"]["func"]))

    # ---- which raise statement rejects a field that the deserializer's own validation let through
    for n, o in orc.items():
        if not o["pre"] and o["post"] and o["post"]["site"] is not None:
            streams.setdefault("ctoronly", []).append((E.nlit(o["post"]["site"]["t"]["id"]),
                                                       {"case": case, "field": n, "origin": o["post"]["origin"], "mode": "deser", "ff": False}))

    # ---- the four configurations
    for mode in ("ctor", "deser"):
        invalid = inv_ctor if mode == "ctor" else inv_deser
        for ff in (True, False):
            r = run_op(case, mode, ff)
            tag = "%s/%s" % (mode, "ff" if ff else "all")
            rep.stat("config", "%s:%s" % (tag, "accepted" if r is None else r[1]["exn"]))
            obs = r[1] if r else None
            # the switch is process-wide: set in one thread, validated (and the exception converted) in
            # another, the operation must end exactly as it does in one thread
            from harness import c18switch
            placement = c18switch.placement_of(case, mode, ff)
            r2 = c18switch.placed(case, mode, ff, placement)
            rep.stat("config", "placed:%s:%s" % (placement, "same" if (r2[1] if r2 else None) == obs else "DIFFERENT"))
            if (r2[1] if r2 else None) != obs:
                fails.append(("C18/%s/switch-not-process-wide/%s" % (tag, placement),
                              "with the switch set to fail_fast=%s in one thread and the operation run in another (%s) it ends in %s; "
                              "in a single thread it ends in %s" % (
                                  ff, placement, "acceptance" if r2 is None else "%s %r" % (r2[1]["exn"], r2[1]["raw"]),
                                  "acceptance" if r is None else "%s %r" % (obs["exn"], obs["raw"])), mode, ff))
            # construct / deserialize correspondence
            if mode == "ctor":
                args = E.lst(["(%s, %s)" % (E.pstr(n), E.opt(orc[n]["ctor"] and (orc[n]["ctor"]["inner"], orc[n]["ctor"]["te_ve"]),
                                                             lambda mc: "(%s, %s)" % (E.pstr(mc[0]), E.blit(mc[1]))))
                              for n in case.bound_order()])
                streams["construct"].append((
                    "{| cc_ff := %s; cc_cls := %s; cc_args := %s; cc_obs := %s |}" % (E.blit(ff), E.pstr(cls), args, emit_exn_text(obs)),
                    {"case": case, "mode": mode, "ff": ff}))
            else:
                def darg(n):
                    return "{| d_name := %s; d_pre := %s; d_ctor := %s; d_falsy := %s; d_caught := %s |}" % (
                        E.pstr(n), E.opt(orc[n]["pre"] and orc[n]["pre"]["inner"], E.pstr),
                        E.opt(orc[n]["post"] and orc[n]["post"]["inner"], E.pstr), E.blit(orc[n]["falsy"]),
                        E.blit(not orc[n]["pre"] or orc[n]["pre"]["te_ve"]))
                streams["deser"].append((
                    "{| dc_ff := %s; dc_cls := %s; dc_args := %s; dc_bound := %s; dc_obs := %s |}" % (
                        E.blit(ff), E.pstr(cls), E.lst([darg(n) for n in case.field_order()]),
                        E.lst(["(%s, %s)" % (darg(n), E.blit(not orc[n]["post"] or orc[n]["post"]["te_ve"]))
                               for n in case.bound_order()]), emit_exn_text(obs)),
                    {"case": case, "mode": mode, "ff": ff}))
            if obs is not None and obs["helper"][0] == "ok" and not isinstance(obs["json"], tuple):
                streams["parse"].append((
                    "{| pc_ff := %s; pc_x := %s; pc_obs := %s |}" % (
                        E.blit(ff), emit_exn_text(obs)[6:-1], E.lst([emit_obs_ei(ei) for ei in obs["helper"][1]])),
                    {"case": case, "mode": mode, "ff": ff}))
            # ---- clauses
            if not invalid:
                if obs is not None:
                    fails.append(("C18/%s/rejects-valid/%s" % (tag, origin_key(root_cause(r[0]))),
                                  "every supplied field is valid on its own but the operation raised %s: %s" % (obs["exn"], obs["raw"]),
                                  mode, ff))
                continue
            if obs is None:
                fails.append(("C18/%s/accepts-invalid" % tag, "fields %s are invalid on their own but the operation accepted" % invalid, mode, ff))
                continue
            tainted = taints(case, mode, ff, invalid)
            for n, (defect, x) in tainted.items():
                fails.append(("C18/%s/field-message/%s/%s/%s" % (mode, defect, case.fields[n]["t"], x["origin"]),
                              "field %s given %r: its own rejection message is %r (%s)" % (
                                  n, case.py[n] if mode == "ctor" else case.doc[n], x["inner"], DEFECT_TEXT[defect.split("/")[0]]),
                              mode, ff, n))
            uncaught = any(not x.get("te_ve", True) for _, x in tainted.values())
            cf, reported = check_rejection(cls, invalid, obs, ff, set(tainted), uncaught)
            for clause, text in cf:
                key = "C18/%s/%s" % (tag, clause)
                if clause == "reported-set" and mode == "deser" and not ff and reported is not None:
                    pre = {n for n in invalid if orc[n]["pre"]}
                    post_only = {n for n in invalid if not orc[n]["pre"] and orc[n]["post"]}
                    if pre and post_only and (set(invalid) - reported) <= post_only | set(tainted) and post_only - reported:
                        # errors that only the constructor detects are dropped when the pre-validation of the
                        # deserializer rejects another field (F19).  WHICH check is constructor-only is a fact about
                        # the code: one finding per lost error, keyed by the raise site that detects it, so that a check
                        # the deserializer used to run itself and now leaves to the constructor is not covered by F19.
                        for n in sorted(post_only - reported):
                            fails.append(("%s/constructor-only-error-lost/%s" % (key, orc[n]["post"]["origin"]),
                                          "%s; the error of field %s (%s) is detected by the constructor only: %r" % (
                                              text, n, case.fields[n]["t"], orc[n]["post"]["inner"]), mode, ff))
                        continue
                fails.append((key, text, mode, ff))
            # expected element suffix, when exactly this one element was corrupted
            if mode == "ctor" and ff and obs["helper"][0] == "ok" and not tainted:
                first = [n for n in case.bound_order() if n in invalid][0]
                exp = case.meta.get(first, (None, None))
                if exp[1] and exp[0] in ("elem", "key", "val") and obs["helper"][1][0]["field"]:
                    want = first + {"index": "_%s" % (exp[1][1] if exp[1][0] == "index" else ""), "key": "_key", "value": "_value"}[exp[1][0]]
                    got = obs["helper"][1][0]["field"]
                    if case.fields[first]["t"] != "set" and got not in (want, cls + "." + want):
                        fails.append(("C18/%s/element-suffix/%s" % (tag, case.fields[first]["t"]),
                                      "the only invalid element of %s is at %s but the reported path is %r" % (first, want, got), mode, ff))
    return fails


DEFECT_TEXT = {
    "no-field-path": "it does not begin with the field's path followed by ':'",
    "helper-no-field": "standard_readable_error_for_typedpy_exception finds no field in it",
    "json-list-in-fail-fast": "the value is falsy, so fail-fast deserialization collects the error and raises the JSON list form",
}


def _strings_in(v, acc=None):
    acc = [] if acc is None else acc
    if isinstance(v, str):
        acc.append(v)
    elif isinstance(v, dict):
        for k, x in v.items():
            _strings_in(k, acc)
            _strings_in(x, acc)
    elif isinstance(v, (list, tuple, set, frozenset, collections.deque)):
        for x in v:
            _strings_in(x, acc)
    return acc


def newline_shape(m, t):
    """WHERE in message m the value text t (which holds a line break) stands - the three patterns of errors.py
    treat the positions differently:
      value-last               the message ends with the value            ('<f>: Expected <class 'bool'>; Got <v>')
      semicolon-before-value   some ';' precedes the value                ('<f>: <problem>; Got <v>; ...')
      semicolon-in-value       '<f>: Got <v>; <problem>' and v itself holds a ';'  (pattern 1 stops at it)
      got-value-first          '<f>: Got <v>; <problem>', no ';' in v: pattern 1, whose value group takes line breaks"""
    i = m.find(t)
    before, after = m[:i], m[i + len(t):]
    if ";" in before:
        return "semicolon-before-value"
    if after.strip("'\")]}") == "":
        return "value-last"
    if re.fullmatch(r"[a-zA-Z0-9_.]+: Got [\[({'\"]*", before):
        return "semicolon-in-value" if ";" in t else "got-value-first"
    return "other"


def taints(case, mode, ff, invalid):
    """Invalid fields whose OWN rejection message (one-field-at-a-time oracle) already breaks a clause:
    name -> (defect, oracle entry).  Each is reported once, keyed by defect and raise site; the
    multi-field clauses are then evaluated modulo these fields."""
    from typedpy.errors import _standard_readable_error_for_typedpy_exception_internal as internal
    from typedpy import Structure
    out = {}
    cls = case.cast["name"]
    for n in invalid:
        x = case.orc[n]["ctor"] if mode == "ctor" else (case.orc[n]["pre"] or case.orc[n]["post"])
        if not x:
            continue
        m = x["inner"]
        mm = PATH_RX.match(m)
        own = bool(mm) and names_field(cls, n, mm.group(0)) and m[mm.end():mm.end() + 1] == ":"
        if not own:
            out[n] = ("no-field-path", x)
            continue
        assert Structure.failing_fast()
        try:
            ei = internal(m)
            named = bool(ei.field) and names_field(cls, n, ei.field)
        except Exception:  # noqa
            named = False
        if not named:
            # a newline that comes from the supplied value's own text (not from the message template)
            rest = m
            shape = None
            for t in sorted(_strings_in(case.py[n] if mode == "ctor" else case.doc[n]), key=len, reverse=True):
                if "\n" in t:
                    if shape is None and t in rest:
                        shape = newline_shape(rest, t)
                    rest = rest.replace(t, "")
            out[n] = ("helper-no-field" + ("/newline-in-value/%s" % (shape or "other")
                                           if "\n" in m and "\n" not in rest else ""), x)
        elif mode == "deser" and ff and case.orc[n]["pre"] and case.orc[n]["falsy"]:
            out[n] = ("json-list-in-fail-fast", x)
    return out


# ------------------------------------------------------------------ case generation

def gen_case(rnd, idx):
    """A class + an argument set with a random subset of the supplied fields made invalid."""
    for _ in range(20):
        cast = gen_class(rnd, "K%d" % idx)
        try:
            C, ns = realise(cast)
        except Exception:  # noqa  (declaration rejected: C12-C14's subject)
            continue
        valid = {}
        ok = True
        for fd in cast["fields"]:
            v = None
            for _ in range(25):
                try:
                    cand = G.gen_valid(rnd, fd["field"])
                    py = G.unreify(cand, {})
                    tmp_cast = {"name": "T", "fields": [{"name": fd["name"], "field": fd["field"]}], "required": [], "additional": False}
                    T, _ = realise(tmp_cast)
                    T(**{fd["name"]: py})
                    from typedpy import Deserializer
                    Deserializer(T).deserialize({fd["name"]: jsonify(py)})
                    v = cand
                    break
                except Exception:  # noqa
                    continue
            if v is None:
                ok = False
                break
            valid[fd["name"]] = v
        if not ok:
            continue
        req = cast["required"]
        supplied = [fd["name"] for fd in cast["fields"] if fd["name"] in req or rnd.random() < 0.7]
        if not supplied:
            supplied = [cast["fields"][0]["name"]]
        r = rnd.random()
        if r < 0.12:
            bad = []
        elif r < 0.50:
            bad = rnd.sample(supplied, 1)
        else:
            bad = rnd.sample(supplied, rnd.randint(1, len(supplied)))
        meta = {"__baseline__": {n: G.unreify(valid[n], {}) for n in supplied}}
        kw = []
        fields = {fd["name"]: fd["field"] for fd in cast["fields"]}
        for n in supplied:
            if n in bad:
                v, kind, exp = make_invalid(rnd, fields[n], valid[n])
                meta[n] = (kind, exp)
                kw.append((n, v))
            else:
                kw.append((n, valid[n]))
        try:
            return Case(cast, kw, meta)
        except Exception:  # noqa  unrealisable value
            continue
    raise RuntimeError("could not generate a case")


def case_replay_obj(case, mode, ff, only=None):
    meta = {k: v for k, v in case.meta.items() if k != "__baseline__"}
    if only is not None:
        # the one-field-at-a-time input: valid baseline, with field `only` as supplied
        kw = [(k, v if k == only else E.reify(case.meta["__baseline__"][k])) for k, v in case.kw]
        meta = {k: v for k, v in meta.items() if k == only}
        case = Case(case.cast, kw, dict(meta, __baseline__=case.meta["__baseline__"]))
    return {"cls_ast": case.cast, "kw": case.kw, "meta": meta, "mode": mode, "ff": ff,
            "baseline": [(k, E.reify(v)) for k, v in case.meta["__baseline__"].items()],
            "python": case.source() + (
                "from typedpy import Structure\nStructure.set_fail_fast(%r)\ntry:\n    %s\nexcept Exception as e:\n"
                "    print(type(e).__name__, str(e))\n    print(standard_readable_error_for_typedpy_exception(e))\n"
                "finally:\n    Structure.set_fail_fast(True)\n" % (
                    ff, "%s(**kwargs)" % case.cast["name"] if mode == "ctor"
                    else "Deserializer(%s).deserialize(document)" % case.cast["name"]))}


def _tuplify(x):
    if isinstance(x, list):
        return tuple(_tuplify(y) for y in x)
    return x


def _rereify(r):
    """JSON round trip turns the tagged tuples into lists; restore the shapes fieldgen expects."""
    t = r[0]
    if t in ("list", "tuple", "deque"):
        return (t, [_rereify(x) for x in r[1]])
    if t == "set":
        return (t, r[1], [_rereify(x) for x in r[2]])
    if t == "dict":
        return (t, [(_rereify(k), _rereify(v)) for k, v in r[1]])
    if t == "enum":
        return (t, r[1], r[2], _rereify(r[3]))
    return tuple(r)


def replay(obj):
    from typedpy import Structure
    if obj.get("nested"):
        class R:  # minimal report
            def count(self, *a, **k): pass
            def stat(self, *a, **k): pass
            def finding(self, key, what, o):
                print("FAILS    :", key, "-", what)
                self.n = getattr(self, "n", 0) + 1
        r = R()
        nested_checks(r, only=(obj.get("group", "NESTED_SRC"), obj["doc"]))
        return 1 if getattr(r, "n", 0) else 0
    if obj.get("shared_history"):
        from harness import c18shared
        return c18shared.replay(obj, _rereify)
    if obj.get("switch_history"):
        from harness import c18switch
        return c18switch.replay_history(obj)
    if "cls_ast" not in obj:
        print(obj.get("detail", "no concrete input in this replay file"))
        return 2
    kw = [(k, _rereify(v)) for k, v in obj["kw"]]
    meta = {k: (v[0], _tuplify(v[1]) if v[1] is not None else None) for k, v in obj.get("meta", {}).items()}
    meta["__baseline__"] = {k: G.unreify(_rereify(v), {}) for k, v in obj["baseline"]}
    case = Case(obj["cls_ast"], kw, meta)

    class Rep:
        def stat(self, *a, **k): pass
    streams = {"render": [], "construct": [], "deser": [], "parse": []}
    fails = evaluate_case(case, Rep(), streams)
    print(class_src(case.cast))
    print("kwargs   :", {k: v for k, v in case.py.items()})
    print("document :", case.doc)
    for mode in ("ctor", "deser"):
        for ff in (True, False):
            r = run_op(case, mode, ff)
            print("%-5s fail_fast=%-5s ->" % (mode, ff), "accepted" if r is None else "%s %r" % (r[1]["exn"], r[1]["raw"]))
            if r is not None:
                print("       helper ->", r[1]["helper"][1])
            from harness import c18switch
            pl = c18switch.placement_of(case, mode, ff)
            r2 = c18switch.placed(case, mode, ff, pl)
            if (r2[1] if r2 else None) != (r[1] if r else None):
                print("       %s ->" % pl, "accepted" if r2 is None else "%s %r" % (r2[1]["exn"], r2[1]["raw"]))
    want = obj.get("finding_key")
    hit = [f for f in fails if f[0] == want] or fails
    for f in hit:
        print("FAILS    :", f[0], "-", f[1])
    if not hit:
        print("no clause of C18 fails on this input now")
    assert Structure.failing_fast()
    return 1 if hit else 0


# ------------------------------------------------------------------ run

WS_MODEL = set(list(range(9, 14)) + list(range(28, 33)) + [133, 160, 5760] + list(range(8192, 8203)) + [8232, 8233, 8239, 8287, 12288])


def regex_oracle_checks(rep):
    """The character classes transcribed in Errors/Parse.v are those of the running `re` module, and
    errors.py still holds the three patterns the model transcribes."""
    rx = re.compile(r"\s")
    real = {c for c in range(0x110000) if rx.match(chr(c))}
    rep.obligation("oracle:re-whitespace-class", real == WS_MODEL, "symmetric difference %r" % sorted(real ^ WS_MODEL)[:8])
    import typedpy.errors as TE
    pats = (getattr(TE, "_pattern_for_typepy_validation_1", None), getattr(TE, "_pattern_for_typepy_validation_2", None),
            getattr(TE, "_pattern_for_typepy_validation_3", None), getattr(TE, "_expected_class_pattern", None))
    want = (r"^([a-zA-Z0-9_.]+): Got ([^;]*); (.*)$", r"^([a-zA-Z0-9_.]+):\s(.*); Got (.*)$", r"^([a-zA-Z0-9_.]+):\s(.*)$",
            r"^Expected\s<class '(.*)'>$")
    same = all(p is not None and p.pattern == w and p.flags == re.UNICODE for p, w in zip(pats, want))
    rep.obligation("source:errors.py-patterns-as-transcribed", same,
                   "" if same else "patterns now: %r" % [getattr(p, "pattern", None) for p in pats])
    return real == WS_MODEL, same


def run(rep, tier):
    from typedpy import Structure
    rnd = random.Random(core.seed() * 1000003 + 18)
    ncases = 260 if tier == "quick" else 2500
    import time as _t
    _t0 = _t.time()
    proofs_ok, model_ok = core.standard_proof_obligations(rep, "C18", ["theories/Check/C18chk.vo"])
    if os.environ.get("C18_TIMING"):
        print("[c18] proof obligations: %.1fs" % (_t.time() - _t0))
    rep.assumptions += [
        "json.dumps / json.loads are oracles: the model takes the decoded list of messages of a JSON-list exception text "
        "from the real json module (Section variable `dumps` in the theorems)",
        "C18_template_ok assumes identifier (ASCII) class and field names and no newline in the value text or in a parameter text",
        "try_expand (collect-all mode) is modelled only up to 'the problem text cannot start a JSON document'; other texts are PExpanded (not compared)",
        "repr of the re.Match object that _transform_class_to_readable interpolates for classes outside its table is opaque (PMatchRepr)",
        "the chain theorems (C18_rejection_is_templated) assume a field object that fits the schema of Errors/GuardSchema.v "
        "(compared with every generated field object) and speak about the validation chain up to Field.__set__: element "
        "wrappers of collections and Enum's conversion after validation are judged on observed behaviour only",
        "getattr(instance, '_skip_validation' | '_trust_supplied_values', False) is False (ordinary construction)",
    ]
    ws_ok, pats_ok = regex_oracle_checks(rep)
    assert Structure.failing_fast()
    streams = {"render": [], "construct": [], "deser": [], "parse": [], "guard": [], "ctoronly": [], "switch": []}
    all_fails = []
    cases = []
    for i in range(ncases):
        case = gen_case(rnd, i)
        cases.append(case)
        try:
            fails = evaluate_case(case, rep, streams)
        finally:
            Structure.set_fail_fast(True)
        ninv = sum(1 for n, o in case.orc.items() if o["ctor"])
        kinds = tuple(sorted(case.meta[n][0] for n in case.meta if n != "__baseline__"))
        shape = (tuple(sorted(G.shape(f) for f in case.fields.values())), kinds)
        rep.count("argument-set", 4, shape if ninv else None)
        rep.stat("argument-set", "invalid-fields:%d" % ninv)
        for k in kinds:
            rep.stat("argument-set", "corruption:" + k)
        for f in fails:
            key, text, mode, ff = f[:4]
            rep.finding(key, text, case_replay_obj(case, mode, ff, only=f[4] if len(f) > 4 else None))
            all_fails.append(key)
        if i < 2:
            rep.sample({"class": S.class_src(case.cast), "kwargs": {k: G.py_src(v) for k, v in case.kw},
                        "invalid_on_their_own": sorted(n for n, o in case.orc.items() if o["ctor"])})
    if os.environ.get("C18_TIMING"):
        print("[c18] random cases: %.1fs" % (_t.time() - _t0))
    # ---- the enumerated part of the input space: leaf kind x value class x position
    pts = L.points(tier, core.seed())
    npts = 0
    for label, cast, kw, meta, base in pts:
        try:
            case = Case(cast, kw, dict(meta, __baseline__={k: G.unreify(v, {}) for k, v in base.items()}))
        except Exception as ex:  # noqa   a combination typedpy does not let one declare (e.g. an unhashable key field)
            rep.stat("lattice", "undeclarable:%s:%s" % (label.split("|")[0] + "|" + label.split("|")[2], type(ex).__name__))
            continue
        cases.append(case)
        # every point is judged by the clauses; in the quick tier one point in three also feeds the
        # correspondence streams (the same model functions see every random case and every third point)
        npts += 1
        sink = streams if (tier != "quick" or npts % 3 == core.seed() % 3) else \
            {"render": streams["render"], "construct": [], "deser": [], "parse": [], "ctoronly": streams["ctoronly"]}
        try:
            fails = evaluate_case(case, rep, sink)
        finally:
            Structure.set_fail_fast(True)
        inv = bool(case.orc["a"]["ctor"] or case.orc["a"]["pre"] or case.orc["a"]["post"])
        rep.count("lattice", 4, label if inv else None)
        rep.stat("lattice", "position:%s:%s" % (label.split("|")[2], "invalid" if inv else "valid"))
        for f in fails:
            key, text, mode, ff = f[:4]
            rep.finding(key, text, case_replay_obj(case, mode, ff, only=f[4] if len(f) > 4 else None))
            all_fails.append(key)
    if os.environ.get("C18_TIMING"):
        print("[c18] with %d lattice points: %.1fs" % (len(pts), _t.time() - _t0))
    nn = nested_checks(rep, gen_nested_docs(rnd, 120 if tier == "quick" else 1200))
    if os.environ.get("C18_KEYS"):
        for k, n in sorted(collections.Counter(all_fails).items()):
            print("[c18] key %4d %s" % (n, k))
    assert Structure.failing_fast()
    rep.obligation("state:fail-fast-switch-restored", Structure.failing_fast(), "")

    # ---- Field instances shared between declarations x histories of operations on one class
    from harness import c18shared
    try:
        n_hist = c18shared.run(rep, tier, core.seed())
    finally:
        Structure.set_fail_fast(True)
    if os.environ.get("C18_TIMING"):
        print("[c18] with %d shared-instance histories: %.1fs" % (n_hist, _t.time() - _t0))
    if os.environ.get("C18_KEYS"):
        for v in rep.violations:
            if v["key"].startswith("C18/shared"):
                print("[c18] key %4d %s" % (v["count"], v["key"]))

    # ---- the switch itself: histories of set_fail_fast / failing_fast calls made by several threads
    from harness import c18switch
    try:
        streams["switch"] = c18switch.build(rep, rnd, tier)
    finally:
        Structure.set_fail_fast(True)

    # ---- the validation chains: real field objects against the generated guard programs
    from harness import c18guards
    try:
        streams["guard"] = c18guards.build(rep, rnd, tier)
    finally:
        Structure.set_fail_fast(True)
    if os.environ.get("C18_TIMING"):
        print("[c18] with %d guard cases: %.1fs" % (len(streams["guard"]), _t.time() - _t0))

    if model_ok:
        specs = [("render", "rcase", ["render_mismatch", "render_hyps"]),
                 ("parse", "pcase", ["parse_mismatch", "parse_unmodelled"]),
                 ("construct", "ccase", ["construct_mismatch", "construct_hyps"]),
                 ("deser", "dcase", ["deser_mismatch"]),
                 ("ctoronly", "N", ["ctor_only_unlisted"]),
                 ("switch", "scase", ["switch_mismatch", "switch_not_process_wide"]),
                 ("guard", "gcase", ["guard_mismatch", "guard_schema_bad", "guard_bare_under_hyps", "guard_hyps",
                                     "guard_unmodelled"])]
        results, extra = eval_streams(rep, specs, streams, extra=["obsolete_restrictions"])
        if extra is not None:
            obsolete = ["".join(chr(int(x)) for x in re.findall(r"\d+", grp))
                        for grp in re.findall(r"\[([^\[\]]*)\]", extra[0][1:-1] if extra[0].startswith("[") else "")]
            rep.obligation("guards:restricted-domains-still-needed", True,
                           "every restricted kind of Errors/GuardSchema.v is still rejected by the analysis on all values"
                           if not obsolete else "the chains of %s now pass the analysis on ALL values: their restriction "
                           "(a known defect) is obsolete and the kind can move to kinds_all_values" % ", ".join(obsolete))
        sres = results.get("switch")
        if sres:
            for i in sres["switch_not_process_wide"]:
                info = streams["switch"][i][1]
                rep.finding("C18/switch/not-process-wide",
                            "threads calling set_fail_fast / failing_fast: %s; failing_fast() answered %s, one process-wide switch "
                            "answers %s" % (info["events"], info["observed"], c18switch.documented(info["events"])),
                            {"switch_history": True, "events": info["events"]})
        # a guard case on which model and code differ, or a nameless exception where the theorem's hypotheses
        # hold, is re-run as an ordinary one-field argument set: the clauses give the concrete replay
        gres = results.get("guard")
        if gres:
            flagged = sorted(set(gres["guard_mismatch"]) | set(gres["guard_bare_under_hyps"]) | set(gres["guard_schema_bad"]))
            done = set()
            for i in flagged[:40]:
                info = streams["guard"][i][1]
                if "cast" not in info:
                    continue
                sig = (json.dumps(info["cast"], sort_keys=True, default=str), repr(info["r"]))
                if sig in done:
                    continue
                done.add(sig)
                try:
                    gcase = Case(info["cast"], [("a", info["r"])], {"__baseline__": {}})
                    gf = evaluate_case(gcase, rep, {"render": [], "construct": [], "deser": [], "parse": []})
                except Exception:  # noqa
                    continue
                finally:
                    Structure.set_fail_fast(True)
                for f in gf:
                    key, text, mode, ff = f[:4]
                    rep.finding(key, text, case_replay_obj(gcase, mode, ff, only=f[4] if len(f) > 4 else None))
        for name, ctype, fns in specs:
            items = streams[name]
            res = results.get(name)
            if res is None:
                continue
            mism = res[fns[0]]
            rep.count("correspondence:" + name, len(items))
            detail = "%d cases, %d mismatches" % (len(items), len(mism))
            if name == "render":
                rep.cov["streams"]["correspondence:render"]["theorem_hypotheses_hold"] = len(res["render_hyps"])
            if name == "parse":
                rep.cov["streams"]["correspondence:parse"]["outside_model_domain_skipped"] = len(res["parse_unmodelled"])
            if name == "construct":
                rep.cov["streams"]["correspondence:construct"]["theorem_hypotheses_hold"] = len(res["construct_hyps"])
            if name == "guard":
                st = rep.cov["streams"]["correspondence:guard"]
                st["theorem_hypotheses_hold"] = len(res["guard_hyps"])
                st["outside_model_domain_skipped"] = len(res["guard_unmodelled"])
                bad = res["guard_schema_bad"]
                rep.obligation("correspondence:guard/field-objects-fit-schema", not bad,
                               "%d cases, %d field objects outside the schema of Errors/GuardSchema.v" % (len(items), len(bad)))
                bare = res["guard_bare_under_hyps"]
                rep.obligation("correspondence:guard/no-nameless-exception-under-hypotheses", not bare,
                               "%d cases satisfy the hypotheses of C18_rejection_is_templated, %d of them ended in an "
                               "exception no raise statement produced" % (len(res["guard_hyps"]), len(bare)))
                mism = sorted(set(mism) | set(bad) | set(bare))
            rep.obligation("correspondence:" + name, not res[fns[0]], detail)
            if mism and os.environ.get("C18_DEBUG"):
                for i in mism[:12]:
                    inf = items[i][1]
                    print("[c18] MISMATCH", name, {k: v for k, v in inf.items() if k not in ("case", "cast")})
                    print("      ", items[i][0][:1500])
            if mism:
                explained = any(not v["no_input"] for v in rep.violations)
                info = items[mism[0]][1]
                if not explained:
                    model = {"render": "Render.v + Gen/Templates.v", "parse": "Parse.v", "construct": "Collect.v",
                             "deser": "Collect.v", "ctoronly": "Collect.v: ctor_only_sites",
                             "switch": "Switch.v + Gen/SwitchSites.v",
                             "guard": "Guard.v + Gen/GuardProgs.v + GuardSchema.v"}[name]
                    what = ("model (Errors/%s) and typedpy differ on %d of %d generated cases; no clause of C18 failed on "
                            "any explored input. First: %s" % (model, len(mism), len(items),
                                                               {k: v for k, v in info.items() if k not in ("case", "cast", "r")}))
                    if name == "guard":
                        rep.broken("correspondence:guard", what, {"guard_case": items[mism[0]][0][:3000]})
                    elif name == "switch":
                        rep.broken("correspondence:switch", what, {"switch_history": True, "events": info["events"]})
                    else:
                        c = info["case"]
                        rep.broken("correspondence:" + name, what,
                                   case_replay_obj(c, info.get("mode", "ctor"), info.get("ff", True)))
                else:
                    rep.obligation("correspondence:%s:explained-by-violation" % name, True,
                                   "mismatching cases accompany a concrete violation reported above")
    if not (ws_ok and pats_ok) and not any(not v["no_input"] for v in rep.violations):
        rep.broken("source:errors.py-patterns", "the regular expressions of typedpy/errors.py (or the \\s class of `re`) are no longer "
                   "those transcribed in Errors/Parse.v; no clause of C18 failed on any explored input")
    # the regex semantics itself (Errors/Regex.v, on which the C18_src_* theorems stand) against CPython's `re`:
    # the four patterns of errors.py as the source spells them NOW plus patterns exercising every AST node kind
    if model_ok:
        try:
            from harness import regexcorr
            n_rx, mm = regexcorr.run_regex_corr(rnd, 600 if tier == "quick" else 4000)
            rep.cov["streams"]["regex-semantics"] = {"evaluations": n_rx, "mismatches": len(mm)}
            rep.count("regex-semantics", n_rx, None)
            rep.obligation("correspondence:regex-semantics(Errors/Regex.v vs CPython re)", not mm,
                           "%d (pattern, subject) pairs, %d mismatches" % (n_rx, len(mm)))
            if mm and not any(not v["no_input"] for v in rep.violations):
                rep.broken("correspondence:regex-semantics", "the regex matcher of Errors/Regex.v and CPython's re differ",
                           {"first": mm[0]})
        except Exception as ex:  # noqa  (an untranslatable pattern is already reported through the build of RegexProofs)
            rep.obligation("correspondence:regex-semantics(Errors/Regex.v vs CPython re)", False, "not run: %r" % (ex,))
            if proofs_ok:
                rep.broken("correspondence:regex-semantics", "stream could not run: %r" % (ex,))
    if not proofs_ok:
        from harness.props.c17 import broken_build
        broken_build(rep)
        if not any(not v["no_input"] for v in rep.violations) and not getattr(rep, "build_failed", None):
            pass
    return rep.finish(
        rule="random: flat class (2-5 fields: scalars, Array/Deque/Set/Tuple/Map of scalars) + argument set with a random "
             "subset of supplied fields made invalid (wrong type incl. unhashable / unorderable values, bound, element at a chosen "
             "index, key, value, newline text, generic corruption); lattice: EVERY leaf kind (28: Number/Integer/Float x sign "
             "mix-ins and bounds, String, Boolean, Enum over values / over a class, short and long) x EVERY wrong-value class (22) "
             "at top level and in one (quick: rotating with the seed; thorough: every) position among Array/Deque item, positional "
             "item, Tuple, Set, Map key, Map value; each under construction and Deserializer, fail-fast on and off; guard: every "
             "leaf kind x (wrong-value classes + boundary values) and random scalar fields run through the real validation chain "
             "and through the generated chain inside Coq; accounting: every bound / sign / size / uniqueness / length violation of "
             "the right class in every position next to a field the deserializer rejects; shared: one Field instance used in two "
             "declarations (every ordered pair of positions x leaf kinds, quick: 2 rotating leaves) x a history of 5 argument sets on "
             "one class x 4 configurations; nested: fixed two-level and generated three-level documents with 1-3 "
             "point corruptions. distinct = distinct (field shapes, corruption kinds) / lattice point / (kind, value class, "
             "outcome); non-trivial = at least one invalid field")
