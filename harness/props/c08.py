"""C08 — the exported JSON schema is well-formed and admits every serialized valid instance.

Proof obligations: Props/C08.v.  Ties to the code (all compared inside Coq):
  1. model `to_schema` (Schema/ToSchema.v) vs the real `structure_to_schema` (JSON equality);
  2. model `valid4` / `wf_doc` (Schema/Draft4.v), run on the REAL export parsed into the model's
     syntax, vs the independent `jsonschema.Draft4Validator` (separate interpreter `python3-vt`);
  3. model serializer `ser_top` vs the real `serialize`.
Oracle of the property itself: the independent validator on real serializer output against the real
(dialect-translated) export, `check_schema` + $ref resolution; on the exact sub-fragment, documents near
the schema boundary: validator-accepts must imply Deserializer-accepts."""
import copy
import json
import math
import os
import random
import re
import subprocess

from harness import core
from harness import coqemit as E
from harness import fieldgen as G
from harness import structgen as S

VT = "python3-vt"
WORKER = os.path.join(os.path.dirname(os.path.dirname(os.path.abspath(__file__))), "c08_vt_worker.py")
NAMES = ["a", "b_c", "d", "e_f1", "g"]


# ------------------------------------------------------------------ generation

def gen_sfield(rnd, depth, classes, max_depth, hashable=False, optional_ok=True):
    """Field AST biased to the schema-mappable vocabulary (a few unmappable ones on purpose)."""
    sub = lambda **kw: gen_sfield(rnd, depth + 1, classes, max_depth, **kw)
    scal = [("num", 30), ("str", 16), ("bool", 6), ("enumlit", 6), ("enumcls", 6), ("any", 1), ("none", 1)]
    comp = [("seqany", 2), ("seqeach", 11), ("seqpos", 6), ("set", 6), ("tuple", 6), ("mapany", 2), ("mapkv", 8),
            ("allof", 3), ("anyof", 6), ("oneof", 3), ("not", 2), ("optional", 5)]
    if classes:
        comp.append(("ref", 9))
    table = list(scal)
    if depth < max_depth:
        if hashable:
            comp = [(k, w) for k, w in comp if k in ("tuple", "anyof", "ref")]
        table += [(k, w * (1.3 if depth == 0 else 0.7)) for k, w in comp]
    t = G.weighted(rnd, table)
    if t == "num":
        f = {"t": "num", "k": rnd.choice(["Number", "Integer", "Integer", "Float", "Float"]),
             "s": rnd.choice(["Any", "Any", "Any", "Positive", "Negative", "NonPositive", "NonNegative"])}
        c = G.gen_numc(rnd, f["k"])
        for key in ("min", "max"):                     # Decimal bounds are not JSON: outside the fragment
            if c.get(key) is not None and c[key][0] == "dec":
                c[key] = E.reify(float(G.unreify(c[key])))
        if c.get("mult") is not None and c["mult"] < 0:
            c["mult"] = -c["mult"]          # a non-positive multipleOf has no draft-4 counterpart: outside the fragment
        # an explicit bound on the side the sign already bounds replaces the sign in the export (NegativeInt(maximum=2)
        # is exported as maximum 2): the export is then too permissive, which oneOf/not observe.  Characterised in
        # the report; the generator keeps explicit bounds consistent with the sign.
        lo, hi = c.get("min"), c.get("max")
        if f["s"] in ("Positive", "NonNegative") and lo is not None:
            x = float(G.unreify(lo))
            if x < 0 or (x == 0 and f["s"] == "Positive"):
                del c["min"]
        if f["s"] in ("Negative", "NonPositive") and hi is not None:
            x = float(G.unreify(hi))
            if x > 0 or (x == 0 and f["s"] == "Negative"):
                del c["max"]
                c.pop("xmax", None)
        f.update(c)
        return f
    if t == "str":
        f = {"t": "str"}
        if rnd.random() < 0.35:
            f["min"] = rnd.choice([0, 1, 2, 3])
        if rnd.random() < 0.35:
            f["max"] = rnd.choice([1, 3, 4, 5, 11])
        if rnd.random() < 0.3:
            f["pat"] = rnd.randrange(len(G.PATTERNS))
        return f
    if t in ("bool", "none", "any"):
        return {"t": t}
    if t == "enumlit":
        pool = [1, 2, 3, "a", "abc", "x", 2.5, 0, "RED", 10]
        if rnd.random() < 0.08:
            pool += [None, (1, 2), True]
        return {"t": "enumlit", "values": [E.reify(v) for v in rnd.sample(pool, rnd.randint(1, 4))]}
    if t == "enumcls":
        cname = rnd.choice(sorted(G.ENUMS))
        names = [m.name for m in G.ENUMS[cname]]
        if rnd.random() < 0.35:
            names = sorted(rnd.sample(names, rnd.randint(1, len(names) - 1)), key=names.index)
        return {"t": "enumcls", "cls": cname, "members": names}
    kind = "list" if rnd.random() < 0.94 else "deque"
    if t == "seqany":
        return {"t": t, "k": kind, "sz": G.gen_sz(rnd), "uniq": rnd.random() < 0.3}
    if t == "seqeach":
        return {"t": t, "k": kind, "item": sub(), "sz": G.gen_sz(rnd), "uniq": rnd.random() < 0.2}
    if t == "seqpos":
        return {"t": t, "k": kind, "items": [sub() for _ in range(rnd.randint(1, 3))],
                "sz": G.gen_sz(rnd) if rnd.random() < 0.25 else [None, None], "uniq": rnd.random() < 0.1,
                "additional": rnd.choice([None, None, False, False, True])}
    if t == "set":
        return {"t": t, "imm": rnd.random() < 0.3, "item": sub(hashable=True) if rnd.random() < 0.85 else None,
                "sz": G.gen_sz(rnd)}
    if t == "tuple":
        return {"t": t, "items": [sub(hashable=hashable) for _ in range(rnd.choice([1, 2, 2, 3]))],
                "uniq": rnd.random() < 0.15}
    if t == "mapany":
        return {"t": t, "sz": G.gen_sz(rnd)}
    if t == "mapkv":
        r = rnd.random()
        if r < 0.62:
            kf = {"t": "str"}
        elif r < 0.92:
            kf = gen_sfield(rnd, 9, (), 0)
            while kf["t"] != "str":
                kf = gen_sfield(rnd, 9, (), 0)
        else:
            kf = {"t": "num", "k": "Integer", "s": "Any"}
        return {"t": t, "kf": kf, "vf": sub(), "sz": G.gen_sz(rnd) if rnd.random() < 0.3 else [None, None]}
    if t == "optional":
        return {"t": "anyof", "fs": [sub(hashable=hashable), {"t": "none"}]}
    if t in ("allof", "anyof", "oneof", "not"):
        return {"t": t, "fs": [sub(hashable=hashable) for _ in range(rnd.randint(1, 3))]}
    if t == "ref":
        return {"t": "ref", "cls": rnd.choice(list(classes))}
    raise ValueError(t)


def gen_class(rnd, name, classes, max_depth, wrapper=False, exact=False):
    n = 1 if wrapper else rnd.randint(1, 5)
    fields = []
    if exact:
        for fname in NAMES[:rnd.randint(2, 4)]:
            f = gen_sfield(rnd, 0, (), 1)
            while not exact_field(f):
                f = gen_sfield(rnd, 0, (), 1)
            fields.append({"name": fname, "field": f})
        names = [fd["name"] for fd in fields]
        c = {"name": name, "fields": fields, "additional": False}
        if rnd.random() < 0.5:
            c["required"] = sorted(rnd.sample(names, rnd.randint(1, len(names))))
        return c
    for fname in NAMES[:n]:
        f = gen_sfield(rnd, 0, classes, max_depth)
        fd = {"name": fname, "field": f}
        if not wrapper and f["t"] in ("num", "str", "bool", "enumlit", "enumcls") and rnd.random() < 0.2:
            fd["want_default"] = True
        fields.append(fd)
    names = [fd["name"] for fd in fields]
    c = {"name": name, "fields": fields}
    if wrapper:
        c["additional"] = False
        return c
    r = rnd.random()
    if r < 0.55:
        c["required"] = sorted(rnd.sample(names, rnd.randint(0 if rnd.random() < 0.35 else 1, len(names))))
        # a field with a default is never listed in an explicit _required (typedpy drops it from _required lazily,
        # so the class facts would differ between definition time and export time)
        c["required"] = [k for k in c["required"] if not any(fd["name"] == k and fd.get("want_default") for fd in fields)]
    c["additional"] = rnd.choice([False, False, True, None])
    r = rnd.random()
    if r < 0.2:
        c["mapper"] = "camel"
    elif r < 0.4:
        ks = rnd.sample(names, rnd.randint(1, len(names)))
        c["mapper"] = {k: k.upper() + "_x" for k in ks}
    return c


def class_src(c):
    src = S.class_src({k: v for k, v in c.items() if k != "mapper"})
    m = c.get("mapper")
    if m == "camel":
        src += "    _serialization_mapper = mappers.TO_CAMELCASE\n"
    elif m:
        src += "    _serialization_mapper = %r\n" % m
    return src


class Env(S.Context):
    """Context with generated classes appended one by one (each may reference the earlier ones)."""

    def __init__(self):
        super().__init__()
        exec("from typedpy import mappers\n", self.ns)
        self.required0 = {}

    def add(self, c):
        exec(class_src(c), self.ns)
        self.asts.append(c)
        self.classes[c["name"]] = self.ns[c["name"]]

    def source(self):
        return "from typedpy import mappers\n" + "".join(class_src(c) + "\n" for c in self.asts)

    def snapshot_required(self):
        for n, cls in self.classes.items():
            r = cls.__dict__.get("_required")
            if isinstance(r, list):
                self.required0[n] = list(r)

    def restore_required(self):
        """structure_to_schema edits the class's _required list in place (reported separately)."""
        changed = []
        for n, r0 in self.required0.items():
            r = self.classes[n].__dict__.get("_required")
            if isinstance(r, list) and r != r0:
                changed.append(n)
                r[:] = r0
        return changed

    def renames(self, name):
        from typedpy.serialization.mappers import aggregate_serialization_mappers
        cls = self.classes[name]
        m = aggregate_serialization_mappers(cls, None) or {}
        fields = set(cls.get_all_fields_by_name().keys())
        return [(k, v) for k, v in m.items() if k in fields and isinstance(v, str) and v != k]

    def coq_smap(self, effective=False):
        eff = self.effective_renames() if effective else {}
        return E.lst(["(%s, %s)" % (E.pstr(c["name"]), E.lst(["(%s, %s)" % (E.pstr(k), E.pstr(v))
                                                              for k, v in eff.get(c["name"], self.renames(c["name"]))]))
                      for c in self.asts])

    def effective_renames(self):
        """Renames the serializer applies to instances of classes nested under the top class: the top class's
        aggregated mapper carries '<field>._mapper' entries for them (e.g. TO_CAMELCASE propagates)."""
        from typedpy.serialization.mappers import aggregate_serialization_mappers
        out = {}

        def refs(f, acc):
            if f["t"] == "ref":
                acc.add(f["cls"])
            for key in ("item", "vf"):
                if isinstance(f.get(key), dict):
                    refs(f[key], acc)
            for key in ("items", "fs"):
                for g in f.get(key) or []:
                    refs(g, acc)
            return acc

        def walk(cname, m):
            fields = {fd["name"]: fd["field"] for fd in self.all_fields(cname)}
            for k, v in (m or {}).items():
                if k.endswith("._mapper") and isinstance(v, dict) and k[:-8] in fields:
                    for rn in refs(fields[k[:-8]], set()):
                        if rn in self.classes and rn not in out:
                            fn = set(self.classes[rn].get_all_fields_by_name().keys())
                            out[rn] = [(a, b) for a, b in v.items() if a in fn and isinstance(b, str) and b != a]
                            walk(rn, v)

        walk(self.top, aggregate_serialization_mappers(self.classes[self.top], None) or {})
        return out

    def wrapper_form(self, name):
        r = self.resolved(name)
        return len(r["field_names"]) == 1 and r["required"] == r["field_names"] and not r["additional"]


def materialise_defaults(rnd, c, env):
    for fd in c["fields"]:
        if fd.pop("want_default", False):
            for _ in range(6):
                v = G.gen_valid(rnd, fd["field"], env.instances)
                if v[0] in ("int", "flt", "str", "bool", "enum") and (v[0] != "int" or v[1] != 0) and v != ("str", "") \
                        and v != ("bool", False) and not (v[0] == "flt" and v[1] == 0):
                    fd["default"] = v       # truthy defaults only (falsy ones are a separate defect, F12)
                    break


def reify_stored(v):
    """Stored attribute values -> reified; sets keep their iteration order (it is the serialization order)."""
    from typedpy import Structure
    if isinstance(v, Structure):
        return ("struct", type(v).__name__, [(k, reify_stored(x)) for k, x in v.__dict__.items()
                                             if k not in S.INTERNAL and x is not None])
    if isinstance(v, (set, frozenset)):
        return ("set", isinstance(v, frozenset), [reify_stored(x) for x in v])
    if isinstance(v, tuple):
        return ("tuple", [reify_stored(x) for x in v])
    import collections
    if isinstance(v, collections.deque):
        return ("deque", [reify_stored(x) for x in v])
    if isinstance(v, list):
        return ("list", [reify_stored(x) for x in v])
    if isinstance(v, dict):
        return ("dict", [(reify_stored(k), reify_stored(x)) for k, x in v.items()])
    return E.reify(v)


# ------------------------------------------------------------------ JSON helpers

def is_jsonable(x):
    try:
        json.dumps(x, allow_nan=False)
        return True
    except Exception:  # noqa
        return False


def fix_dialect_py(s):
    """typedpy's two dialect spellings -> draft 4 (independent of the Coq model)."""
    if isinstance(s, list):
        return [fix_dialect_py(x) for x in s]
    if not isinstance(s, dict):
        return s
    out = {}
    for k, v in s.items():
        if k in ("enum", "default"):
            out[k] = v
        elif k == "multiplesOf":
            out["multipleOf"] = v
        elif k == "not" and isinstance(v, list):
            out["not"] = {"anyOf": fix_dialect_py(v)}
        else:
            out[k] = fix_dialect_py(v)
    return out


def run_vt(jobs):
    p = subprocess.run([VT, WORKER], input=json.dumps({"jobs": jobs}), capture_output=True, text=True, timeout=600)
    if p.returncode != 0:
        raise RuntimeError("python3-vt worker failed: " + p.stderr[-1500:])
    return json.loads(p.stdout)["results"]


# ------------------------------------------------------------------ real JSON schema -> model syntax

class Pats:
    """pattern text <-> oracle id; ids below len(G.PATTERNS) are the generator's."""

    def __init__(self):
        self.texts = list(G.PATTERNS)

    def pid(self, text):
        if text not in self.texts:
            self.texts.append(text)
        return self.texts.index(text)

    def ptable(self):
        return E.lst(["(%s, %s)" % (E.nlit(i), E.pstr(t)) for i, t in enumerate(self.texts)])


JT = {"object": "TObject", "array": "TArray", "string": "TString", "number": "TNumber", "integer": "TInteger",
      "boolean": "TBoolean", "null": "TNull"}


def jval(x):
    return E.pval(E.reify(x))


def emit_num(x):
    return G.emit_num(E.reify(x))


def emit_schema(s, pats):
    if not isinstance(s, dict):
        raise ValueError("schema is not an object: %r" % (s,))
    kws = []
    sub = lambda x: emit_schema(x, pats)
    for k, v in s.items():
        if k == "type":
            kws.append("KType %s" % JT[v])
        elif k == "properties":
            kws.append("KProperties %s" % E.lst(["(%s, %s)" % (E.pstr(n), sub(x)) for n, x in v.items()]))
        elif k == "required":
            kws.append("KRequired %s" % E.lst([E.pstr(n) for n in v]))
        elif k == "additionalProperties":
            kws.append("KAddProps %s" % E.blit(v) if isinstance(v, bool) else "KAddPropsS %s" % sub(v))
        elif k == "patternProperties":
            if isinstance(v, dict) and all(isinstance(x, dict) for x in v.values()):
                kws.append("KPatProps %s" % E.lst(["(%s, %s)" % (E.nlit(pats.pid(n)), sub(x)) for n, x in v.items()]))
            else:
                kws.append("KBadPatProps %s" % sub(v))
        elif k == "items":
            kws.append("KItemsL %s" % E.lst([sub(x) for x in v]) if isinstance(v, list) else "KItems %s" % sub(v))
        elif k == "additionalItems":
            kws.append("KAddItems %s" % E.blit(v))
        elif k == "uniqueItems":
            kws.append("KUnique %s" % E.blit(v))
        elif k in ("minItems", "maxItems", "minLength", "maxLength"):
            kws.append("K%s %s" % (k[0].upper() + k[1:], E.zlit(v)))
        elif k == "pattern":
            kws.append("KPattern %s" % E.nlit(pats.pid(v)))
        elif k == "minimum":
            kws.append("KMinimum %s" % emit_num(v))
        elif k == "maximum":
            kws.append("KMaximum %s" % emit_num(v))
        elif k == "exclusiveMaximum":
            kws.append("KExclMax %s" % E.blit(v))
        elif k == "multipleOf":
            kws.append("KMultipleOf %s" % emit_num(v))
        elif k == "multiplesOf":
            kws.append("KMultiplesOf %s" % emit_num(v))
        elif k == "enum":
            kws.append("KEnum %s" % E.lst([jval(x) for x in v]))
        elif k in ("allOf", "anyOf", "oneOf"):
            kws.append("K%s %s" % (k[0].upper() + k[1:], E.lst([sub(x) for x in v])))
        elif k == "not":
            kws.append("KNotL %s" % E.lst([sub(x) for x in v]) if isinstance(v, list) else "KNot %s" % sub(v))
        elif k == "$ref":
            if not v.startswith("#/definitions/"):
                raise ValueError("foreign $ref %r" % v)
            kws.append("KRef %s" % E.pstr(v[len("#/definitions/"):]))
        elif k == "default":
            kws.append("KDefault %s" % jval(v))
        else:
            raise ValueError("keyword outside the modelled fragment: %r" % k)
    return "(Sch %s)" % E.lst(kws)


def emit_doc(schema, defs, pats):
    return "(%s, %s)" % (emit_schema(schema, pats),
                         E.lst(["(%s, %s)" % (E.pstr(n), emit_schema(x, pats)) for n, x in defs.items()]))


def json_strings(x, acc):
    if isinstance(x, str):
        acc.add(x)
    elif isinstance(x, list):
        for y in x:
            json_strings(y, acc)
    elif isinstance(x, dict):
        for k, y in x.items():
            acc.add(k)
            json_strings(y, acc)
    return acc


def search_table(pats, insts):
    strs = set()
    for i in insts:
        json_strings(i, strs)
    out = []
    for i, t in enumerate(pats.texts):
        try:
            rx = re.compile(t)
        except re.error:
            continue
        out.append((i, sorted(s for s in strs if rx.search(s))))
    return out


# ------------------------------------------------------------------ one case = one environment + top class

def build_case(rnd, idx, tier):
    env = Env()
    n_aux = rnd.choice([0, 1, 1, 2])
    max_depth = 2
    made = []
    for i in range(n_aux + 1):
        name = "K%d_%d" % (idx, i)
        top = i == n_aux
        wrapper = (not top and rnd.random() < 0.25) or (top and rnd.random() < 0.08)
        c = gen_class(rnd, name, [m for m in made] + (["Inner", "Other"] if rnd.random() < 0.3 else []),
                      max_depth, wrapper=wrapper, exact=top and idx % 5 == 4)
        materialise_defaults(rnd, c, env)
        try:
            env.add(c)
        except Exception as ex:  # noqa  declaration rejected by typedpy: regenerate a plain one
            c = {"name": name, "fields": [{"name": "a", "field": {"t": "num", "k": "Integer", "s": "Any"}}],
                 "additional": rnd.choice([False, True])}
            env.add(c)
        insts = []
        for _ in range(3):
            r = S.make_valid_instance(rnd, c, env, tries=6)
            if r:
                insts.append(r)
        if top:
            insts += tiny_sign_instances(c, env, insts)
            if insts and env.resolved(name)["additional"] and not env.wrapper_form(name):
                kw = list(insts[0][0]) + [("zz_more", rnd.choice([("int", 7), ("str", "x")]))]
                try:                   # an instance using the additional properties its class allows
                    insts.append((kw, env.classes[name](**S.realize_kwargs(kw, env))))
                except Exception:  # noqa
                    pass
        env.instances[name] = [("struct", name, kw) for kw, _ in insts]
        made.append(name)
        env.top_instances = insts
    env.top = made[-1]
    env.snapshot_required()
    return env


def tiny_sign_instances(c, env, insts):
    """Values inside (0, 1e-6): valid for a sign-only Positive/Negative float or number."""
    out = []
    if not insts:
        return out
    for fd in c["fields"]:
        f = fd["field"]
        if f["t"] == "num" and f["k"] != "Integer" and f["s"] in ("Positive", "Negative") and f.get("mult") is None \
                and f.get("min") is None and f.get("max") is None:
            v = E.reify(1e-9 if f["s"] == "Positive" else -1e-9)
            kw = [(k, x) for k, x in insts[0][0] if k != fd["name"]] + [(fd["name"], v)]
            try:
                out.append((kw, env.classes[c["name"]](**S.realize_kwargs(kw, env))))
            except Exception:  # noqa
                pass
            break
    return out


def export(env):
    """The real structure_to_schema on the top class -> ("ok", schema, defs) | ("raise", cls)."""
    from typedpy import structure_to_schema
    cls = env.classes[env.top]
    try:
        schema, defs = structure_to_schema(cls, {})
        out = ("ok", json.loads(json.dumps(schema)) if is_jsonable(schema) else copy.deepcopy(dict(schema)),
               json.loads(json.dumps(defs)) if is_jsonable(defs) else copy.deepcopy(defs))
    except Exception as ex:  # noqa
        out = ("raise", E.exn_name(ex))
    env.required_mutated = env.restore_required()
    return out


def serialize_top(env, inst):
    from typedpy import serialize
    return serialize(inst, compact=True) if env.wrapper_form(env.top) else serialize(inst)


# ------------------------------------------------------------------ finding keys: counterfactual repairs
# A failure is keyed by the smallest set of *specific* repairs of the export that makes the independent
# validator accept; a failure no listed repair explains keeps a generic key (and is a VIOLATION).

def walk_schemas(s, fn):
    """Apply fn to every schema object inside s (in place), children first."""
    if isinstance(s, list):
        for x in s:
            walk_schemas(x, fn)
    elif isinstance(s, dict):
        for k, v in list(s.items()):
            if k in ("enum", "default", "required"):
                continue
            if k in ("properties", "definitions", "patternProperties") and isinstance(v, dict):
                if k == "patternProperties" and not all(isinstance(x, dict) for x in v.values()):
                    continue
                for x in v.values():
                    walk_schemas(x, fn)
            else:
                walk_schemas(v, fn)
        fn(s)


def rep_patprops(doc, ctx):
    def fn(s):
        v = s.get("patternProperties")
        if v is not None and not (isinstance(v, dict) and all(isinstance(x, dict) for x in v.values())):
            del s["patternProperties"]
            ctx["changed"] = True
    walk_schemas(doc, fn)


def rep_required_empty(doc, ctx):
    def fn(s):
        if s.get("required") == []:
            del s["required"]
            ctx["changed"] = True
    walk_schemas(doc, fn)


def rep_exclmax(doc, ctx):
    def fn(s):
        if "exclusiveMaximum" in s and "maximum" not in s:
            del s["exclusiveMaximum"]
            ctx["changed"] = True
    walk_schemas(doc, fn)


def rep_eps(doc, ctx):
    def fn(s):
        if s.get("minimum") == 0.000001 and isinstance(s.get("minimum"), float):
            del s["minimum"]
            ctx["changed"] = True
        if s.get("maximum") == -0.000001 and isinstance(s.get("maximum"), float):
            del s["maximum"]
            ctx["changed"] = True
    walk_schemas(doc, fn)


def rep_tuple1(doc, ctx):
    def fn(s):
        if isinstance(s.get("items"), list) and len(s["items"]) == 1 and s.get("additionalItems") is False:
            s["items"] = s["items"][0]
            del s["additionalItems"]
            ctx["changed"] = True
    walk_schemas(doc, fn)


def rep_wrapper(doc, ctx):
    env = ctx["env"]
    for name, d in list(doc.get("definitions", {}).items()):
        if name in env.classes and env.wrapper_form(name):
            fname = env.resolved(name)["field_names"][0]
            key = dict(ctx["eff"].get(name, env.renames(name))).get(fname, fname)
            doc["definitions"][name] = {"type": "object", "properties": {key: d}, "required": [key],
                                        "additionalProperties": False}
            ctx["changed"] = True


def none_keys(r, env, eff, acc):
    """class name -> serialized keys of attributes holding None somewhere inside the reified kwargs."""
    t = r[0]
    if t == "struct":
        ren = dict(eff.get(r[1], env.renames(r[1]))) if r[1] in env.classes else {}
        for k, v in r[2]:
            if v[0] == "none":
                acc.setdefault(r[1], set()).add(ren.get(k, k))
                acc.setdefault(r[1], set()).add(dict(env.renames(r[1])).get(k, k) if r[1] in env.classes else k)
            else:
                none_keys(v, env, eff, acc)
    elif t in ("list", "tuple", "deque"):
        for x in r[1]:
            none_keys(x, env, eff, acc)
    elif t == "set":
        for x in r[2]:
            none_keys(x, env, eff, acc)
    elif t == "dict":
        for k, x in r[1]:
            none_keys(x, env, eff, acc)
    return acc


def rep_none_required(doc, ctx):
    env = ctx["env"]
    nk = none_keys(("struct", env.top, ctx["kwargs"]), env, ctx["eff"], {})
    targets = [(env.top, doc)] + [(n, d) for n, d in doc.get("definitions", {}).items()]
    for name, d in targets:
        if isinstance(d.get("required"), list) and name in nk:
            new = [k for k in d["required"] if k not in nk[name]]
            if new != d["required"]:
                d["required"] = new
                if not new:
                    del d["required"]
                ctx["changed"] = True


def rep_nested_mapper(doc, ctx):
    env = ctx["env"]
    for name, d in doc.get("definitions", {}).items():
        if name not in env.classes or name not in ctx["eff"] or env.wrapper_form(name) or "properties" not in d:
            continue
        own, eff = dict(env.renames(name)), dict(ctx["eff"][name])
        ren = {own.get(f, f): eff.get(f, f) for f in env.resolved(name)["field_names"]}
        if any(k != v for k, v in ren.items()):
            d["properties"] = {ren.get(k, k): v for k, v in d["properties"].items()}
            if isinstance(d.get("required"), list):
                d["required"] = [ren.get(k, k) for k in d["required"]]
            ctx["changed"] = True


def rep_bool_strings(doc, ctx):
    def fn(s):
        if s.get("type") == "boolean" and len(s) == 1:
            s.clear()
            s["anyOf"] = [{"type": "boolean"}, {"enum": ["True", "False"]}]
            ctx["changed"] = True
    walk_schemas(doc, fn)


def rep_unique_bool(doc, ctx):
    def fn(s):
        if s.get("uniqueItems") is True:
            del s["uniqueItems"]
            ctx["changed"] = True
    walk_schemas(doc, fn)


def rep_map_sizes(doc, ctx):
    def fn(s):
        if s.get("type") == "object":
            for a, b in (("minItems", "minProperties"), ("maxItems", "maxProperties")):
                if a in s:
                    s[b] = s.pop(a)
                    ctx["changed"] = True
    walk_schemas(doc, fn)


def rep_set_minitems(doc, ctx):
    def fn(s):
        if s.get("uniqueItems") is True and "minItems" in s:
            del s["minItems"]
            ctx["changed"] = True
    walk_schemas(doc, fn)


def rep_not(doc, ctx):
    def fn(s):
        if "not" in s:
            del s["not"]
            ctx["changed"] = True
    walk_schemas(doc, fn)


def rep_oneof(doc, ctx):
    def fn(s):
        if "oneOf" in s and "anyOf" not in s:
            s["anyOf"] = s.pop("oneOf")
            ctx["changed"] = True
    walk_schemas(doc, fn)


def rep_excl_implied(doc, ctx):
    def fn(s):
        if s.get("exclusiveMaximum") is True and s.get("maximum") in (0, -1, -0.000001) and s.get("type") in ("number", "integer"):
            del s["exclusiveMaximum"]
            ctx["changed"] = True
    walk_schemas(doc, fn)


def rep_null_elements(doc, ctx):
    def opt(x):
        return {"anyOf": [x, {"type": "null"}]}

    def fn(s):
        if s.get("type") == "array" and not s.get("_nulled"):
            if isinstance(s.get("items"), dict):
                s["items"] = opt(s["items"]); ctx["changed"] = True
            elif isinstance(s.get("items"), list):
                s["items"] = [opt(x) for x in s["items"]]; ctx["changed"] = True
        if s.get("type") == "object" and isinstance(s.get("additionalProperties"), dict) and "properties" not in s:
            s["additionalProperties"] = opt(s["additionalProperties"]); ctx["changed"] = True
    walk_schemas(doc, fn)


def has_decimal(r):
    if isinstance(r, (list, tuple)):
        if len(r) > 0 and r[0] == "dec":
            return True
        return any(has_decimal(x) for x in r)
    return False


def rep_decimal(doc, ctx):
    if not has_decimal(ctx["kwargs"]):
        return

    def fn(s):
        if s.get("type") in ("number", "integer") and "anyOf" not in s:
            inner = dict(s)
            s.clear()
            s["anyOf"] = [inner, {"type": "string"}]
            ctx["changed"] = True
    walk_schemas(doc, fn)


def has_bool(r):
    if isinstance(r, (list, tuple)):
        if len(r) == 2 and r[0] == "bool":
            return True
        return any(has_bool(x) for x in r)
    return False


def rep_bool_number(doc, ctx):
    if not has_bool(ctx["kwargs"]):
        return

    def fn(s):
        if s.get("type") in ("number", "integer") and "anyOf" not in s:
            inner = dict(s)
            s.clear()
            s["anyOf"] = [inner, {"type": "boolean"}]
            ctx["changed"] = True
    walk_schemas(doc, fn)


def rep_wrapper_none(doc, ctx):
    env = ctx["env"]
    if env.wrapper_form(env.top) and len(ctx["kwargs"]) == 1 and ctx["kwargs"][0][1][0] == "none":
        for k in [k for k in doc if k != "definitions"]:
            del doc[k]
        doc["type"] = "null"
        ctx["changed"] = True


WF_REPAIRS = [("patternProperties-not-an-object-of-schemas", rep_patprops), ("required-empty", rep_required_empty),
              ("exclusiveMaximum-without-maximum", rep_exclmax)]
COMPLETE_REPAIRS = [("sign-only-bound-rendered-as-epsilon", rep_eps), ("nested-field-wrapper", rep_wrapper),
                    ("required-key-of-None-valued-attribute-dropped", rep_none_required),
                    ("single-item-Tuple-is-homogeneous", rep_tuple1),
                    ("mapper-propagates-into-nested-class", rep_nested_mapper),
                    ("Set-minItems-checked-before-normalisation", rep_set_minitems),
                    ("uniqueItems-checked-before-normalisation", rep_unique_bool),
                    ("exclusiveMaximum-applied-to-sign-implied-maximum", rep_excl_implied),
                    ("Map-size-exported-as-minItems-maxItems", rep_map_sizes),

                    ("Boolean-string-form-stored-raw", rep_bool_strings),
                    ("Optional-element-serialized-as-null", rep_null_elements),
                    ("field-wrapper-holding-None", rep_wrapper_none),
                    ("Decimal-value-serialized-as-string", rep_decimal),
                    ("bool-value-under-numeric-field", rep_bool_number),
                    ("NotField-evaluated-on-serialized-form", rep_not),
                    ("OneOf-evaluated-on-serialized-form", rep_oneof)]


def apply_repairs(doc, repairs, ctx):
    d = copy.deepcopy(doc)
    names = []
    for n, fn in repairs:
        ctx["changed"] = False
        fn(d, ctx)
        if ctx["changed"]:
            names.append(n)
    return d, names


def classify(failures, repairs, prefix, generic):
    """failures: list of dict(doc, inst|None, ctx).  Returns a key per failure.
    inst None: the criterion is check_schema + refs; otherwise is_valid(inst)."""
    jobs, plan = [], []
    for fi, f in enumerate(failures):
        variants = []
        for r in repairs:
            d, names = apply_repairs(f["doc"], [r], f["ctx"])
            if names:
                variants.append((names, d))
        d, names = apply_repairs(f["doc"], repairs, f["ctx"])
        if names:
            variants.append((names, d))
        for names, d in variants:
            jobs.append({"doc": d, "instances": [] if f["inst"] is None else [f["inst"][0]]})
            plan.append((fi, names))
    keys = [None] * len(failures)

    def passes(fi, r):
        if failures[fi]["inst"] is None:
            return r["schema_error"] is None and not r["refs_missing"] and not r["crash"]
        return bool(r["verdicts"]) and r["verdicts"][0] is True

    multi = {}
    if jobs:
        res = run_vt(jobs)
        for (fi, names), r in zip(plan, res):
            if keys[fi] is None and passes(fi, r):
                keys[fi] = names
                if len(names) > 1:
                    multi[fi] = names
    # minimise the combined explanations: drop every repair that is not needed
    jobs2, plan2 = [], []
    by_name = dict(repairs)
    for fi, names in multi.items():
        for n in names:
            rest = [(m, by_name[m]) for m in names if m != n]
            d, got = apply_repairs(failures[fi]["doc"], rest, failures[fi]["ctx"])
            jobs2.append({"doc": d, "instances": [] if failures[fi]["inst"] is None else [failures[fi]["inst"][0]]})
            plan2.append((fi, n))
    if jobs2:
        res2 = run_vt(jobs2)
        unneeded = {}
        for (fi, n), r in zip(plan2, res2):
            if passes(fi, r):
                unneeded.setdefault(fi, []).append(n)
        jobs3, plan3 = [], []
        for fi, drop in unneeded.items():
            keep = [m for m in multi[fi] if m not in drop]
            d, got = apply_repairs(failures[fi]["doc"], [(m, by_name[m]) for m in keep], failures[fi]["ctx"])
            jobs3.append({"doc": d, "instances": [] if failures[fi]["inst"] is None else [failures[fi]["inst"][0]]})
            plan3.append((fi, keep))
        if jobs3:
            for (fi, keep), r in zip(plan3, run_vt(jobs3)):
                if keep and passes(fi, r):
                    keys[fi] = keep
    return [prefix + "+".join(k) if k is not None else generic(f) for k, f in zip(keys, failures)]


# ------------------------------------------------------------------ Coq evaluation

HEADER = """From Coq Require Import ZArith NArith String List Bool. Import ListNotations.
From TP Require Import Check.C08chk.
Local Open Scope string_scope.
"""


def coq_eval(defs_and_evals, tag):
    """defs_and_evals: list of (shard text, number of Eval lines).  Returns list of lists of nat lists."""
    res = core.eval_cases([t for t, _ in defs_and_evals], tag, HEADER)
    out = []
    for (rc, so, se), (_, n) in zip(res, defs_and_evals):
        vals = core.parse_eval(so)
        if rc != 0 or len(vals) != n:
            raise RuntimeError("shard failed to evaluate: %s" % ((so + se)[-1800:]))
        out.append([core.parse_nat_list(v) for v in vals])
    return out


def scase_text(env, obs, pats):
    o = "None"
    if obs[0] == "ok":
        o = "(Some (%s, %s))" % (jval(obs[1]), jval(obs[2]))
    return "{| sc_env := %s; sc_smap := %s; sc_pats := %s; sc_cls := %s; sc_obs := %s |}" % (
        E.lst(["\n  " + env.emit_classdef(c["name"]) for c in env.asts]), env.coq_smap(), pats.ptable(),
        E.pstr(env.top), o)


def rcase_text(env, attrs, obs_json):
    strs = set()
    vals = [v for _, v in attrs]
    fields = [fd["field"] for c in env.asts for fd in c["fields"]]
    return "{| rc_tbl := %s; rc_env := %s; rc_smap := %s; rc_cls := %s; rc_attrs := %s; rc_obs := %s |}" % (
        G.emit_table(G.match_table(fields, vals)),
        E.lst(["\n  " + env.emit_classdef(c["name"]) for c in env.asts]), env.coq_smap(effective=True), E.pstr(env.top),
        E.lst(["(%s, %s)" % (E.pstr(k), E.pval(v)) for k, v in attrs]), jval(obs_json))


# ------------------------------------------------------------------ boundary documents (exact sub-fragment)

def exact_field(f):
    t = f["t"]
    if t == "num":
        if f["k"] != "Integer" and f["s"] in ("Positive", "Negative"):
            return False
        if f["s"] != "Any" and (f.get("min") is not None or f.get("max") is not None):
            return False                        # explicit bound overriding the sign: characterised separately
        if f.get("xmax") and f.get("max") is None:
            return False
        return not (f.get("mult") is not None and f["mult"] <= 0)
    if t == "str":
        return f.get("pat") is None or G.PATTERNS[f["pat"]].startswith("^")
    if t == "bool":
        return True
    if t == "enumlit":
        return all(v[0] in ("int", "str") for v in f["values"])
    if t == "enumcls":
        return True
    if t == "seqeach":
        return f["k"] == "list" and not f.get("uniq") and exact_field(f["item"])
    if t == "mapkv":
        kf = f["kf"]
        return kf["t"] == "str" and not any(kf.get(k) for k in ("min", "max")) and kf.get("pat") is None \
            and f["sz"] == [None, None] and exact_field(f["vf"])
    if t == "ref":
        return False
    return False


def exact_class(env):
    c = env.ast(env.top)
    return (not env.wrapper_form(env.top) and not c.get("mapper") and c.get("additional") is False
            and all(fd.get("default") is None and exact_field(fd["field"]) for fd in c["fields"])
            and len(env.resolved(env.top)["required"]) > 0)


def near(rnd, j):
    """One-point perturbation of a JSON document."""
    if isinstance(j, bool):
        return rnd.choice([not j, 1, "True", None])
    if isinstance(j, int):
        return rnd.choice([j + 1, j - 1, j + 2, j * 2, -j, float(j), j + 0.5, 0, str(j), True])
    if isinstance(j, float):
        return rnd.choice([j + 0.5, j - 0.5, math.nextafter(j, math.inf), math.nextafter(j, -math.inf), int(j), -j, 0.0])
    if isinstance(j, str):
        return rnd.choice([j + "a", j[:-1], j + j, "", j.upper(), "1" + j, 5])
    if isinstance(j, list):
        k = list(j)
        r = rnd.random()
        if k and r < 0.5:
            i = rnd.randrange(len(k))
            k[i] = near(rnd, k[i])
        elif k and r < 0.7:
            k.pop()
        elif k:
            k.append(k[0])
        else:
            k.append(rnd.choice([1, "a", None]))
        return k
    if isinstance(j, dict):
        d = dict(j)
        r = rnd.random()
        if d and r < 0.6:
            key = rnd.choice(sorted(d))
            d[key] = near(rnd, d[key])
        elif d and r < 0.8:
            d.pop(rnd.choice(sorted(d)))
        else:
            d["zz_extra"] = rnd.choice([1, "x", None])
        return d
    return rnd.choice([0, "a", [], {}])


def deser_accepts(env, doc):
    from typedpy import Deserializer
    try:
        Deserializer(env.classes[env.top]).deserialize(copy.deepcopy(doc))
        return True, None
    except Exception as ex:  # noqa
        return False, type(ex).__name__


# ------------------------------------------------------------------ the check

def run(rep, tier):
    rnd = random.Random(core.seed() * 1000003 + 8)
    n_env = 170 if tier == "quick" else 1400
    proofs_ok, model_ok = core.standard_proof_obligations(rep, "C08", ["theories/Check/C08chk.vo"])
    pats = Pats()
    envs, exports = [], []
    for idx in range(n_env):
        env = build_case(rnd, idx, tier)
        envs.append(env)
        exports.append(export(env))
    mutated = sum(1 for e in envs if e.required_mutated)

    # ---- oracle jobs: real export (dialect-translated) + real serializations (+ boundary documents)
    jobs, meta = [], []
    for ei, (env, ex) in enumerate(zip(envs, exports)):
        rep.count("export", 1, ("export", tuple(sorted(G.shape(fd["field"]) for fd in env.ast(env.top)["fields"])), ex[0]))
        rep.stat("export", "outcome:" + (ex[0] if ex[0] == "ok" else ex[1]))
        if ex[0] != "ok":
            continue
        if not (is_jsonable(ex[1]) and is_jsonable(ex[2])):
            rep.finding("C08/wf/not-json", "the export is not a JSON document",
                        {"python": env.source() + "\nprint(structure_to_schema(%s, {}))" % env.top, "env_index": ei})
            continue
        doc = fix_dialect_py(dict(ex[1]))
        doc["definitions"] = fix_dialect_py(ex[2])
        sers, kinds = [], []
        for kw, inst in env.top_instances:
            try:
                j = serialize_top(env, inst)
            except Exception as e:  # noqa  the serializer's own failures are C05's subject
                rep.stat("serialize", "raises:" + type(e).__name__)
                continue
            if not is_jsonable(j):
                rep.stat("serialize", "not-json")
                continue
            sers.append((kw, inst, json.loads(json.dumps(j))))
            kinds.append("ser")
        docs = [j for _, _, j in sers]
        if exact_class(env) and docs:
            for _ in range(6 if tier == "quick" else 10):
                docs.append(near(rnd, rnd.choice(docs[:len(sers)])))
                kinds.append("near")
            extra = dict(docs[0]) if isinstance(docs[0], dict) else None
            if extra is not None:      # always probe additionalProperties and a missing required key
                extra["zz_extra"] = 1
                docs.append(extra)
                kinds.append("near")
                req = env.resolved(env.top)["required"]
                if req and req[0] in docs[0]:
                    docs.append({k: v for k, v in docs[0].items() if k != req[0]})
                    kinds.append("near")
        jobs.append({"doc": doc, "instances": docs})
        meta.append((ei, sers, kinds))
    try:
        results = run_vt(jobs)
    except Exception as ex:  # noqa
        rep.broken("oracle:python3-vt", str(ex))
        results = []

    vcases, wcases = [], []
    n_ser = n_near = n_exact_dis = 0
    wf_fail, comp_fail = [], []
    for (ei, sers, kinds), job, res in zip(meta, jobs, results):
        env, ex = envs[ei], exports[ei]
        src = env.source()
        eff = env.effective_renames()
        if res["crash"]:
            rep.broken("oracle:check_schema", res["crash"], {"python": src})
        wf_ok = res["schema_error"] is None and not res["refs_missing"]
        rep.count("wf", 1, ("wf", wf_ok, (res["schema_error"] or {}).get("keyword")))
        rep.stat("wf", "well-formed" if wf_ok else "ill-formed")
        if not wf_ok:
            wf_fail.append({"doc": job["doc"], "inst": None, "ctx": {"env": env, "eff": eff, "kwargs": []},
                            "res": res, "src": src, "ex": ex})
        # documents are validated against the export with its well-formedness defects repaired (a validator has
        # no defined verdict on an ill-formed schema); the ill-formedness itself is reported above
        base, base_names = (job["doc"], []) if wf_ok else apply_repairs(job["doc"], WF_REPAIRS, {"env": env, "eff": eff})
        try:
            wdoc = {k: v for k, v in job["doc"].items() if k != "definitions"}
            wcases.append("{| wc_doc := %s; wc_verdict := %s |}" % (emit_doc(wdoc, job["doc"]["definitions"], pats), E.blit(wf_ok)))
            dtext = emit_doc(wdoc, job["doc"]["definitions"], pats)
        except Exception as e:  # noqa
            rep.broken("parse:export", "export outside the modelled syntax: %s" % e, {"python": src, "schema": ex[1]})
            continue
        for di, (j, kind, verdict, err) in enumerate(zip(job["instances"], kinds, res["verdicts"], res["errors"])):
            if verdict is None:
                if wf_ok:
                    rep.broken("oracle:validator-crash", err["message"], {"python": src, "doc": j})
                continue
            if wf_ok:
                vcases.append((dtext, j, verdict))
            if kind == "ser":
                n_ser += 1
                rep.count("complete", 1, ("complete", G.shape(env.ast(env.top)["fields"][0]["field"]), verdict))
                if "patternProperties-not-an-object-of-schemas" in base_names:
                    rep.stat("complete", "no-verdict:ill-formed-patternProperties")   # reported as the wf finding
                elif not verdict:
                    comp_fail.append({"doc": base, "inst": (j,), "ctx": {"env": env, "eff": eff, "kwargs": sers[di][0]},
                                      "err": err, "src": src, "ex": ex, "kw": sers[di][0], "wf_ok": wf_ok})
            elif wf_ok:
                n_near += 1
                acc, exn = deser_accepts(env, j)
                rep.count("exact", 1, ("exact", verdict, acc))
                rep.stat("exact", "validator:%s/deserializer:%s" % (verdict, acc))
                if verdict and not acc:
                    n_exact_dis += 1
                    rep.finding("C08/exact/%s" % exn,
                                "a document admitted by the exported schema of %s is rejected by the Deserializer (%s)" % (env.top, exn),
                                {"python": src + "\nprint(Deserializer(%s).deserialize(%r))" % (env.top, j),
                                 "classes": env.asts[3:], "doc": j, "schema": ex[1], "definitions": ex[2], "kind": "exact"})
    try:
        wkeys = classify(wf_fail, WF_REPAIRS, "C08/wf/",
                         lambda f: "C08/wf/%s/%s" % ((f["res"]["schema_error"] or {"keyword": "$ref"})["keyword"],
                                                     (f["res"]["schema_error"] or {"validator": "unresolved"})["validator"]))
        # failures on ill-formed exports are first re-validated against the repaired export
        ckeys = classify(comp_fail, COMPLETE_REPAIRS, "C08/complete/",
                         lambda f: "C08/complete/%s/%s" % (f["err"]["validator"], "nested" if len(f["err"]["instance_path"]) > 1 else "top"))
        still = run_vt([{"doc": f["doc"], "instances": [f["inst"][0]]} for f in comp_fail]) if comp_fail else []
    except Exception as ex:  # noqa
        rep.broken("oracle:python3-vt(classification)", str(ex))
        wkeys, ckeys, still = [], [], []
    for f, key in zip(wf_fail, wkeys):
        env, ex, res = f["ctx"]["env"], f["ex"], f["res"]
        what = res["schema_error"]["message"] + " at " + "/".join(res["schema_error"]["path"]) if res["schema_error"] \
            else "unresolved $ref " + ", ".join(res["refs_missing"])
        rep.finding(key, "export of %s is not a well-formed draft-4 schema with resolving $refs: %s" % (env.top, what),
                    {"python": f["src"] + "\ns, d = structure_to_schema(%s, {})\nprint(s, d)" % env.top,
                     "schema": ex[1], "definitions": ex[2], "error": res["schema_error"], "unresolved": res["refs_missing"], "kind": "wf"})
    for f, key, st in zip(comp_fail, ckeys, still):
        if not f["wf_ok"] and st["verdicts"] and st["verdicts"][0] is True:
            continue          # rejected only because of the ill-formed keyword (reported as a wf finding)
        env, ex, err, kw = f["ctx"]["env"], f["ex"], f["err"], f["kw"]
        rep.finding(key, "a valid instance of %s, serialized, is rejected by its own exported schema: %s (%s at %s)" % (
            env.top, err["message"], err["validator"], "/".join(err["schema_path"])),
            {"python": f["src"] + "\nx = %s(%s)\nprint(serialize(x))\nprint(structure_to_schema(%s, {}))" % (
                env.top, ", ".join("%s=%s" % (k, G.py_src(v)) for k, v in kw), env.top),
             "classes": env.asts[3:], "kwargs": kw, "serialized": f["inst"][0], "schema": ex[1],
             "definitions": ex[2], "error": err, "kind": "complete"})
    rep.obligation("oracle:well-formed+refs", True, "%d exports checked by Draft4Validator.check_schema" % len(results))
    rep.obligation("oracle:serialized-valid-instances-validate", True, "%d serialized valid instances validated" % n_ser)
    rep.obligation("oracle:exact-subfragment", True, "%d boundary documents, %d admitted-but-rejected" % (n_near, n_exact_dis))
    rep.cov["streams"].setdefault("export", {})["required_list_mutated_in_place"] = mutated

    # ---- correspondences inside Coq
    if model_ok:
        shards = []
        per = 40
        stexts = []
        for env, ex in zip(envs, exports):
            try:
                stexts.append(scase_text(env, ex, pats))
            except Exception as e:  # noqa
                stexts.append(None)
        sidx = [i for i, t in enumerate(stexts) if t is not None]
        for s in range(0, len(sidx), per):
            chunk = sidx[s:s + per]
            body = "Definition cases : list scase := %s.\n" % E.lst(["\n " + stexts[i] for i in chunk])
            for fn in ("smismatch", "sclean", "swf", "sclean_not_wf"):
                body += "Eval vm_compute in (indices_where %s cases 0).\n" % fn
            shards.append(("S", chunk, body, 4))
        # serializer stream
        rtexts = []
        for ei, sers, kinds in meta:
            env = envs[ei]
            for kw, inst, j in sers:
                try:
                    st = reify_stored(inst)
                    rtexts.append((ei, kw, j, rcase_text(env, st[2], j)))
                except Exception:  # noqa
                    pass
        for s in range(0, len(rtexts), per):
            chunk = rtexts[s:s + per]
            body = "Definition cases : list rcase := %s.\n" % E.lst(["\n " + t[3] for t in chunk])
            for fn in ("rmismatch", "runmodelled"):
                body += "Eval vm_compute in (indices_where %s cases 0).\n" % fn
            shards.append(("R", chunk, body, 2))
        # validator stream
        vper = 120
        for s in range(0, len(vcases), vper):
            chunk = vcases[s:s + vper]
            items = []
            for dtext, j, verdict in chunk:
                items.append("{| vc_search := %s; vc_doc := %s; vc_inst := %s; vc_verdict := %s |}" % (
                    G.emit_table(search_table(pats, [j])), dtext, jval(j), E.blit(verdict)))
            body = "Definition cases : list vcase := %s.\n" % E.lst(["\n " + i for i in items])
            body += "Eval vm_compute in (indices_where vmismatch cases 0).\n"
            shards.append(("V", chunk, body, 1))
        for s in range(0, len(wcases), 200):
            chunk = wcases[s:s + 200]
            body = "Definition cases : list wcase := %s.\n" % E.lst(["\n " + i for i in chunk])
            body += "Eval vm_compute in (indices_where wmismatch cases 0).\n"
            shards.append(("W", list(range(s, s + len(chunk))), body, 1))
        try:
            outs = coq_eval([(b, n) for _, _, b, n in shards], "c08")
        except RuntimeError as ex:
            rep.broken("correspondence:coq-eval", str(ex))
            outs = None
        if outs is not None:
            sm, clean, wf, cnw, rm, run_, vm, wm = [], [], [], [], [], [], [], []
            for (kind, chunk, _, _), o in zip(shards, outs):
                if kind == "S":
                    sm += [chunk[i] for i in o[0]]
                    clean += [chunk[i] for i in o[1]]
                    wf += [chunk[i] for i in o[2]]
                    cnw += [chunk[i] for i in o[3]]
                elif kind == "R":
                    rm += [chunk[i] for i in o[0]]
                    run_ += [chunk[i] for i in o[1]]
                elif kind == "V":
                    vm += [chunk[i] for i in o[0]]
                else:
                    wm += [chunk[i] for i in o[0]]
            concrete = any(not v["no_input"] for v in rep.violations)
            rep.count("corr:to_schema", len(sidx))
            rep.count("corr:serializer", len(rtexts))
            rep.count("corr:valid4", len(vcases))
            rep.count("corr:wf4", len(wcases))
            rep.cov["streams"]["corr:serializer"]["unmodelled_skipped"] = len(run_)
            rep.cov["streams"]["corr:to_schema"]["model_predicts_clean"] = len(clean)
            rep.obligation("correspondence:to_schema", not sm, "%d classes, %d mismatches" % (len(sidx), len(sm)))
            rep.obligation("correspondence:serializer", not rm, "%d instances (%d outside the modelled serializer), %d mismatches" % (
                len(rtexts), len(run_), len(rm)))
            rep.obligation("correspondence:valid4-vs-jsonschema", not vm, "%d (schema, document) pairs, %d mismatches" % (len(vcases), len(vm)))
            rep.obligation("correspondence:wf4-vs-check_schema", not wm, "%d exports, %d mismatches" % (len(wcases), len(wm)))
            rep.obligation("characterisation:clean-implies-wf (evaluated)", not cnw, "%d clean classes" % len(clean))
            if sm and not concrete:
                i = sm[0]
                rep.broken("correspondence:to_schema",
                           "model (Schema/ToSchema.v) and structure_to_schema differ on %d generated classes" % len(sm),
                           {"python": envs[i].source() + "\nprint(structure_to_schema(%s, {}))" % envs[i].top,
                            "observed": exports[i]})
            if rm and not concrete:
                ei, kw, j, _ = rm[0]
                rep.broken("correspondence:serializer", "model serializer and serialize() differ on %d instances" % len(rm),
                           {"python": envs[ei].source(), "kwargs": kw, "serialized": j})
            if vm and not concrete:
                dtext, j, verdict = vm[0]
                rep.broken("correspondence:valid4-vs-jsonschema",
                           "model valid4 and jsonschema.Draft4Validator differ on %d pairs" % len(vm),
                           {"schema_term": dtext[:3000], "doc": j, "validator_verdict": verdict})
            if wm and not concrete:
                rep.broken("correspondence:wf4-vs-check_schema",
                           "model wf_doc and Draft4Validator.check_schema differ on %d exports" % len(wm),
                           {"doc_term": wcases[wm[0]][:3000]})
            if cnw:
                rep.broken("characterisation:clean-implies-wf", "schema_clean holds but wf_doc fails on %d classes" % len(cnw),
                           {"python": envs[cnw[0]].source()})
    if exports:
        for env, ex in list(zip(envs, exports))[:2]:
            rep.sample({"classes": env.source()[-700:], "export": repr(ex)[:600]})
    if not proofs_ok:
        from harness.props.c17 import broken_build
        broken_build(rep)
    rep.assumptions += [
        "re.match / re.search are oracles (Section variables), instantiated per case by tables filled from the real re module",
        "independent validator: jsonschema.Draft4Validator under python3-vt (separate process, JSON exchange)",
        "a field-wrapper class is paired with serialize(compact=True), as documented; every other class with serialize()",
        "structure_to_schema edits the class's _required list in place; the harness restores it after every export",
    ]
    return rep.finish(
        rule="cases = class environments (1-3 generated classes + fixed Inner/Sub/Other; fields from a weighted grammar over "
             "the schema-mappable vocabulary incl. a few unmappable ones; optional rename mappers, defaults, required subsets), "
             "3 valid instances each, 6-10 boundary documents on the exact sub-fragment; distinct = distinct (field shapes, outcome)")


def replay(obj):
    """Re-run a replay on the implementation + the independent validator alone."""
    src = obj.get("python")
    if not src:
        print("nothing to replay:", obj.get("broken"), obj.get("detail", "")[:500])
        return 2
    ns = {}
    exec(G.IMPORTS + "from typedpy import mappers, structure_to_schema, serialize, Deserializer\n", ns)
    body = src.split("\nprint(")[0].split("\nx = ")[0].split("\ns, d = ")[0]
    exec(body, ns)
    top = [c for c in ns if re.fullmatch(r"K\d+_\d+", c)]
    top = sorted(top, key=lambda n: int(n.split("_")[1]))[-1]
    cls = ns[top]
    req0 = list(cls.__dict__.get("_required", []))
    schema, defs = ns["structure_to_schema"](cls, {})
    if isinstance(cls.__dict__.get("_required"), list):
        cls.__dict__["_required"][:] = req0
    print("export     :", json.dumps(schema, default=str)[:1500])
    print("definitions:", json.dumps(defs, default=str)[:1500])
    doc = fix_dialect_py(json.loads(json.dumps(schema)))
    doc["definitions"] = fix_dialect_py(json.loads(json.dumps(defs)))
    insts = []
    kind = obj.get("kind")
    if kind == "complete":
        kw = {k: G.unreify(_tup(v), {n: ns[n] for n in ns if isinstance(ns[n], type)}) for k, v in obj["kwargs"]}
        inst = cls(**kw)
        r = S.Context.resolved.__get__(type("X", (), {"classes": {top: cls}})())(top)
        wrapper = len(r["field_names"]) == 1 and r["required"] == r["field_names"] and not r["additional"]
        insts = [ns["serialize"](inst, compact=True) if wrapper else ns["serialize"](inst)]
        print("serialized :", insts[0])
    elif kind == "exact":
        insts = [obj["doc"]]
    res = run_vt([{"doc": doc, "instances": insts}])[0]
    print("check_schema:", res["schema_error"], "unresolved refs:", res["refs_missing"])
    print("validator verdicts:", res["verdicts"], res["errors"])
    if kind in ("wf", "ref"):
        print("required: well-formed draft-4 schema with resolving $refs")
        return 1 if (res["schema_error"] or res["refs_missing"]) else 0
    if kind == "complete":
        print("required: the serialization validates")
        return 1 if res["verdicts"] and res["verdicts"][0] is False else 0
    if kind == "exact":
        try:
            ns["Deserializer"](cls).deserialize(copy.deepcopy(obj["doc"]))
            acc = True
        except Exception as ex:  # noqa
            acc = False
            print("Deserializer:", type(ex).__name__, ex)
        print("required: admitted by the schema => accepted by the Deserializer; accepted =", acc)
        return 1 if (res["verdicts"] and res["verdicts"][0] and not acc) else 0
    return 0


def _tup(v):
    """JSON round trip turns reified tuples into lists: restore."""
    if isinstance(v, list):
        return tuple(_tup(x) if isinstance(x, list) and x and isinstance(x[0], str) else
                     ([_tup(y) for y in x] if isinstance(x, list) else x) for x in v)
    return v
