"""C08 — the exported JSON schema is well-formed and admits every serialized valid instance.

Proof obligations: Props/C08.v (per-declaration and class-level theorems, source ties C08_src_* over Gen/SchemaGuards.v,
which harness/genmods/schema_guards.py regenerates from json_schema_mapping.py before every build).
Ties to the code (all compared inside Coq):
  1. model `to_schema` (Schema/ToSchema.v) vs the real `structure_to_schema` (JSON equality), on EVERY export of a
     generated history of exports (first / repeated / parts first / interleaved / one shared definitions dict);
  2. model `valid4` / `wf_doc` (Schema/Draft4.v), run on the REAL export parsed into the model's syntax, vs the
     independent `jsonschema.Draft4Validator` (separate interpreter `python3-vt`);
  3. model serializer `ser_top` vs the real `serialize`.
Oracle of the property itself: the independent validator on real serializer output against the real
(dialect-translated) export, `check_schema` + $ref resolution, for every export of the history; on the statement's
exact sub-fragment (everything but Set / defaults / unanchored patterns / sign-only float bounds), boundary documents
(schema-driven: every keyword contributes the points just inside and just outside, + random one-point perturbations):
validator-accepts must imply Deserializer-accepts.
Streams: random class environments; deterministic lattices (enum class x position; reference graph x linking
construct x history, with class names reused across environments); extras outside the model (harness/c08extras.py).
Failures are keyed by the smallest set of specific counterfactual repairs of the export that explains them (else by a
generic key, which is a VIOLATION).  C08_DEBUG=1 prints the first model/implementation mismatches."""
import copy
import json
import math
import os
import random
import re
import subprocess

from harness import core
from harness import coqemit as E
from harness import fieldgen as G
from harness import structgen as S
from harness import c08enums as X
from harness import c08extras as XT

# the enum-class vocabulary of this check (this process only): mixed-in primitive types, falsy values, by-value twins
G.ENUMS.update(X.EXTRA)
G.BY_VALUE.update(X.BY_VALUE)

X_NEAR = sorted({m.name for c in G.ENUMS.values() for m in c}) + \
    sorted({m.value for c in G.ENUMS.values() for m in c if isinstance(m.value, str)}) + [1, 2, 3, 0, 0.5, 2.0]

VT = "python3-vt"
WORKER = os.path.join(os.path.dirname(os.path.dirname(os.path.abspath(__file__))), "c08_vt_worker.py")
NAMES = ["a", "b_c", "d", "e_f1", "g"]


# ------------------------------------------------------------------ generation

def gen_sfield(rnd, depth, classes, max_depth, hashable=False, optional_ok=True):
    """Field AST biased to the schema-mappable vocabulary (a few unmappable ones on purpose)."""
    sub = lambda **kw: gen_sfield(rnd, depth + 1, classes, max_depth, **kw)
    scal = [("num", 30), ("str", 16), ("bool", 6), ("enumlit", 6), ("enumcls", 6), ("any", 1), ("none", 1)]
    comp = [("seqany", 2), ("seqeach", 11), ("seqpos", 6), ("set", 6), ("tuple", 6), ("mapany", 2), ("mapkv", 8),
            ("allof", 3), ("anyof", 6), ("oneof", 3), ("not", 2), ("optional", 5)]
    if classes:
        comp.append(("ref", 9))
    table = list(scal)
    if depth < max_depth:
        if hashable:
            comp = [(k, w) for k, w in comp if k in ("tuple", "anyof", "ref")]
        table += [(k, w * (1.3 if depth == 0 else 0.7)) for k, w in comp]
    t = G.weighted(rnd, table)
    if t == "num":
        f = {"t": "num", "k": rnd.choice(["Number", "Integer", "Integer", "Float", "Float"]),
             "s": rnd.choice(["Any", "Any", "Any", "Positive", "Negative", "NonPositive", "NonNegative"])}
        c = G.gen_numc(rnd, f["k"])
        for key in ("min", "max"):                     # Decimal bounds are not JSON: outside the fragment
            if c.get(key) is not None and c[key][0] == "dec":
                c[key] = E.reify(float(G.unreify(c[key])))
        if c.get("mult") is not None and c["mult"] < 0:
            c["mult"] = -c["mult"]          # a non-positive multipleOf has no draft-4 counterpart: outside the fragment
        # an explicit bound on the side the sign already bounds replaces the sign in the export (NegativeInt(maximum=2)
        # is exported as maximum 2): the export is then too permissive, which oneOf/not observe.  Characterised in
        # the report; the generator keeps explicit bounds consistent with the sign.
        lo, hi = c.get("min"), c.get("max")
        if rnd.random() < 0.4:
            lo = hi = None      # keep the declaration as drawn (the explicit bound then replaces the sign in the export)
        if f["s"] in ("Positive", "NonNegative") and lo is not None:
            x = float(G.unreify(lo))
            if x < 0 or (x == 0 and f["s"] == "Positive"):
                del c["min"]
        if f["s"] in ("Negative", "NonPositive") and hi is not None:
            x = float(G.unreify(hi))
            if x > 0 or (x == 0 and f["s"] == "Negative"):
                del c["max"]
                c.pop("xmax", None)
        f.update(c)
        return f
    if t == "str":
        f = {"t": "str"}
        if rnd.random() < 0.35:
            f["min"] = rnd.choice([0, 1, 2, 3])
        if rnd.random() < 0.35:
            f["max"] = rnd.choice([1, 3, 4, 5, 11])
        if rnd.random() < 0.3:
            f["pat"] = rnd.randrange(len(G.PATTERNS))
        return f
    if t in ("bool", "none", "any"):
        return {"t": t}
    if t == "enumlit":
        pool = [1, 2, 3, "a", "abc", "x", 2.5, 0, "RED", 10]
        if rnd.random() < 0.08:
            pool += [None, (1, 2), True]
        if rnd.random() < 0.10:           # members among literals: exported by name (or as themselves under a mix-in)
            pool += [G.Color.RED, X.Prio.HIGH, X.Tag.A, G.Size.M]
        return {"t": "enumlit", "values": [E.reify(v) for v in rnd.sample(pool, rnd.randint(1, 4))]}
    if t == "enumcls":
        cname = rnd.choice(sorted(G.ENUMS))
        names = [m.name for m in G.ENUMS[cname]]
        if rnd.random() < 0.35:
            names = sorted(rnd.sample(names, rnd.randint(1, len(names) - 1)), key=names.index)
        return {"t": "enumcls", "cls": cname, "members": names}
    kind = "list" if rnd.random() < 0.94 else "deque"
    if t == "seqany":
        return {"t": t, "k": kind, "sz": G.gen_sz(rnd), "uniq": rnd.random() < 0.3}
    if t == "seqeach":
        return {"t": t, "k": kind, "item": sub(), "sz": G.gen_sz(rnd), "uniq": rnd.random() < 0.2}
    if t == "seqpos":
        return {"t": t, "k": kind, "items": [sub() for _ in range(rnd.randint(1, 3))],
                "sz": G.gen_sz(rnd) if rnd.random() < 0.25 else [None, None], "uniq": rnd.random() < 0.1,
                "additional": rnd.choice([None, None, False, False, True])}
    if t == "set":
        return {"t": t, "imm": rnd.random() < 0.3, "item": sub(hashable=True) if rnd.random() < 0.85 else None,
                "sz": G.gen_sz(rnd)}
    if t == "tuple":
        return {"t": t, "items": [sub(hashable=hashable) for _ in range(rnd.choice([1, 2, 2, 3]))],
                "uniq": rnd.random() < 0.15}
    if t == "mapany":
        return {"t": t, "sz": G.gen_sz(rnd)}
    if t == "mapkv":
        r = rnd.random()
        if r < 0.62:
            kf = {"t": "str"}
        elif r < 0.92:
            kf = gen_sfield(rnd, 9, (), 0)
            while kf["t"] != "str":
                kf = gen_sfield(rnd, 9, (), 0)
        else:
            kf = {"t": "num", "k": "Integer", "s": "Any"}
        return {"t": t, "kf": kf, "vf": sub(), "sz": G.gen_sz(rnd) if rnd.random() < 0.3 else [None, None]}
    if t == "optional":
        return {"t": "anyof", "fs": [sub(hashable=hashable), {"t": "none"}]}
    if t in ("allof", "anyof", "oneof", "not"):
        return {"t": t, "fs": [sub(hashable=hashable) for _ in range(rnd.randint(1, 3))]}
    if t == "ref":
        return {"t": "ref", "cls": rnd.choice(list(classes))}
    raise ValueError(t)


def gen_class(rnd, name, classes, max_depth, wrapper=False, exact=False):
    n = 1 if wrapper else rnd.randint(1, 5)
    fields = []
    if exact:
        for fname in NAMES[:rnd.randint(2, 4)]:
            f = gen_sfield(rnd, 0, (), 1)
            while not exact_field(f):
                f = gen_sfield(rnd, 0, (), 1)
            fields.append({"name": fname, "field": f})
        names = [fd["name"] for fd in fields]
        c = {"name": name, "fields": fields, "additional": False}
        if rnd.random() < 0.5:
            c["required"] = sorted(rnd.sample(names, rnd.randint(1, len(names))))
        return c
    for fname in NAMES[:n]:
        f = gen_sfield(rnd, 0, classes, max_depth)
        fd = {"name": fname, "field": f}
        if not wrapper and f["t"] in ("num", "str", "bool", "enumlit", "enumcls") and rnd.random() < 0.2:
            fd["want_default"] = True
        fields.append(fd)
    names = [fd["name"] for fd in fields]
    c = {"name": name, "fields": fields}
    if wrapper:
        c["additional"] = False
        return c
    r = rnd.random()
    if r < 0.55:
        c["required"] = sorted(rnd.sample(names, rnd.randint(0 if rnd.random() < 0.35 else 1, len(names))))
        # a field with a default is never listed in an explicit _required (typedpy drops it from _required lazily,
        # so the class facts would differ between definition time and export time)
        c["required"] = [k for k in c["required"] if not any(fd["name"] == k and fd.get("want_default") for fd in fields)]
    c["additional"] = rnd.choice([False, False, True, None])
    r = rnd.random()
    if r < 0.2:
        c["mapper"] = "camel"
    elif r < 0.4:
        ks = rnd.sample(names, rnd.randint(1, len(names)))
        c["mapper"] = {k: k.upper() + "_x" for k in ks}
        if len(ks) >= 2 and rnd.random() < 0.35:
            # renames onto the NAMES of siblings: a cycle (a permutation of the chosen names) or a chain whose last
            # element gets a fresh name -- the output keys stay distinct
            if rnd.random() < 0.5:
                c["mapper"] = {k: ks[(i + 1) % len(ks)] for i, k in enumerate(ks)}
            else:
                c["mapper"] = {k: (ks[i + 1] if i + 1 < len(ks) else k.upper() + "_x") for i, k in enumerate(ks)}
    return c


def class_src(c):
    src = S.class_src({k: v for k, v in c.items() if k != "mapper"})
    m = c.get("mapper")
    if m == "camel":
        src += "    _serialization_mapper = mappers.TO_CAMELCASE\n"
    elif m:
        src += "    _serialization_mapper = %r\n" % m
    return src


class Env(S.Context):
    """Context with generated classes appended one by one (each may reference the earlier ones)."""

    def __init__(self):
        super().__init__()
        exec("from typedpy import mappers\n" + X.IMPORT, self.ns)
        self.required0 = {}
        # a field declared as Inner may hold an instance of its subclass Sub that uses Sub's own field
        self.instances["Inner"] = self.instances["Inner"] + [("struct", "Sub", [("a", ("int", 4)), ("c", ("int", 5))])]
        self.prelude = []            # (classes source, history) of earlier environments that share class NAMES with this one

    def add(self, c):
        exec(class_src(c), self.ns)
        self.asts.append(c)
        self.classes[c["name"]] = self.ns[c["name"]]

    def source(self):
        return "from typedpy import mappers\n" + X.IMPORT + "".join(class_src(c) + "\n" for c in self.asts)

    def snapshot_required(self):
        for n, cls in self.classes.items():
            r = cls.__dict__.get("_required")
            if isinstance(r, list):
                self.required0[n] = list(r)

    def restore_required(self):
        """structure_to_schema edits the class's _required list in place (reported separately)."""
        changed = []
        for n, r0 in self.required0.items():
            r = self.classes[n].__dict__.get("_required")
            if isinstance(r, list) and r != r0:
                changed.append(n)
                r[:] = r0
        return changed

    def renames(self, name):
        from typedpy.serialization.mappers import aggregate_serialization_mappers
        cls = self.classes[name]
        m = aggregate_serialization_mappers(cls, None) or {}
        fields = set(cls.get_all_fields_by_name().keys())
        return [(k, v) for k, v in m.items() if k in fields and isinstance(v, str) and v != k]

    def coq_smap(self, effective=False):
        eff = self.effective_renames() if effective else {}
        return E.lst(["(%s, %s)" % (E.pstr(c["name"]), E.lst(["(%s, %s)" % (E.pstr(k), E.pstr(v))
                                                              for k, v in eff.get(c["name"], self.renames(c["name"]))]))
                      for c in self.asts])

    def effective_renames(self):
        """Renames the serializer applies to instances of classes nested under the top class: the top class's
        aggregated mapper carries '<field>._mapper' entries for them (e.g. TO_CAMELCASE propagates)."""
        from typedpy.serialization.mappers import aggregate_serialization_mappers
        out = {}

        def refs(f, acc):
            if f["t"] == "ref":
                acc.add(f["cls"])
            for key in ("item", "vf"):
                if isinstance(f.get(key), dict):
                    refs(f[key], acc)
            for key in ("items", "fs"):
                for g in f.get(key) or []:
                    refs(g, acc)
            return acc

        cand = {}          # class -> list of (via explicit sub-mapper?, renames) over every path that reaches it

        def walk(cname, m, depth=0):
            if depth > 6:
                return
            for fd in self.all_fields(cname):
                sub = (m or {}).get(fd["name"] + "._mapper")
                for rn in sorted(refs(fd["field"], set())):
                    if rn in self.classes:
                        # without a '<field>._mapper' entry (e.g. under a Map or AnyOf) the nested instance is serialized
                        # with its own aggregated mapper, which in turn propagates to the classes nested in it
                        v = sub if isinstance(sub, dict) else (aggregate_serialization_mappers(self.classes[rn], None) or {})
                        fn = set(self.classes[rn].get_all_fields_by_name().keys())
                        ren = sorted((a, b) for a, b in v.items() if a in fn and isinstance(b, str) and b != a)
                        entry = (isinstance(sub, dict), ren)
                        if entry not in cand.setdefault(rn, []):
                            cand[rn].append(entry)
                            walk(rn, v, depth + 1)

        # the compact form of a field wrapper serializes the wrapped value without the wrapper's mapper
        walk(self.top, {} if self.wrapper_form(self.top)
             else (aggregate_serialization_mappers(self.classes[self.top], None) or {}))
        for rn, entries in cand.items():
            entries.sort(key=lambda e: not e[0])             # paths with an explicit sub-mapper first
            out[rn] = entries[0][1]
        # the renames of a class reached through paths with different mappers depend on the path: not modelled per class
        self.path_dependent = {rn for rn, entries in cand.items() if len({tuple(e[1]) for e in entries}) > 1}
        self.rename_cands = {rn: [e[1] for e in entries] for rn, entries in cand.items()}
        return out

    def wrapper_form(self, name):
        r = self.resolved(name)
        return len(r["field_names"]) == 1 and r["required"] == r["field_names"] and not r["additional"]


def materialise_defaults(rnd, c, env):
    for fd in c["fields"]:
        if fd.pop("want_default", False):
            for _ in range(6):
                v = G.gen_valid(rnd, fd["field"], env.instances)
                if v[0] in ("int", "flt", "str", "bool", "enum"):
                    fd["default"] = v       # falsy defaults (0, "", False, 0.0) included
                    break


def reify_stored(v):
    """Stored attribute values -> reified; sets keep their iteration order (it is the serialization order)."""
    from typedpy import Structure
    if isinstance(v, Structure):
        return ("struct", type(v).__name__, [(k, reify_stored(x)) for k, x in v.__dict__.items()
                                             if k not in S.INTERNAL and x is not None])
    if isinstance(v, (set, frozenset)):
        return ("set", isinstance(v, frozenset), [reify_stored(x) for x in v])
    if isinstance(v, tuple):
        return ("tuple", [reify_stored(x) for x in v])
    import collections
    if isinstance(v, collections.deque):
        return ("deque", [reify_stored(x) for x in v])
    if isinstance(v, list):
        return ("list", [reify_stored(x) for x in v])
    if isinstance(v, dict):
        return ("dict", [(reify_stored(k), reify_stored(x)) for k, x in v.items()])
    return E.reify(v)


# ------------------------------------------------------------------ JSON helpers

def is_jsonable(x):
    try:
        json.dumps(x, allow_nan=False)
        return True
    except Exception:  # noqa
        return False


def fix_dialect_py(s):
    """typedpy's two dialect spellings -> draft 4 (independent of the Coq model)."""
    if isinstance(s, list):
        return [fix_dialect_py(x) for x in s]
    if not isinstance(s, dict):
        return s
    out = {}
    for k, v in s.items():
        if k in ("enum", "default"):
            out[k] = v
        elif k == "multiplesOf":
            out["multipleOf"] = v
        elif k == "not" and isinstance(v, list):
            out["not"] = {"anyOf": fix_dialect_py(v)}
        else:
            out[k] = fix_dialect_py(v)
    return out


def run_vt(jobs):
    p = subprocess.run([VT, WORKER], input=json.dumps({"jobs": jobs}), capture_output=True, text=True, timeout=600)
    if p.returncode != 0:
        raise RuntimeError("python3-vt worker failed: " + p.stderr[-1500:])
    return json.loads(p.stdout)["results"]


# ------------------------------------------------------------------ real JSON schema -> model syntax

class Pats:
    """pattern text <-> oracle id; ids below len(G.PATTERNS) are the generator's."""

    def __init__(self):
        self.texts = list(G.PATTERNS)

    def pid(self, text):
        if text not in self.texts:
            self.texts.append(text)
        return self.texts.index(text)

    def ptable(self, fields=()):
        """the oracle's id -> text table; with the key regexes MapMapper builds for the Map declarations in `fields`
        (ids of Schema/ToSchema.v key_pid)"""
        from harness import c08_src
        rows = list(enumerate(self.texts))
        keys = {}
        for f in fields:
            c08_src.key_entries(f, keys)
        rows += sorted(keys.items())
        return E.lst(["(%s, %s)" % (E.nlit(i), E.pstr(t)) for i, t in rows])


JT = {"object": "TObject", "array": "TArray", "string": "TString", "number": "TNumber", "integer": "TInteger",
      "boolean": "TBoolean", "null": "TNull"}


def jval(x):
    return E.pval(E.reify(x))


def emit_num(x):
    return G.emit_num(E.reify(x))


def emit_schema(s, pats):
    if not isinstance(s, dict):
        raise ValueError("schema is not an object: %r" % (s,))
    kws = []
    sub = lambda x: emit_schema(x, pats)
    for k, v in s.items():
        if k == "type":
            kws.append("KType %s" % JT[v])
        elif k == "properties":
            kws.append("KProperties %s" % E.lst(["(%s, %s)" % (E.pstr(n), sub(x)) for n, x in v.items()]))
        elif k == "required":
            kws.append("KRequired %s" % E.lst([E.pstr(n) for n in v]))
        elif k == "additionalProperties":
            kws.append("KAddProps %s" % E.blit(v) if isinstance(v, bool) else "KAddPropsS %s" % sub(v))
        elif k == "patternProperties":
            if isinstance(v, dict) and all(isinstance(x, dict) for x in v.values()):
                kws.append("KPatProps %s" % E.lst(["(%s, %s)" % (E.nlit(pats.pid(n)), sub(x)) for n, x in v.items()]))
            else:
                kws.append("KBadPatProps %s" % sub(v))
        elif k == "items":
            kws.append("KItemsL %s" % E.lst([sub(x) for x in v]) if isinstance(v, list) else "KItems %s" % sub(v))
        elif k == "additionalItems":
            kws.append("KAddItems %s" % E.blit(v))
        elif k == "uniqueItems":
            kws.append("KUnique %s" % E.blit(v))
        elif k in ("minItems", "maxItems", "minLength", "maxLength"):
            kws.append("K%s %s" % (k[0].upper() + k[1:], E.zlit(v)))
        elif k == "pattern":
            kws.append("KPattern %s" % E.nlit(pats.pid(v)))
        elif k == "minimum":
            kws.append("KMinimum %s" % emit_num(v))
        elif k == "maximum":
            kws.append("KMaximum %s" % emit_num(v))
        elif k == "exclusiveMaximum":
            kws.append("KExclMax %s" % E.blit(v))
        elif k == "multipleOf":
            kws.append("KMultipleOf %s" % emit_num(v))
        elif k == "multiplesOf":
            kws.append("KMultiplesOf %s" % emit_num(v))
        elif k == "enum":
            kws.append("KEnum %s" % E.lst([jval(x) for x in v]))
        elif k in ("allOf", "anyOf", "oneOf"):
            kws.append("K%s %s" % (k[0].upper() + k[1:], E.lst([sub(x) for x in v])))
        elif k == "not":
            kws.append("KNotL %s" % E.lst([sub(x) for x in v]) if isinstance(v, list) else "KNot %s" % sub(v))
        elif k == "$ref":
            if not v.startswith("#/definitions/"):
                raise ValueError("foreign $ref %r" % v)
            kws.append("KRef %s" % E.pstr(v[len("#/definitions/"):]))
        elif k == "default":
            kws.append("KDefault %s" % jval(v))
        else:
            raise ValueError("keyword outside the modelled fragment: %r" % k)
    return "(Sch %s)" % E.lst(kws)


def emit_doc(schema, defs, pats):
    return "(%s, %s)" % (emit_schema(schema, pats),
                         E.lst(["(%s, %s)" % (E.pstr(n), emit_schema(x, pats)) for n, x in defs.items()]))


def json_strings(x, acc):
    if isinstance(x, str):
        acc.add(x)
    elif isinstance(x, list):
        for y in x:
            json_strings(y, acc)
    elif isinstance(x, dict):
        for k, y in x.items():
            acc.add(k)
            json_strings(y, acc)
    return acc


def search_table(pats, insts):
    strs = set()
    for i in insts:
        json_strings(i, strs)
    out = []
    for i, t in enumerate(pats.texts):
        try:
            rx = re.compile(t)
        except re.error:
            continue
        out.append((i, sorted(s for s in strs if rx.search(s))))
    return out


# ------------------------------------------------------------------ one case = one environment + top class

def add_class(rnd, env, c, top):
    """Realise class AST c in env (falling back to a plain class when typedpy rejects the declaration), and make
    up to 3 valid instances of it.  Returns the instances [(kwargs, instance)]."""
    name = c["name"]
    materialise_defaults(rnd, c, env)
    try:
        env.add(c)
    except Exception as ex:  # noqa  declaration rejected by typedpy: a plain class instead
        c = {"name": name, "fields": [{"name": "a", "field": {"t": "num", "k": "Integer", "s": "Any"}}],
             "additional": rnd.choice([False, True])}
        env.add(c)
    insts = []
    for _ in range(3):
        r = S.make_valid_instance(rnd, c, env, tries=6)
        if r:
            insts.append(r)
    if top:
        insts += tiny_sign_instances(c, env, insts)
        if insts and env.resolved(name)["additional"] and not env.wrapper_form(name):
            kw = list(insts[0][0]) + [("zz_more", rnd.choice([("int", 7), ("str", "x")]))]
            try:                   # an instance using the additional properties its class allows
                insts.append((kw, env.classes[name](**S.realize_kwargs(kw, env))))
            except Exception:  # noqa
                pass
    env.instances[name] = [("struct", name, kw) for kw, _ in insts]
    return insts


def link_field(kind, cname):
    """A declaration that reaches class cname through the given construct."""
    ref = {"t": "ref", "cls": cname}
    if kind == "direct":
        return ref
    if kind == "array":
        return {"t": "seqeach", "k": "list", "item": ref, "sz": [None, None], "uniq": False}
    if kind == "map":
        return {"t": "mapkv", "kf": {"t": "str"}, "vf": ref, "sz": [None, None]}
    if kind == "anyof":
        return {"t": "anyof", "fs": [ref, {"t": "str"}]}
    if kind == "optional":
        return {"t": "anyof", "fs": [ref, {"t": "none"}]}
    if kind == "tuple":
        return {"t": "tuple", "items": [ref, {"t": "num", "k": "Integer", "s": "Any"}], "uniq": False}
    if kind == "seqpos":
        return {"t": "seqpos", "k": "list", "items": [ref], "sz": [None, None], "uniq": False, "additional": False}
    raise ValueError(kind)


LINKS = ["direct", "array", "map", "anyof", "optional", "tuple", "seqpos"]


def build_case(rnd, idx, tier):
    env = Env()
    n_aux = rnd.choice([0, 1, 1, 2, 2, 3])
    max_depth = 2
    made = []
    for i in range(n_aux + 1):
        name = "K%d_%d" % (idx, i)
        top = i == n_aux
        wrapper = (not top and rnd.random() < 0.25) or (top and rnd.random() < 0.08)
        c = gen_class(rnd, name, [m for m in made] + (["Inner", "Other"] if rnd.random() < 0.3 else []),
                      max_depth, wrapper=wrapper, exact=top and idx % 5 == 4)
        if made and idx % 5 != 4 and rnd.random() < 0.5:
            # reference chains: this class reaches the previous one (which may reach the one before it, ...)
            fd = rnd.choice(c["fields"])
            fd["field"] = link_field(rnd.choice(LINKS), made[-1])
            fd.pop("want_default", None)
        env.top_instances = add_class(rnd, env, c, top)
        made.append(name)
    env.top = made[-1]
    env.generated = list(made)
    env.snapshot_required()
    env.history = gen_history(rnd, env)
    return env


def gen_history(rnd, env):
    """A process history of exports ending with (or containing) the top class: [(class name, shared)], shared = the
    definitions dict returned by the previous export is passed on (the documented way of exporting several classes
    into one document) instead of a fresh {}."""
    top, aux = env.top, [n for n in env.generated if n != env.top]
    r = rnd.random()
    if r < 0.30 or (not aux and r < 0.6):
        return [(top, False)]
    if r < 0.50 or not aux:
        return [(top, False), (top, False)]
    if r < 0.65:
        order = list(aux)
        rnd.shuffle(order)
        return [(a, False) for a in order] + [(top, False)]
    if r < 0.80:
        return [(top, False), (rnd.choice(aux), False), (top, False)]
    order = rnd.sample(aux, rnd.randint(1, len(aux)))
    return [(order[0], False)] + [(a, True) for a in order[1:]] + [(top, True)]


class Event:
    """One call of structure_to_schema inside an environment's history."""

    def __init__(self, env, pos):
        self.env, self.pos = env, pos
        self.cls, self.shared = env.history[pos]
        self.pre = []            # classes exported earlier into the same definitions dict
        self.out = None


def run_history(env):
    """Performs env.history on the real structure_to_schema.  Returns the events."""
    from typedpy import structure_to_schema
    events = []
    defs, pre = None, []
    for pos in range(len(env.history)):
        ev = Event(env, pos)
        if not ev.shared or defs is None:
            defs, pre = {}, []
        ev.pre = list(pre)
        cls = env.classes[ev.cls]
        try:
            schema, got = structure_to_schema(cls, defs)
            ev.out = ("ok", json.loads(json.dumps(schema)) if is_jsonable(schema) else copy.deepcopy(dict(schema)),
                      json.loads(json.dumps(got)) if is_jsonable(got) else copy.deepcopy(got))
            defs = got if isinstance(got, dict) else None
            pre.append(ev.cls)
        except Exception as ex:  # noqa
            ev.out = ("raise", E.exn_name(ex))
            defs, pre = None, []
        events.append(ev)
    env.required_mutated = env.restore_required()
    return events


def replay_fields(ev):
    env = ev.env
    return {"classes_src": env.source(), "prelude": env.prelude, "history": [list(h) for h in env.history[:ev.pos + 1]],
            "target": ev.cls}


def hist_lines(history):
    return "".join("s, d = structure_to_schema(%s, %s)\n" % (c, "d" if (sh and i) else "{}") for i, (c, sh) in enumerate(history))


def script(ev, tail=""):
    """Human-readable Python text of a replay (the replay itself is driven by replay_fields)."""
    env = ev.env
    pre = "from typedpy import *\n"
    for src, hist in env.prelude:
        pre += "# --- an earlier, independent set of classes exported in the same process\n" + src + hist_lines(hist)
    if env.prelude:
        pre += "# --- the classes of this case\n"
    return pre + env.source() + hist_lines(env.history[:ev.pos + 1]) + tail


def tiny_sign_instances(c, env, insts):
    """Values inside (0, 1e-6): valid for a sign-only Positive/Negative float or number."""
    out = []
    if not insts:
        return out
    for fd in c["fields"]:
        f = fd["field"]
        if f["t"] == "num" and f["k"] != "Integer" and f["s"] in ("Positive", "Negative") and f.get("mult") is None \
                and f.get("min") is None and f.get("max") is None:
            v = E.reify(1e-9 if f["s"] == "Positive" else -1e-9)
            kw = [(k, x) for k, x in insts[0][0] if k != fd["name"]] + [(fd["name"], v)]
            try:
                out.append((kw, env.classes[c["name"]](**S.realize_kwargs(kw, env))))
            except Exception:  # noqa
                pass
            break
    return out


# ------------------------------------------------------------------ deterministic lattices

INT = {"t": "num", "k": "Integer", "s": "Any"}
ENUM_POS = ["direct", "array", "map", "set", "tuple", "anyof", "optional", "default", "wrapper"]


def enum_position(pos, ef):
    if pos in ("direct", "default", "wrapper"):
        return ef
    if pos == "array":
        return {"t": "seqeach", "k": "list", "item": ef, "sz": [None, None], "uniq": False}
    if pos == "map":
        return {"t": "mapkv", "kf": {"t": "str"}, "vf": ef, "sz": [None, None]}
    if pos == "set":
        return {"t": "set", "imm": False, "item": ef, "sz": [None, None]}
    if pos == "tuple":
        return {"t": "tuple", "items": [ef, INT], "uniq": False}
    if pos == "anyof":
        return {"t": "anyof", "fs": [ef, INT]}
    if pos == "optional":
        return {"t": "anyof", "fs": [ef, {"t": "none"}]}
    raise ValueError(pos)


def enum_value_at(pos, vals):
    """Reified value for the enum position holding the given member values (all of them where the position is a
    container, the first one otherwise)."""
    if pos == "array":
        return ("list", list(vals))
    if pos == "map":
        return ("dict", [(("str", "k%d" % i), v) for i, v in enumerate(vals)])
    if pos == "set":
        return G.mk_set(False, list(vals))
    if pos == "tuple":
        return ("tuple", [vals[0], ("int", 7)])
    return vals[0]


def num_lattice(idx0):
    """Every numeric class (Number/Integer/Float x the five sign classes) x {no explicit bound, explicit maximum,
    explicit minimum} x exclusiveMaximum on/off (typedpy has no exclusiveMinimum); instances: every candidate sitting
    exactly on, and next to, the bound the sign implies (0, +-1, +-0.000001) and the explicit bound, that the real
    field accepts."""
    envs = []
    idx = idx0
    for k in ("Number", "Integer", "Float"):
        for sg in ("Any", "Positive", "Negative", "NonPositive", "NonNegative"):
            for bound in ("none", "max", "min"):
                for xmax in (False, True):
                    f = {"t": "num", "k": k, "s": sg}
                    if bound == "max":
                        f["max"] = E.reify(-3 if sg in ("Negative", "NonPositive") else 5)
                    if bound == "min":
                        f["min"] = E.reify(2 if sg in ("Positive", "NonNegative") else -5)
                    if xmax:
                        f["xmax"] = True
                    env = Env()
                    name = "K%d_0" % idx
                    idx += 1
                    c = {"name": name, "fields": [{"name": "v", "field": f}, {"name": "n", "field": INT}], "additional": False}
                    try:
                        env.add(c)
                    except Exception:  # noqa
                        continue
                    pts = [0, 1, -1, 2, -2]
                    for b in (f.get("max"), f.get("min")):
                        if b is not None:
                            x = G.unreify(b)
                            pts += [x, x - 1, x + 1]
                    cands = []
                    for x in pts:
                        if k != "Float":
                            cands.append(int(x))
                        if k != "Integer":
                            cands += [float(x), x + 0.5, x - 0.5]
                    if k != "Integer":
                        cands += [0.000001, -0.000001, 1e-9, -1e-9, 0.0000011, -0.0000011]
                    insts, seen = [], set()
                    for x in cands:
                        key = (type(x).__name__, x)
                        if key in seen:
                            continue
                        seen.add(key)
                        kw = [("v", E.reify(x)), ("n", ("int", 1))]
                        try:
                            insts.append((kw, env.classes[name](**S.realize_kwargs(kw, env))))
                        except Exception:  # noqa  not a valid value of this declaration
                            pass
                    env.instances[name] = [("struct", name, kw) for kw, _ in insts]
                    env.top_instances = insts
                    env.top = name
                    env.generated = [name]
                    env.snapshot_required()
                    env.history = [(name, False)]
                    env.lattice = "num:%s:%s:%s:%s" % (k, sg, bound, "xmax" if xmax else "-")
                    envs.append(env)
    return envs, idx


def enum_lattice(rnd, idx0, tier):
    """Every enum class of the vocabulary x every position an Enum field can take x (thorough: every proper prefix of
    the members as an explicit subset); instances: every allowed member, as object and by name."""
    envs = []
    idx = idx0
    for cname in sorted(G.ENUMS):
        names = [m.name for m in G.ENUMS[cname]]
        subsets = [names] + ([names[:k] for k in range(1, len(names))] if tier == "thorough" else [names[:1]])
        for si, members in enumerate(subsets):
            for pos in ENUM_POS:
                if si > 0 and tier != "thorough" and pos not in ("direct", "array"):
                    continue
                ef = {"t": "enumcls", "cls": cname, "members": list(members)}
                env = Env()
                name = "K%d_0" % idx
                idx += 1
                fields = [{"name": "e", "field": enum_position(pos, ef)}]
                if pos == "default":
                    fields[0]["default"] = E.reify(G.ENUMS[cname][members[0]])
                if pos != "wrapper":
                    fields.append({"name": "n", "field": INT})
                c = {"name": name, "fields": fields, "additional": False}
                try:
                    env.add(c)
                except Exception:  # noqa  declaration rejected by typedpy
                    continue
                insts = []
                objs = [E.reify(G.ENUMS[cname][m]) for m in members]
                strs = [("str", m) for m in members]
                for vals in [objs, strs] + [[o] for o in objs[1:]] + [[s_] for s_ in strs[1:]]:
                    kw = [("e", enum_value_at(pos, vals))] + ([("n", ("int", 1))] if pos != "wrapper" else [])
                    try:
                        insts.append((kw, env.classes[name](**S.realize_kwargs(kw, env))))
                    except Exception:  # noqa  a value the declaration rejects (before its repair, Enum.__set__ rejected the members of a str mix-in class)
                        pass
                env.instances[name] = [("struct", name, kw) for kw, _ in insts]
                env.top_instances = insts
                env.top = name
                env.generated = [name]
                env.snapshot_required()
                env.history = [(name, False)]
                env.lattice = "enum:%s:%s:%s" % (cname, pos, "all" if si == 0 else "subset%d" % len(members))
                envs.append(env)
    return envs, idx


def ref_shapes(tier):
    """Reference graphs: chains of depth 1..3 through every linking construct, a diamond, two tops sharing a middle
    class.  Each: list of (suffix, [fields]) in definition order, the last one is the top class."""
    leafs = [[{"name": "a", "field": INT}, {"name": "b", "field": {"t": "str"}}],
             [{"name": "v", "field": {"t": "str"}}, {"name": "w", "field": {"t": "bool"}}, {"name": "a", "field": {"t": "str"}}]]
    shapes = []
    k = 0
    for depth in (1, 2, 3):
        for link in LINKS:
            cls = [("Leaf", leafs[k % 2])]
            k += 1
            prev = "Leaf"
            for d in range(depth):
                nm = ["Mid", "Up", "Top"][d] if d < depth - 1 else "Top"
                cls.append((nm, [{"name": "x", "field": ("LINK", link, prev)}, {"name": "n", "field": INT}]))
                prev = nm
            shapes.append(("chain%d:%s" % (depth, link), cls))
    shapes.append(("diamond", [("Leaf", leafs[0]),
                               ("Mid", [{"name": "z", "field": ("LINK", "direct", "Leaf")}, {"name": "n", "field": INT}]),
                               ("Up", [{"name": "z", "field": ("LINK", "array", "Leaf")}, {"name": "m", "field": INT}]),
                               ("Top", [{"name": "l", "field": ("LINK", "direct", "Mid")},
                                        {"name": "r", "field": ("LINK", "direct", "Up")}])]))
    shapes.append(("shared-mid", [("Leaf", leafs[1]),
                                  ("Mid", [{"name": "z", "field": ("LINK", "direct", "Leaf")}, {"name": "n", "field": INT}]),
                                  ("Up", [{"name": "m", "field": ("LINK", "direct", "Mid")}, {"name": "x", "field": INT}]),
                                  ("Top", [{"name": "m", "field": ("LINK", "optional", "Mid")}, {"name": "y", "field": {"t": "str"}}])]))
    return shapes


def ref_histories(names):
    """Export histories over the classes of a reference graph (names in definition order, top last)."""
    top, aux = names[-1], names[:-1]
    hs = [("repeat", [(top, False), (top, False)]),
          ("parts-first", [(a, False) for a in aux] + [(top, False)]),
          ("one-document", [(aux[0], False)] + [(a, True) for a in aux[1:]] + [(top, True)])]
    if len(aux) >= 2:
        hs.append(("top-mid-top", [(top, False), (aux[-1], False), (top, False)]))
        hs.append(("top-leaf-top", [(top, False), (aux[0], False), (top, False)]))
    return hs


def ref_lattice(rnd, tier):
    """Reference graphs x export histories; every environment defines its OWN classes under the SAME class names
    (Leaf/Mid/Up/Top) as the ones before it, with different fields, so that any state kept across exports (by class
    object or by class name) is exercised.  The replay of a failure carries the earlier environments as prelude."""
    envs = []
    prelude = []
    for sname, cls in ref_shapes(tier):
        names = [n for n, _ in cls]
        for hname, hist in ref_histories(names):
            if tier != "thorough" and sname.startswith("chain1") and hname != "repeat":
                continue
            env = Env()
            env.prelude = list(prelude)
            for i, (nm, fields) in enumerate(cls):
                c = {"name": nm, "additional": False,
                     "fields": [{"name": fd["name"], "field": link_field(fd["field"][1], fd["field"][2])
                                 if isinstance(fd["field"], tuple) else fd["field"]} for fd in fields]}
                env.top_instances = add_class(rnd, env, c, top=False)
            env.top = names[-1]
            env.generated = list(names)
            env.snapshot_required()
            env.history = hist
            env.lattice = "ref:%s:%s" % (sname, hname)
            envs.append(env)
            prelude = (prelude + [(("from typedpy import mappers\n" + "".join(class_src(c) + "\n" for c in env.asts[3:])),
                                   [list(h) for h in hist])])[-6:]
    return envs


def serialize_top(env, inst):
    from typedpy import serialize
    return serialize(inst, compact=True) if env.wrapper_form(env.top) else serialize(inst)


# ------------------------------------------------------------------ finding keys: counterfactual repairs
# A failure is keyed by the smallest set of *specific* repairs of the export that makes the independent
# validator accept; a failure no listed repair explains keeps a generic key (and is a VIOLATION).

def walk_schemas(s, fn):
    """Apply fn to every schema object inside s (in place), children first."""
    if isinstance(s, list):
        for x in s:
            walk_schemas(x, fn)
    elif isinstance(s, dict):
        for k, v in list(s.items()):
            if k in ("enum", "default", "required"):
                continue
            if k in ("properties", "definitions", "patternProperties") and isinstance(v, dict):
                if k == "patternProperties" and not all(isinstance(x, dict) for x in v.values()):
                    continue
                for x in v.values():
                    walk_schemas(x, fn)
            else:
                walk_schemas(v, fn)
        fn(s)


def rep_patprops(doc, ctx):
    def fn(s):
        v = s.get("patternProperties")
        if v is not None and not (isinstance(v, dict) and all(isinstance(x, dict) for x in v.values())):
            del s["patternProperties"]
            ctx["changed"] = True
    walk_schemas(doc, fn)


def rep_required_empty(doc, ctx):
    def fn(s):
        if s.get("required") == []:
            del s["required"]
            ctx["changed"] = True
    walk_schemas(doc, fn)


def rep_enum_dups(doc, ctx):
    def fn(s_):
        if isinstance(s_.get("enum"), list):
            out = []
            for x in s_["enum"]:
                if not any(type(x) is type(y) and x == y for y in out):
                    out.append(x)
            if len(out) != len(s_["enum"]):
                s_["enum"] = out
                ctx["changed"] = True
    walk_schemas(doc, fn)


def rep_exclmax(doc, ctx):
    def fn(s):
        if "exclusiveMaximum" in s and "maximum" not in s:
            del s["exclusiveMaximum"]
            ctx["changed"] = True
    walk_schemas(doc, fn)


def rep_eps(doc, ctx):
    def fn(s):
        if s.get("minimum") == 0.000001 and isinstance(s.get("minimum"), float):
            del s["minimum"]
            ctx["changed"] = True
        if s.get("maximum") == -0.000001 and isinstance(s.get("maximum"), float):
            del s["maximum"]
            ctx["changed"] = True
    walk_schemas(doc, fn)


def rep_tuple1(doc, ctx):
    def fn(s):
        if isinstance(s.get("items"), list) and len(s["items"]) == 1 and s.get("additionalItems") is False:
            s["items"] = s["items"][0]
            del s["additionalItems"]
            ctx["changed"] = True
    walk_schemas(doc, fn)


def has_key(s, key):
    if isinstance(s, dict):
        return key in s or any(has_key(v, key) for v in s.values())
    if isinstance(s, list):
        return any(has_key(v, key) for v in s)
    return False


def rep_tuple_untyped(doc, ctx):
    """The serializer renders Tuple elements without their item fields, so an enum member with a mixed-in primitive
    type appears by value where the item schema lists names."""
    env = ctx["env"]

    def fn(f, s_):
        if f["t"] == "tuple" and isinstance(s_.get("items"), list):
            for i, x in enumerate(s_["items"]):
                if has_key(x, "enum"):
                    s_["items"][i] = {}
                    ctx["changed"] = True
    class_walk(env, env.top, doc, doc, fn, set())


def rep_wrapper(doc, ctx):
    env = ctx["env"]
    for name, d in list(doc.get("definitions", {}).items()):
        if name in env.classes and env.wrapper_form(name):
            fname = env.resolved(name)["field_names"][0]
            key = dict(ctx["eff"].get(name, env.renames(name))).get(fname, fname)
            doc["definitions"][name] = {"type": "object", "properties": {key: d}, "required": [key],
                                        "additionalProperties": False}
            ctx["changed"] = True


def none_keys(r, env, eff, acc):
    """class name -> serialized keys of attributes holding None somewhere inside the reified kwargs."""
    t = r[0]
    if t == "struct":
        ren = dict(eff.get(r[1], env.renames(r[1]))) if r[1] in env.classes else {}
        for k, v in r[2]:
            if v[0] == "none":
                acc.setdefault(r[1], set()).add(ren.get(k, k))
                acc.setdefault(r[1], set()).add(dict(env.renames(r[1])).get(k, k) if r[1] in env.classes else k)
            else:
                none_keys(v, env, eff, acc)
    elif t in ("list", "tuple", "deque"):
        for x in r[1]:
            none_keys(x, env, eff, acc)
    elif t == "set":
        for x in r[2]:
            none_keys(x, env, eff, acc)
    elif t == "dict":
        for k, x in r[1]:
            none_keys(x, env, eff, acc)
    return acc


def rep_none_required(doc, ctx):
    env = ctx["env"]
    nk = none_keys(("struct", env.top, ctx["kwargs"]), env, ctx["eff"], {})
    targets = [(env.top, doc)] + [(n, d) for n, d in doc.get("definitions", {}).items()]
    for name, d in targets:
        if isinstance(d.get("required"), list) and name in nk:
            new = [k for k in d["required"] if k not in nk[name]]
            if new != d["required"]:
                d["required"] = new
                if not new:
                    del d["required"]
                ctx["changed"] = True


def rep_nested_mapper(doc, ctx):
    """The serializer applies the parent's mapper to nested class instances; the definition has the class's own keys.
    A class reached through several paths (with / without a '<field>._mapper' entry) is serialized differently on each
    path: the repaired definition then admits every form the paths produce."""
    env = ctx["env"]
    env.effective_renames()
    for name, d in list(doc.get("definitions", {}).items()):
        if name not in env.classes or name not in ctx["eff"] or env.wrapper_form(name) or "properties" not in d:
            continue
        own = dict(env.renames(name))
        forms = []
        for eff in [dict(r) for r in env.rename_cands.get(name, [ctx["eff"][name]])]:
            ren = {own.get(f, f): eff.get(f, f) for f in env.resolved(name)["field_names"]}
            v = dict(d)
            v["properties"] = {ren.get(k, k): x for k, x in d["properties"].items()}
            if isinstance(d.get("required"), list):
                v["required"] = [ren.get(k, k) for k in d["required"]]
            if v not in forms:
                forms.append(v)
        if forms and forms != [d]:
            doc["definitions"][name] = forms[0] if len(forms) == 1 else {"anyOf": forms}
            ctx["changed"] = True


def rep_bool_strings(doc, ctx):
    def fn(s):
        if s.get("type") == "boolean" and len(s) == 1:
            s.clear()
            s["anyOf"] = [{"type": "boolean"}, {"enum": ["True", "False"]}]
            ctx["changed"] = True
    walk_schemas(doc, fn)


def rep_unique_bool(doc, ctx):
    def fn(s):
        if s.get("uniqueItems") is True:
            del s["uniqueItems"]
            ctx["changed"] = True
    walk_schemas(doc, fn)


def rep_map_sizes(doc, ctx):
    def fn(s):
        if s.get("type") == "object":
            for a, b in (("minItems", "minProperties"), ("maxItems", "maxProperties")):
                if a in s:
                    s[b] = s.pop(a)
                    ctx["changed"] = True
    walk_schemas(doc, fn)


def rep_map_keys(doc, ctx):
    """A Map whose String key field is constrained is exported as "patternProperties": {<key regex>: <value schema>} alone:
    keys the regex does not find are unconstrained (and so are their values), and the regex is the key pattern followed by
    the text "{min, max}", which is no bound on the key's length.  Repaired: the regex says what String(...) checks of a
    key, and no other key is admitted."""
    env = ctx["env"]

    def fn(f, s_):
        key = map_key_text(f) if f["t"] == "mapkv" else None
        pp = s_.get("patternProperties")
        if not key or not isinstance(pp, dict) or key not in pp or "additionalProperties" in s_:
            return
        kf = f["kf"]
        lo, hi = kf.get("min") or 0, kf.get("max")
        rx = "^(?=[\\s\\S]{%d,%s}\\Z)" % (max(lo, 0), "" if hi is None else hi)
        if kf.get("pat") is not None:
            rx += "(?:%s)" % G.PATTERNS[kf["pat"]]
        s_["patternProperties"] = {rx: pp[key]}
        s_["additionalProperties"] = False
        ctx["changed"] = True
    class_walk(env, env.top, doc, doc, fn, set())


def rep_set_minitems(doc, ctx):
    def fn(s):
        if s.get("uniqueItems") is True and "minItems" in s:
            del s["minItems"]
            ctx["changed"] = True
    walk_schemas(doc, fn)


def rep_not(doc, ctx):
    def fn(s):
        if "not" in s:
            del s["not"]
            ctx["changed"] = True
    walk_schemas(doc, fn)


def rep_oneof(doc, ctx):
    def fn(s):
        if "oneOf" in s and "anyOf" not in s:
            s["anyOf"] = s.pop("oneOf")
            ctx["changed"] = True
    walk_schemas(doc, fn)


def rep_allof(doc, ctx):
    """AllOf is exported as allOf over the options' schemas, but the serializer erases the Python type: a member of an
    enum class with a mixed-in primitive type satisfies Enum[...] AND Float in Python, its serialization (the name)
    only the enum branch."""
    def fn(s):
        if "allOf" in s and "anyOf" not in s:
            s["anyOf"] = s.pop("allOf")
            ctx["changed"] = True
    walk_schemas(doc, fn)


def rep_excl_implied(doc, ctx):
    def fn(s):
        if s.get("exclusiveMaximum") is True and s.get("maximum") in (0, -1, -0.000001) and s.get("type") in ("number", "integer"):
            del s["exclusiveMaximum"]
            ctx["changed"] = True
    walk_schemas(doc, fn)


def rep_null_elements(doc, ctx):
    def opt(x):
        return {"anyOf": [x, {"type": "null"}]}

    def fn(s):
        if s.get("type") == "array" and not s.get("_nulled"):
            if isinstance(s.get("items"), dict):
                s["items"] = opt(s["items"]); ctx["changed"] = True
            elif isinstance(s.get("items"), list):
                s["items"] = [opt(x) for x in s["items"]]; ctx["changed"] = True
        if s.get("type") == "object" and isinstance(s.get("additionalProperties"), dict) and "properties" not in s:
            s["additionalProperties"] = opt(s["additionalProperties"]); ctx["changed"] = True
        # a Map with a constrained key field is exported through patternProperties (since the F16b repair)
        if s.get("type") == "object" and isinstance(s.get("patternProperties"), dict) and "properties" not in s \
                and all(isinstance(x, dict) for x in s["patternProperties"].values()):
            s["patternProperties"] = {k: opt(x) for k, x in s["patternProperties"].items()}; ctx["changed"] = True
    walk_schemas(doc, fn)


def has_decimal(r):
    if isinstance(r, (list, tuple)):
        if len(r) > 0 and r[0] == "dec":
            return True
        return any(has_decimal(x) for x in r)
    return False


def rep_decimal(doc, ctx):
    if not has_decimal(ctx["kwargs"]):
        return

    def fn(s):
        if s.get("type") in ("number", "integer") and "anyOf" not in s:
            inner = dict(s)
            s.clear()
            s["anyOf"] = [inner, {"type": "string"}]
            ctx["changed"] = True
    walk_schemas(doc, fn)


def has_bool(r):
    if isinstance(r, (list, tuple)):
        if len(r) == 2 and r[0] == "bool":
            return True
        return any(has_bool(x) for x in r)
    return False


def rep_bool_number(doc, ctx):
    if not has_bool(ctx["kwargs"]):
        return

    def fn(s):
        if s.get("type") in ("number", "integer") and "anyOf" not in s:
            inner = dict(s)
            s.clear()
            s["anyOf"] = [inner, {"type": "boolean"}]
            ctx["changed"] = True
    walk_schemas(doc, fn)


def has_json_bool(j):
    if isinstance(j, bool):
        return True
    if isinstance(j, list):
        return any(has_json_bool(x) for x in j)
    if isinstance(j, dict):
        return any(has_json_bool(x) for x in j.values())
    return False


def rep_bool_number_exact(doc, ctx):
    """Exactness side: a JSON boolean is a Python int, so Number/Integer fields accept it (True == 1, False == 0)."""
    if not has_json_bool(ctx.get("inst")):
        return

    def fn(s):
        if s.get("type") in ("number", "integer") and "anyOf" not in s:
            inner = dict(s)
            s.clear()
            s["anyOf"] = [inner, {"type": "boolean"}]
            ctx["changed"] = True
    walk_schemas(doc, fn)


def rep_enum_python_eq(doc, ctx):
    """Enum over literals tests membership with Python equality: False == 0 and True == 1 (JSON keeps them apart)."""
    def fn(s):
        if isinstance(s.get("enum"), list):
            extra = []
            for x in s["enum"]:
                if isinstance(x, bool):
                    extra.append(int(x))
                elif isinstance(x, (int, float)) and x in (0, 1):
                    extra.append(bool(x))
            extra = [x for x in extra if not any(type(x) is type(y) and x == y for y in s["enum"])]
            if extra:
                s["enum"] = s["enum"] + extra
                ctx["changed"] = True
    walk_schemas(doc, fn)


def rep_wrapper_none(doc, ctx):
    env = ctx["env"]
    if env.wrapper_form(env.top) and len(ctx["kwargs"]) == 1 and ctx["kwargs"][0][1][0] == "none":
        for k in [k for k in doc if k != "definitions"]:
            del doc[k]
        doc["type"] = "null"
        ctx["changed"] = True


def is_optional(f):
    return f["t"] == "anyof" and len(f["fs"]) == 2 and f["fs"][1]["t"] == "none"


def field_walk(env, f, s, doc, fn, seen):
    """Walk a declaration in parallel with its exported (dialect-translated) schema; children first."""
    if not isinstance(s, dict):
        return
    t = f["t"]
    if t == "seqeach" or (t == "set" and f.get("item")):
        field_walk(env, f["item"], s.get("items"), doc, fn, seen)
    elif t in ("seqpos", "tuple"):
        if isinstance(s.get("items"), list):
            for g, x in zip(f["items"], s["items"]):
                field_walk(env, g, x, doc, fn, seen)
    elif t == "mapkv":
        x = s.get("additionalProperties") if isinstance(s.get("additionalProperties"), dict) else s.get("patternProperties")
        key = map_key_text(f)
        if isinstance(x, dict) and x is s.get("patternProperties") and key in x and isinstance(x[key], dict):
            x = x[key]          # {<key regex>: <value schema>}  (the bare value schema before the repair of F16b)
        field_walk(env, f["vf"], x, doc, fn, seen)
    elif is_optional(f):
        field_walk(env, f["fs"][0], s, doc, fn, seen)
        return
    elif t in ("allof", "anyof", "oneof"):
        lst = s.get({"allof": "allOf", "anyof": "anyOf", "oneof": "oneOf"}[t])
        if isinstance(lst, list):
            for g, x in zip(f["fs"], lst):
                field_walk(env, g, x, doc, fn, seen)
    elif t == "not":
        lst = s["not"].get("anyOf") if isinstance(s.get("not"), dict) else None
        if isinstance(lst, list):
            for g, x in zip(f["fs"], lst):
                field_walk(env, g, x, doc, fn, seen)
    elif t == "ref":
        d = doc.get("definitions", {}).get(f["cls"])
        if f["cls"] in env.classes:
            class_walk(env, f["cls"], d, doc, fn, seen)
    fn(f, s)


def map_key_text(f):
    """the key of "patternProperties" MapMapper writes for the Map declaration f (None: no String key field)"""
    from harness import c08_src
    kf = f.get("kf")
    return c08_src.key_text(kf) if isinstance(kf, dict) and kf.get("t") == "str" else None


def class_walk(env, cname, s, doc, fn, seen):
    if cname in seen or not isinstance(s, dict):
        return
    seen.add(cname)
    fields = env.all_fields(cname)
    if env.wrapper_form(cname):
        field_walk(env, fields[0]["field"], s, doc, fn, seen)
    elif isinstance(s.get("properties"), dict):
        ren = dict(env.renames(cname))
        for fd in fields:
            field_walk(env, fd["field"], s["properties"].get(ren.get(fd["name"], fd["name"])), doc, fn, seen)


SIGN_SCHEMA = {"Positive": {"minimum": 0, "exclusiveMinimum": True}, "NonNegative": {"minimum": 0},
               "Negative": {"maximum": 0, "exclusiveMaximum": True}, "NonPositive": {"maximum": 0}}


def sign_lost(f):
    return f["t"] == "num" and ((f["s"] in ("Positive", "NonNegative") and f.get("min") is not None)
                                or (f["s"] in ("Negative", "NonPositive") and f.get("max") is not None))


def rep_sign(doc, ctx):
    """NumberMapper.get_min/get_max return the explicit bound INSTEAD of the bound implied by the sign class."""
    env = ctx["env"]

    def fn(f, s):
        if sign_lost(f) and "allOf" not in s:
            old = dict(s)
            s.clear()
            s["allOf"] = [old, dict(SIGN_SCHEMA[f["s"]])]
            ctx["changed"] = True
    class_walk(env, env.top, doc, doc, fn, set())


def rep_literal_member(doc, ctx):
    """Enum over a MIXED list of literals and enum members: EnumMapper lists a member by name, Enum.serialize returns
    the stored member as it is (json: its value when the class mixes in a primitive type)."""
    env = ctx["env"]

    def fn(f, s_):
        if f["t"] == "enumlit" and isinstance(s_.get("enum"), list):
            for v in f["values"]:
                if v[0] == "enum" and v[3][0] in ("int", "flt", "str", "bool"):
                    s_["enum"] = s_["enum"] + [G.unreify(v[3])]
                    ctx["changed"] = True
    class_walk(env, env.top, doc, doc, fn, set())


def rep_multifield_by_value_name(doc, ctx):
    """An Enum over a class with serialization_by_value=True as an OPTION of AllOf / AnyOf / OneOf: the wrapper validates
    the value with the option -- which accepts a member NAME -- and stores the value as it was given (options never
    convert), so the name string is serialized as it is; the export lists the members' VALUES."""
    env = ctx["env"]

    def fn(f, s_):
        kw = {"allof": "allOf", "anyof": "anyOf", "oneof": "oneOf"}.get(f["t"])
        lst = s_.get(kw) if kw else None
        if not isinstance(lst, list) or is_optional(f):
            return
        for g, x in zip(f["fs"], lst):
            if g["t"] == "enumcls" and g["cls"] in G.BY_VALUE and isinstance(x, dict) and isinstance(x.get("enum"), list):
                extra = [m for m in g["members"] if not any(isinstance(y, str) and y == m for y in x["enum"])]
                if extra:
                    x["enum"] = x["enum"] + extra
                    ctx["changed"] = True
    class_walk(env, env.top, doc, doc, fn, set())


def rep_literal_member_exact(doc, ctx):
    """Exactness side of the same defect: the export lists the member's NAME, which the field (membership in the
    declared list) does not accept; the stricter export lists the member's value instead."""
    env = ctx["env"]

    def fn(f, s_):
        if f["t"] == "enumlit" and isinstance(s_.get("enum"), list) and any(v[0] == "enum" for v in f["values"]):
            out = []
            for v in f["values"]:
                if v[0] != "enum":
                    out.append(G.unreify(v))
                elif v[3][0] in ("int", "flt", "str", "bool"):
                    out.append(G.unreify(v[3]))
            s_["enum"] = out or ["\u0000no-such-value"]
            ctx["changed"] = True
    class_walk(env, env.top, doc, doc, fn, set())


def has_subclass_struct(r, env):
    if isinstance(r, (list, tuple)):
        if len(r) == 3 and r[0] == "struct" and isinstance(r[1], str):
            try:
                if env.ancestors(r[1]):
                    return True
            except KeyError:
                pass
        return any(has_subclass_struct(x, env) for x in r)
    return False


def rep_subclass_instance(doc, ctx):
    """A field declared as class B accepts instances of subclasses of B, serialized with the subclass's own fields;
    the definition of B is closed (additionalProperties false)."""
    env = ctx["env"]
    if not has_subclass_struct(ctx["kwargs"], env):
        return
    for name, d in doc.get("definitions", {}).items():
        if isinstance(d, dict) and d.get("additionalProperties") is False:
            d["additionalProperties"] = True
            ctx["changed"] = True


def rep_option_validate_only(doc, ctx):
    """serialize_multifield_wrapper serializes a value with the FIRST option whose _validate passes; _validate of the
    sign classes (Positive/Negative/NonPositive/NonNegative...) is Number's -- the sign is only checked in __set__ --
    so a value the option REJECTS (a positive int, e.g. a member of an enum.IntEnum accepted by a later Enum option) is
    serialized by it, raw.  Counterfactual: the numeric options of multi-field wrappers without their sign-implied
    bound (what the serializer's choice actually tests)."""
    env = ctx["env"]

    def fn(f, s_):
        if f["t"] in ("anyof", "oneof", "allof") and not is_optional(f):
            lst = s_.get({"allof": "allOf", "anyof": "anyOf", "oneof": "oneOf"}[f["t"]])
            if not isinstance(lst, list):
                return
            for g, x in zip(f["fs"], lst):
                if g["t"] == "num" and g["s"] != "Any" and isinstance(x, dict):
                    if g["s"] in ("Positive", "NonNegative") and g.get("min") is None and "minimum" in x:
                        del x["minimum"]
                        ctx["changed"] = True
                    if g["s"] in ("Negative", "NonPositive") and g.get("max") is None and "maximum" in x:
                        del x["maximum"]
                        x.pop("exclusiveMaximum", None)
                        ctx["changed"] = True
    class_walk(env, env.top, doc, doc, fn, set())


def rep_positional_min(doc, ctx):
    """Array(items=[...]) / Tuple require at least len(items) elements; the export has no minItems."""
    def fn(s):
        if s.get("type") == "array" and isinstance(s.get("items"), list) and s.get("minItems", 0) < len(s["items"]):
            s["minItems"] = len(s["items"])
            ctx["changed"] = True
    walk_schemas(doc, fn)


WF_REPAIRS = [("patternProperties-not-an-object-of-schemas", rep_patprops), ("required-empty", rep_required_empty),
              ("exclusiveMaximum-without-maximum", rep_exclmax),
              ("enum-entries-not-unique", rep_enum_dups)]
# AST-aware repairs (they walk the declarations in parallel with the export) come before the ones that reshape it
COMPLETE_REPAIRS = [("sign-dropped-under-explicit-bound", rep_sign),
                    ("multi-field-value-serialized-by-an-option-that-rejects-it", rep_option_validate_only),
                    ("enum-member-among-literals-serialized-as-stored", rep_literal_member),
                    ("multi-field-option-stores-the-name-of-a-by-value-enum-member", rep_multifield_by_value_name),
                    ("sign-only-bound-rendered-as-epsilon", rep_eps), ("nested-field-wrapper", rep_wrapper),
                    ("required-key-of-None-valued-attribute-dropped", rep_none_required),
                    ("single-item-Tuple-is-homogeneous", rep_tuple1),
                    ("mapper-propagates-into-nested-class", rep_nested_mapper),
                    ("Set-minItems-checked-before-normalisation", rep_set_minitems),
                    ("uniqueItems-checked-before-normalisation", rep_unique_bool),
                    ("exclusiveMaximum-applied-to-sign-implied-maximum", rep_excl_implied),
                    ("Map-size-exported-as-minItems-maxItems", rep_map_sizes),
                    ("subclass-instance-under-base-class-reference", rep_subclass_instance),
                    ("Boolean-string-form-stored-raw", rep_bool_strings),
                    ("Optional-element-serialized-as-null", rep_null_elements),
                    ("field-wrapper-holding-None", rep_wrapper_none),
                    ("Decimal-value-serialized-as-string", rep_decimal),
                    ("bool-value-under-numeric-field", rep_bool_number),
                    ("Enum-literals-compared-with-Python-equality", rep_enum_python_eq),
                    ("NotField-evaluated-on-serialized-form", rep_not),
                    ("OneOf-evaluated-on-serialized-form", rep_oneof),
                    ("AllOf-evaluated-on-serialized-form", rep_allof),
                    # repaired in the library (serialize_val gives Tuple elements their item fields): tried last, so that a
                    # failure INSIDE a Tuple element is attributed to its own cause first
                    ("Tuple-elements-serialized-without-their-item-fields", rep_tuple_untyped)]


# exactness: a repair explains "admitted by the schema, rejected by the Deserializer" when the repaired (stricter)
# schema rejects the document
EXACT_REPAIRS = [("sign-dropped-under-explicit-bound", rep_sign),
                 ("Map-key-constraints-not-enforced-by-patternProperties", rep_map_keys),
                 ("enum-member-among-literals-serialized-as-stored", rep_literal_member_exact),
                 ("positional-items-admit-shorter-arrays", rep_positional_min),
                 ("nested-field-wrapper", rep_wrapper),
                 ("Map-size-exported-as-minItems-maxItems", rep_map_sizes),
                 ("Boolean-string-form-stored-raw", rep_bool_strings),
                 ("bool-value-under-numeric-field", rep_bool_number_exact),
                 ("Enum-literals-compared-with-Python-equality", rep_enum_python_eq)]


def apply_repairs(doc, repairs, ctx):
    d = copy.deepcopy(doc)
    names = []
    for n, fn in repairs:
        ctx["changed"] = False
        fn(d, ctx)
        if ctx["changed"]:
            names.append(n)
    return d, names


def classify(failures, repairs, prefix, generic):
    """failures: list of dict(doc, inst|None, ctx).  Returns a key per failure.
    inst None: the criterion is check_schema + refs; otherwise is_valid(inst)."""
    jobs, plan = [], []
    for fi, f in enumerate(failures):
        variants = []
        for r in repairs:
            d, names = apply_repairs(f["doc"], [r], f["ctx"])
            if names:
                variants.append((names, d))
        d, names = apply_repairs(f["doc"], repairs, f["ctx"])
        if names:
            variants.append((names, d))
        for names, d in variants:
            jobs.append({"doc": d, "instances": [] if f["inst"] is None else [f["inst"][0]]})
            plan.append((fi, names))
    keys = [None] * len(failures)

    def passes(fi, r):
        if failures[fi]["inst"] is None:
            return r["schema_error"] is None and not r["refs_missing"] and not r["crash"]
        return bool(r["verdicts"]) and r["verdicts"][0] is failures[fi].get("want", True)

    multi = {}
    if jobs:
        res = run_vt(jobs)
        for (fi, names), r in zip(plan, res):
            if keys[fi] is None and passes(fi, r):
                keys[fi] = names
                if len(names) > 1:
                    multi[fi] = names
    # minimise the combined explanations: drop every repair that is not needed
    jobs2, plan2 = [], []
    by_name = dict(repairs)
    for fi, names in multi.items():
        for n in names:
            rest = [(m, by_name[m]) for m in names if m != n]
            d, got = apply_repairs(failures[fi]["doc"], rest, failures[fi]["ctx"])
            jobs2.append({"doc": d, "instances": [] if failures[fi]["inst"] is None else [failures[fi]["inst"][0]]})
            plan2.append((fi, n))
    if jobs2:
        res2 = run_vt(jobs2)
        unneeded = {}
        for (fi, n), r in zip(plan2, res2):
            if passes(fi, r):
                unneeded.setdefault(fi, []).append(n)
        jobs3, plan3 = [], []
        for fi, drop in unneeded.items():
            keep = [m for m in multi[fi] if m not in drop]
            d, got = apply_repairs(failures[fi]["doc"], [(m, by_name[m]) for m in keep], failures[fi]["ctx"])
            jobs3.append({"doc": d, "instances": [] if failures[fi]["inst"] is None else [failures[fi]["inst"][0]]})
            plan3.append((fi, keep))
        if jobs3:
            for (fi, keep), r in zip(plan3, run_vt(jobs3)):
                if keep and passes(fi, r):
                    keys[fi] = keep
    return [prefix + "+".join(k) if k is not None else generic(f) for k, f in zip(keys, failures)]


# ------------------------------------------------------------------ Coq evaluation

HEADER0 = """From Coq Require Import ZArith NArith String List Bool. Import ListNotations.
From TP Require Import Check.C08chk.
Local Open Scope string_scope.
Definition einfo0 : list (pystr * eopts) := %s.
"""


def coq_eval(defs_and_evals, tag):
    """defs_and_evals: list of (shard text, number of Eval lines).  Returns list of lists of nat lists."""
    res = core.eval_cases([t for t, _ in defs_and_evals], tag, HEADER0 % einfo_text())
    out = []
    for (rc, so, se), (_, n) in zip(res, defs_and_evals):
        vals = core.parse_eval(so)
        if rc != 0 or len(vals) != n:
            raise RuntimeError("shard failed to evaluate: %s" % ((so + se)[-1800:]))
        out.append([core.parse_nat_list(v) for v in vals])
    return out


def einfo_text():
    return E.lst(["(%s, {| eo_mixin := %s; eo_by_value := %s |})" % (E.pstr(n), X.mixin_of(c), E.blit(n in G.BY_VALUE))
                  for n, c in sorted(G.ENUMS.items())])


def env_text(env):
    if getattr(env, "_text", None) is None:
        env._text = E.lst(["\n  " + env.emit_classdef(c["name"]) for c in env.asts])
    return env._text


def scase_text(ev, pats):
    env, obs = ev.env, ev.out
    o = "None"
    if obs[0] == "ok":
        o = "(Some (%s, %s))" % (jval(obs[1]), jval(obs[2]))
    return ("{| sc_env := %s; sc_einfo := einfo0; sc_smap := %s; sc_pats := %s; sc_pre := %s; sc_cls := %s; "
            "sc_obs := %s |}") % (env_text(env), env.coq_smap(),
                                  pats.ptable([fd["field"] for c in env.asts for fd in c["fields"]]),
                                  E.lst([E.pstr(n) for n in ev.pre]),
                                  E.pstr(ev.cls), o)


def rcase_text(env, attrs, obs_json):
    vals = [v for _, v in attrs]
    fields = [fd["field"] for c in env.asts for fd in c["fields"]]
    return ("{| rc_tbl := %s; rc_env := %s; rc_einfo := einfo0; rc_smap := %s; rc_cls := %s; rc_attrs := %s; "
            "rc_obs := %s |}") % (
        G.emit_table(G.match_table(fields, vals)), env_text(env), env.coq_smap(effective=True), E.pstr(env.top),
        E.lst(["(%s, %s)" % (E.pstr(k), E.pval(v)) for k, v in attrs]), jval(obs_json))


# ------------------------------------------------------------------ boundary documents (exact sub-fragment)

def exact_field(f):
    """The exact sub-fragment of the statement: everything schema-mappable except Set, unanchored patterns and
    sign-only float bounds (defaults and date/time formats are excluded at class level / not generated)."""
    t = f["t"]
    if t == "num":
        if f["k"] != "Integer" and ((f["s"] == "Positive" and f.get("min") is None)
                                    or (f["s"] == "Negative" and f.get("max") is None)):
            return False
        return not (f.get("mult") is not None and f["mult"] <= 0)
    if t == "str":
        return f.get("pat") is None or G.PATTERNS[f["pat"]].startswith("^")
    if t in ("bool", "enumlit", "enumcls", "seqany", "mapany", "ref"):
        return True
    if t == "seqeach":
        return exact_field(f["item"])
    if t in ("seqpos", "tuple"):
        return all(exact_field(g) for g in f["items"])
    if t == "mapkv":
        return f["kf"]["t"] == "str" and exact_field(f["kf"]) and exact_field(f["vf"])
    if t in ("allof", "anyof", "oneof", "not"):
        return all(exact_field(g) or g["t"] == "none" for g in f["fs"])
    return False            # set; none / any (unmappable)


def exact_class(env):
    """Every class of the environment the top class can reach is in the exact sub-fragment."""
    return all(fd.get("default") is None and exact_field(fd["field"])
               for n in env.generated for fd in env.ast(n)["fields"])


def near(rnd, j):
    """One-point perturbation of a JSON document."""
    if isinstance(j, bool):
        return rnd.choice([not j, 1, "True", None])
    if isinstance(j, int):
        return rnd.choice([j + 1, j - 1, j + 2, j * 2, -j, float(j), j + 0.5, 0, str(j), True])
    if isinstance(j, float):
        return rnd.choice([j + 0.5, j - 0.5, math.nextafter(j, math.inf), math.nextafter(j, -math.inf), int(j), -j, 0.0])
    if isinstance(j, str):
        return rnd.choice([j + "a", j[:-1], j + j, "", j.upper(), "1" + j, 5])
    if isinstance(j, list):
        k = list(j)
        r = rnd.random()
        if k and r < 0.5:
            i = rnd.randrange(len(k))
            k[i] = near(rnd, k[i])
        elif k and r < 0.7:
            k.pop()
        elif k:
            k.append(k[0])
        else:
            k.append(rnd.choice([1, "a", None]))
        return k
    if isinstance(j, dict):
        d = dict(j)
        r = rnd.random()
        if d and r < 0.6:
            key = rnd.choice(sorted(d))
            d[key] = near(rnd, d[key])
        elif d and r < 0.8:
            d.pop(rnd.choice(sorted(d)))
        else:
            d["zz_extra"] = rnd.choice([1, "x", None])
        return d
    return rnd.choice([0, "a", [], {}])


def _num_points(s_):
    lo, hi, m, t = s_.get("minimum"), s_.get("maximum"), s_.get("multipleOf"), s_.get("type")
    pts = [0, 1, -1]
    for b in (lo, hi):
        if isinstance(b, (int, float)) and not isinstance(b, bool):
            pts += [b, b - 1, b + 1, math.floor(b), math.ceil(b)]
            if t != "integer":
                pts += [b - 0.5, b + 0.5, math.nextafter(float(b), math.inf), math.nextafter(float(b), -math.inf)]
    if isinstance(m, (int, float)) and not isinstance(m, bool) and m:
        pts += [m, 2 * m, m + 1, -m]
        for b in (lo, hi):
            if isinstance(b, (int, float)) and not isinstance(b, bool):
                q = math.floor(b / m)
                pts += [q * m, (q + 1) * m, (q - 1) * m]
    out = []
    for p_ in pts:
        if isinstance(p_, float) and p_.is_integer() and abs(p_) < 2 ** 53:
            out += [int(p_), p_] if t != "integer" else [int(p_)]
        else:
            out.append(p_)
    return out


def _resolve(s_, defs):
    for _ in range(4):
        if isinstance(s_, dict) and isinstance(s_.get("$ref"), str):
            s_ = defs.get(s_["$ref"][len("#/definitions/"):], {})
    return s_ if isinstance(s_, dict) else {}


def variants(s_, v, defs, depth=0):
    """Values at and next to the boundaries the (dialect-translated) schema s_ draws, starting from the admitted
    value v: every keyword of the schema contributes the points just inside and just outside."""
    s_ = _resolve(s_, defs)
    out = []
    if depth > 3:
        return out
    for key in ("allOf", "anyOf", "oneOf"):
        for br in s_.get(key) or []:
            out += variants(br, v, defs, depth + 1)
    if isinstance(s_.get("not"), dict):
        out += variants(s_["not"], v, defs, depth + 1)
    if isinstance(s_.get("enum"), list):
        out += list(s_["enum"])
        for x in s_["enum"][:3]:
            if isinstance(x, str):
                out += [x.lower(), x + "x"]
            elif isinstance(x, (int, float)) and not isinstance(x, bool):
                out += [x + 1, str(x)]
        out += X_NEAR
    t = s_.get("type")
    if t in ("integer", "number") or any(k in s_ for k in ("minimum", "maximum", "multipleOf")):
        out += _num_points(s_)
        if t == "integer":
            out += [True, 1.0, 1.5]
    if t == "string" or any(k in s_ for k in ("minLength", "maxLength", "pattern")):
        lens = {0, 1}
        for k in ("minLength", "maxLength"):
            if isinstance(s_.get(k), int):
                lens |= {max(0, s_[k] - 1), s_[k], s_[k] + 1}
        pool = list(G.STRINGS) + ["a" * n for n in sorted(lens)]
        if isinstance(s_.get("pattern"), str):
            try:
                rx = re.compile(s_["pattern"])
                pool = [x for x in pool if rx.search(x)] + pool[:3]
            except re.error:
                pass
        out += [x for x in pool if len(x) in lens][:8]
    if t == "boolean":
        out += [True, False, "True", 1]
    if isinstance(v, list) and (t == "array" or "items" in s_):
        items = s_.get("items")
        lens = {0, max(0, len(v) - 1), len(v) + 1}
        for k in ("minItems", "maxItems"):
            if isinstance(s_.get(k), int):
                lens |= {max(0, s_[k] - 1), s_[k], s_[k] + 1}
        if isinstance(items, list):
            lens |= {max(0, len(items) - 1), len(items), len(items) + 1}
        for n in sorted(lens):
            if n <= 6 and n != len(v):
                out.append((v + [v[-1] if v else 0] * n)[:n])
        if v and s_.get("uniqueItems"):
            out.append(v + [v[0]])
        for i in range(min(len(v), 2)):
            sub = items[i] if isinstance(items, list) and i < len(items) else (items if isinstance(items, dict) else None)
            if sub is not None:
                for w in variants(sub, v[i], defs, depth + 1)[:10]:
                    out.append(v[:i] + [w] + v[i + 1:])
    if isinstance(v, dict) and (t == "object" or "properties" in s_ or "additionalProperties" in s_):
        props = s_.get("properties") if isinstance(s_.get("properties"), dict) else {}
        for k in sorted(v):
            sub = props.get(k, s_.get("additionalProperties") if isinstance(s_.get("additionalProperties"), dict) else None)
            if isinstance(sub, dict):
                for w in variants(sub, v[k], defs, depth + 1)[:12]:
                    out.append(dict(v, **{k: w}))
            out.append({a_: b_ for a_, b_ in v.items() if a_ != k})
        out.append(dict(v, zz_extra=1))
    return out


def boundary_docs(doc, base, cap):
    """Deterministic boundary documents of the exported document `doc` around the admitted document `base`."""
    top = {k: x for k, x in doc.items() if k != "definitions"}
    seen, out = set(), []
    for w in variants(top, base, doc.get("definitions", {})):
        try:
            key = json.dumps(w, sort_keys=True)
        except (TypeError, ValueError):
            continue
        if key not in seen and w != base:
            seen.add(key)
            out.append(w)
    if len(out) > cap:           # spread over the whole list (the keys of the document come in order)
        step = len(out) / cap
        out = [out[int(i * step)] for i in range(cap)]
    return out


def deser_accepts(env, doc):
    """The Deserializer paired with the export: for a field wrapper (exported in compact form) the documented
    compact deserialization is switched on."""
    from typedpy import Deserializer, Structure
    from typedpy.structures import TypedPyDefaults
    old = TypedPyDefaults.compact_deserialization_default
    try:
        if env.wrapper_form(env.top):
            Structure.set_compact_deserialization_default(True)
        Deserializer(env.classes[env.top]).deserialize(copy.deepcopy(doc))
        return True, None
    except Exception as ex:  # noqa
        return False, type(ex).__name__
    finally:
        Structure.set_compact_deserialization_default(old)


# ------------------------------------------------------------------ the check

def rejects_alone(env, f, v):
    """Does the Deserializer reject value v for declaration f taken alone (single-field class)?"""
    from typedpy import Deserializer
    try:
        T = S.single_field_class(f, env)
        Deserializer(T).deserialize({"f": copy.deepcopy(v)})
        return False
    except Exception:  # noqa
        return True


def python_equal_json_distinct(v):
    """Two elements of a JSON array that JSON keeps apart but Python's == identifies (false/0, true/1)."""
    for i, a in enumerate(v):
        for b in v[:i]:
            if isinstance(a, bool) != isinstance(b, bool) and isinstance(a, (bool, int, float)) \
                    and isinstance(b, (bool, int, float)) and a == b:
                return True
    return False


def deep_culprit(env, f, v, depth=0):
    """Shape of the innermost declaration(s) responsible for the rejection of v."""
    t = f["t"]
    if f.get("uniq") and isinstance(v, list) and python_equal_json_distinct(v):
        return "uniqueItems-compared-with-Python-equality"
    if depth < 4:
        if t == "ref" and isinstance(v, dict) and f["cls"] in env.classes and not env.wrapper_form(f["cls"]):
            ren = dict(env.renames(f["cls"]))
            inner = [deep_culprit(env, fd["field"], v[ren.get(fd["name"], fd["name"])], depth + 1)
                     for fd in env.all_fields(f["cls"])
                     if ren.get(fd["name"], fd["name"]) in v and rejects_alone(env, fd["field"], v[ren.get(fd["name"], fd["name"])])]
            if inner:
                return "ref(%s)" % "+".join(sorted(set(inner)))
        if t == "seqeach" and isinstance(v, list):
            inner = [deep_culprit(env, f["item"], x, depth + 1) for x in v if rejects_alone(env, f["item"], x)]
            if inner:
                return "seqeach(%s)" % "+".join(sorted(set(inner)))
        if t == "mapkv" and isinstance(v, dict):
            inner = [deep_culprit(env, f["vf"], x, depth + 1) for x in v.values() if rejects_alone(env, f["vf"], x)]
            if inner:
                return "mapkv(%s)" % "+".join(sorted(set(inner)))
        if t in ("seqpos", "tuple") and isinstance(v, list) and (len(f["items"]) > 1 or t == "seqpos"):
            inner = [deep_culprit(env, g, x, depth + 1) for g, x in zip(f["items"], v) if rejects_alone(env, g, x)]
            if inner:
                return "%s(%s)" % (t, "+".join(sorted(set(inner))))
    return field_kind(f)


def sibling_key_fallback(env, cname, v, depth=0):
    """Does document v (for class cname) leave out the key of a renamed field f while carrying, under f's own
    ATTRIBUTE name, the output key of a sibling (mapper {x: a, a: z}: 'a' present, 'z' absent)?  The Deserializer then
    reads f from the sibling's key.  Searched through nested structures, arrays and maps."""
    if depth > 4 or cname not in env.classes or not isinstance(v, dict) or env.wrapper_form(cname):
        return False
    ren = dict(env.renames(cname))
    outs = {ren.get(fd["name"], fd["name"]): fd["name"] for fd in env.all_fields(cname)}
    for fd in env.all_fields(cname):
        f = fd["name"]
        if ren.get(f, f) != f and ren[f] not in v and f in v and outs.get(f) not in (None, f):
            return True

    def inside(fl, x):
        t = fl["t"]
        if t == "ref":
            return sibling_key_fallback(env, fl["cls"], x, depth + 1)
        if t == "seqeach" and isinstance(x, list):
            return any(inside(fl["item"], y) for y in x)
        if t in ("seqpos", "tuple") and isinstance(x, list):
            return any(inside(g, y) for g, y in zip(fl["items"], x))
        if t == "mapkv" and isinstance(x, dict):
            return any(inside(fl["vf"], y) for y in x.values())
        if t in ("allof", "anyof", "oneof"):
            return any(inside(g, x) for g in fl["fs"])
        return False
    return any(inside(fd["field"], v[ren.get(fd["name"], fd["name"])]) for fd in env.all_fields(cname)
               if ren.get(fd["name"], fd["name"]) in v)


def exact_culprit(env, doc, exn):
    """Which field of the top class makes the Deserializer reject a document its schema admits: every field is tried
    alone, in a single-field class, on its own value (descending into nested structures, arrays and maps).
    -> declaration shape(s)."""
    fields = env.all_fields(env.top)
    if sibling_key_fallback(env, env.top, doc):
        return "absent-renamed-field-read-under-the-output-key-of-a-sibling"
    if env.wrapper_form(env.top):
        if isinstance(doc, dict):
            return "compact-form-of-a-field-wrapper-is-an-object"
        pairs = [(fields[0], doc)]
    elif isinstance(doc, dict):
        ren = dict(env.renames(env.top))
        pairs = [(fd, doc[ren.get(fd["name"], fd["name"])]) for fd in fields if ren.get(fd["name"], fd["name"]) in doc]
    else:
        return "document"
    out = [deep_culprit(env, fd["field"], v) for fd, v in pairs if rejects_alone(env, fd["field"], v)]
    return "+".join(sorted(set(out))) if out else "class"


def field_kind(f):
    t = f["t"]
    if t == "enumcls":
        subset = len(f["members"]) < len(list(G.ENUMS[f["cls"]]))
        return "enumcls-%s%s%s" % (X.mixin_of(G.ENUMS[f["cls"]]), "-by-value" if f["cls"] in G.BY_VALUE else "",
                                   "-subset" if subset else "")
    if t in ("seqeach", "set"):
        return "%s(%s)" % (t, field_kind(f["item"])) if f.get("item") else t
    if t == "mapkv":
        return "mapkv(%s)" % field_kind(f["vf"])
    if t == "num":
        return "num-%s-%s" % (f["k"], f["s"])
    if t in ("allof", "anyof", "oneof", "not", "tuple", "seqpos"):
        subs = sorted(set(field_kind(g) for g in f.get("fs") or f.get("items")))
        return "%s(%s)" % (t, ",".join(subs))
    return t


def extras_nested_mapper_repair(ns, doc):
    """Counterfactual for the known defect 'the parent's mapper is applied by the serializer to instances of nested
    CLASSES, whose definitions are exported with their own mapper only': rename the keys of every definition the way
    the parent's aggregated '<field>._mapper' entry does.  -> repaired copy, or None when nothing changes."""
    from typedpy.serialization.mappers import aggregate_serialization_mappers
    top, mapper = ns["TOP"], ns["MAPPER"]
    agg = aggregate_serialization_mappers(top, mapper) or {}
    out = copy.deepcopy(doc)
    changed = False
    for fname in top.get_all_fields_by_name():
        sub = agg.get(fname + "._mapper")
        if not isinstance(sub, dict):
            continue
        for cname, d in out.get("definitions", {}).items():
            cls = ns.get(cname)
            if not (isinstance(cls, type) and isinstance(d, dict) and isinstance(d.get("properties"), dict)):
                continue
            own = aggregate_serialization_mappers(cls, None) or {}
            ren = {}
            for f in cls.get_all_fields_by_name():
                a, b = own.get(f, f), sub.get(f, f)
                if isinstance(a, str) and isinstance(b, str) and a != b:
                    ren[a] = b
            if ren:
                d["properties"] = {ren.get(k, k): v for k, v in d["properties"].items()}
                if isinstance(d.get("required"), list):
                    d["required"] = [ren.get(k, k) for k in d["required"]]
                changed = True
    return out if changed else None


def run_extras(rep):
    """Constructs of the quantifier outside the Coq model (harness/c08extras.py): observed-behaviour clauses only."""
    jobs, meta = [], []
    nss = {}
    for name, src in XT.CASES + XT.matrix_cases() + XT.chain_cases():
        base = {"kind": "extras", "case": name, "extras_src": src, "python": XT.PRELUDE + src}
        try:
            ns, out, sers = XT.run_case(src)
        except Exception as ex:  # noqa  the case itself (class definitions / instances) no longer runs
            rep.finding("C08/extras/%s/case-raises/%s" % (name, E.exn_name(ex)),
                        "the classes / valid instances of case %s raise: %s" % (name, ex), base)
            continue
        rep.count("extras:mapper-matrix" if name.startswith("mapper-matrix/") else
                  "extras:rename-chains" if name.startswith("rename-") else "extras", 1, ("extras", name, out[0]))
        nss[name] = ns
        if out[0] != "ok":
            rep.finding("C08/extras/%s/export-raises/%s" % (name, out[1]), "structure_to_schema raises %s" % out[1], base)
            continue
        if not (is_jsonable(out[1]) and is_jsonable(out[2])):
            rep.finding("C08/extras/%s/wf/not-json" % name, "the export is not a JSON document", base)
            continue
        doc = fix_dialect_py(json.loads(json.dumps(out[1])))
        doc["definitions"] = fix_dialect_py(json.loads(json.dumps(out[2])))
        ok = []
        for i, j in enumerate(sers):
            if isinstance(j, tuple) and j and j[0] == "raise":
                rep.stat("extras", "serialize-raises:" + j[1])
            elif is_jsonable(j):
                ok.append((i, json.loads(json.dumps(j))))
        jobs.append({"doc": doc, "instances": [j for _, j in ok]})
        meta.append((name, base, ok))
    try:
        results = run_vt(jobs) if jobs else []
    except Exception as ex:  # noqa
        rep.broken("oracle:python3-vt(extras)", str(ex))
        return
    n = 0
    # failures a known counterfactual explains
    rjobs, rkeys = [], []
    for (name, base, ok), job, res in zip(meta, jobs, results):
        if not (res["schema_error"] or res["refs_missing"]) and any(v is False for v in res["verdicts"]):
            fixed = extras_nested_mapper_repair(nss[name], job["doc"])
            if fixed is not None:
                rjobs.append({"doc": fixed, "instances": job["instances"]})
                rkeys.append(name)
    explained = {}
    if rjobs:
        try:
            for name, r in zip(rkeys, run_vt(rjobs)):
                explained[name] = r["verdicts"]
        except Exception as ex:  # noqa
            rep.broken("oracle:python3-vt(extras classification)", str(ex))
    for (name, base, ok), res in zip(meta, results):
        if res["schema_error"] or res["refs_missing"]:
            what = res["schema_error"]["message"] if res["schema_error"] else "unresolved " + ", ".join(res["refs_missing"])
            rep.finding("C08/extras/%s/wf/%s" % (name, (res["schema_error"] or {"keyword": "$ref"})["keyword"]),
                        "export of case %s is not a well-formed draft-4 schema with resolving $refs: %s" % (name, what), base)
            continue
        for (i, j), v, err in zip(ok, res["verdicts"], res["errors"]):
            n += 1
            if v is False:
                pos = [x for x, _ in ok].index(i)
                why = "mapper-propagates-into-nested-class" if (name in explained and explained[name][pos] is True) \
                    else err["validator"]
                rep.finding("C08/extras/%s/complete/%s" % (name, why),
                            "a valid instance of case %s, serialized, is rejected by the exported schema: %s" % (name, err["message"]),
                            dict(base, instance_index=i, serialized=j, error=err))
    rep.obligation("oracle:extras(StructureReference, inheritance, ImmutableStructure, mapper argument; mapper matrix)", True,
                   "%d cases (incl. mapper kind x where x holder renamed x nested construct x nested keys renamed), "
                   "%d serialized instances validated" % (len(meta), n))


def run(rep, tier):
    rnd = random.Random(core.seed() * 1000003 + 8)
    n_env = 320 if tier == "quick" else 1400
    import time
    t0 = time.time()
    timing = {}

    def lap(name):
        nonlocal t0
        timing[name] = round(timing.get(name, 0) + time.time() - t0, 2)
        t0 = time.time()
    proofs_ok, model_ok = core.standard_proof_obligations(rep, "C08", ["theories/Check/C08chk.vo"])
    lap("build+proofs")
    pats = Pats()
    envs = []
    for idx in range(n_env):
        envs.append(build_case(rnd, idx, tier))
    lat_e, nxt = enum_lattice(rnd, n_env, tier)
    lat_n, _ = num_lattice(nxt)
    lat_r = ref_lattice(rnd, tier)
    envs += lat_e + lat_n + lat_r
    events = []
    for env in envs:
        env.events = run_history(env)
        events += env.events
    mutated = sum(1 for e in envs if e.required_mutated)
    lap("generate+export")
    rep.cov["streams"]["lattice:enum"] = {"evaluations": len(lat_e)}
    rep.cov["streams"]["lattice:numeric-class-x-bounds-x-boundary-instances"] = {"evaluations": len(lat_n)}
    rep.cov["streams"]["lattice:ref-graph-x-history"] = {"evaluations": len(lat_r)}

    # ---- oracle jobs: real export (dialect-translated) + real serializations (+ boundary documents)
    jobs, meta = [], []
    for vi, ev in enumerate(events):
        env, ex = ev.env, ev.out
        stream = "export" if not getattr(env, "lattice", None) else "export:" + env.lattice.split(":")[0]
        rep.count(stream, 1, ("export", tuple(sorted(G.shape(fd["field"]) for fd in env.ast(ev.cls)["fields"])), ex[0]))
        rep.stat(stream, "outcome:" + (ex[0] if ex[0] == "ok" else ex[1]))
        rep.stat("history", "%s%s" % ("first" if ev.pos == 0 else "later", ":same-dict" if ev.pre else ""))
        if any(c == ev.cls for c, _ in env.history[:ev.pos]):
            rep.stat("history", "class-exported-before")
        if ex[0] != "ok":
            continue
        if not (is_jsonable(ex[1]) and is_jsonable(ex[2])):
            rep.finding("C08/wf/not-json", "the export is not a JSON document",
                        dict(replay_fields(ev), python=script(ev, "print(s, d)"), kind="wf"))
            continue
        doc = fix_dialect_py(dict(ex[1]))
        doc["definitions"] = fix_dialect_py(ex[2])
        sers, kinds = [], []
        if ev.cls == env.top:
            for kw, inst in env.top_instances:
                try:
                    j = serialize_top(env, inst)
                except Exception as e:  # noqa  the serializer's own failures are C05's subject
                    rep.stat("serialize", "raises:" + type(e).__name__)
                    continue
                if not is_jsonable(j):
                    rep.stat("serialize", "not-json")
                    continue
                sers.append((kw, inst, json.loads(json.dumps(j))))
                kinds.append("ser")
        docs = [j for _, _, j in sers]
        last_top = ev.cls == env.top and not any(c == env.top for c, _ in env.history[ev.pos + 1:])
        if last_top and exact_class(env) and docs:
            for _ in range(4 if tier == "quick" else 8):
                docs.append(near(rnd, rnd.choice(docs[:len(sers)])))
                kinds.append("near")
            for w in boundary_docs(doc, docs[0], 24 if tier == "quick" else 60):
                docs.append(w)
                kinds.append("near")
            extra = dict(docs[0]) if isinstance(docs[0], dict) else None
            if extra is not None:      # always probe additionalProperties and a missing required key
                extra["zz_extra"] = 1
                docs.append(extra)
                kinds.append("near")
                req = env.resolved(env.top)["required"]
                if req and req[0] in docs[0]:
                    docs.append({k: v for k, v in docs[0].items() if k != req[0]})
                    kinds.append("near")
        jobs.append({"doc": doc, "instances": docs})
        meta.append((vi, sers, kinds))
    lap("serialize")
    try:
        results = run_vt(jobs)
    except Exception as ex:  # noqa
        rep.broken("oracle:python3-vt", str(ex))
        results = []
    lap("validator")

    vcases, wcases = [], []
    n_ser = n_near = n_exact_dis = 0
    wf_fail, comp_fail, exact_fail = [], [], []
    for (vi, sers, kinds), job, res in zip(meta, jobs, results):
        ev = events[vi]
        env, ex = ev.env, ev.out
        eff = env.effective_renames() if ev.cls == env.top else {}
        if res["crash"]:
            rep.broken("oracle:check_schema", res["crash"], {"python": script(ev)})
        wf_ok = res["schema_error"] is None and not res["refs_missing"]
        rep.count("wf", 1, ("wf", wf_ok, (res["schema_error"] or {}).get("keyword")))
        rep.stat("wf", "well-formed" if wf_ok else "ill-formed")
        if not wf_ok:
            wf_fail.append({"doc": job["doc"], "inst": None, "ctx": {"env": env, "eff": eff, "kwargs": []},
                            "res": res, "ev": ev})
        # documents are validated against the export with its well-formedness defects repaired (a validator has
        # no defined verdict on an ill-formed schema); the ill-formedness itself is reported above
        base, base_names = (job["doc"], []) if wf_ok else apply_repairs(job["doc"], WF_REPAIRS, {"env": env, "eff": eff})
        try:
            wdoc = {k: v for k, v in job["doc"].items() if k != "definitions"}
            dtext = emit_doc(wdoc, job["doc"]["definitions"], pats)
            wcases.append("{| wc_doc := %s; wc_verdict := %s |}" % (dtext, E.blit(wf_ok)))
        except Exception as e:  # noqa
            rep.broken("parse:export", "export outside the modelled syntax: %s" % e, {"python": script(ev), "schema": ex[1]})
            continue
        for di, (j, kind, verdict, err) in enumerate(zip(job["instances"], kinds, res["verdicts"], res["errors"])):
            if verdict is None:
                if wf_ok:
                    rep.broken("oracle:validator-crash", err["message"], {"python": script(ev), "doc": j})
                continue
            if wf_ok:
                vcases.append((dtext, j, verdict))
            if kind == "ser":
                n_ser += 1
                rep.count("complete", 1, ("complete", G.shape(env.ast(env.top)["fields"][0]["field"]), verdict))
                if "patternProperties-not-an-object-of-schemas" in base_names:
                    rep.stat("complete", "no-verdict:ill-formed-patternProperties")   # reported as the wf finding
                elif not verdict:
                    comp_fail.append({"doc": base, "inst": (j,), "ctx": {"env": env, "eff": eff, "kwargs": sers[di][0]},
                                      "err": err, "ev": ev, "kw": sers[di][0], "wf_ok": wf_ok})
            elif wf_ok:
                n_near += 1
                acc, exn = deser_accepts(env, j)
                rep.count("exact", 1, ("exact", verdict, acc))
                rep.stat("exact", "validator:%s/deserializer:%s" % (verdict, acc))
                if verdict and not acc:
                    n_exact_dis += 1
                    exact_fail.append({"doc": job["doc"], "inst": (j,), "want": False, "exn": exn, "ev": ev,
                                       "ctx": {"env": env, "eff": eff, "kwargs": [], "inst": j}})
    try:
        wkeys = classify(wf_fail, WF_REPAIRS, "C08/wf/",
                         lambda f: "C08/wf/%s/%s" % ((f["res"]["schema_error"] or {"keyword": "$ref"})["keyword"],
                                                     (f["res"]["schema_error"] or {"validator": "unresolved"})["validator"]))
        # failures on ill-formed exports are first re-validated against the repaired export
        ckeys = classify(comp_fail, COMPLETE_REPAIRS, "C08/complete/",
                         lambda f: "C08/complete/%s/%s" % (f["err"]["validator"], "nested" if len(f["err"]["instance_path"]) > 1 else "top"))
        still = run_vt([{"doc": f["doc"], "instances": [f["inst"][0]]} for f in comp_fail]) if comp_fail else []
        # exactness: explained by a repair when the repaired (stricter) schema rejects; otherwise keyed by the culprit field
        ekeys = classify(exact_fail, EXACT_REPAIRS, "C08/exact/",
                         lambda f: "C08/exact/%s/%s" % (f["exn"], exact_culprit(f["ev"].env, f["inst"][0], f["exn"])))
    except Exception as ex:  # noqa
        rep.broken("oracle:python3-vt(classification)", str(ex))
        wkeys, ckeys, still, ekeys = [], [], [], []
    for f, key in zip(exact_fail, ekeys):
        ev, j = f["ev"], f["inst"][0]
        env, ex = ev.env, ev.out
        rep.finding(key, "a document admitted by the exported schema of %s is rejected by the Deserializer (%s)" % (env.top, f["exn"]),
                    dict(replay_fields(ev), python=script(ev, "print(Deserializer(%s).deserialize(%r))" % (env.top, j)),
                         doc=j, schema=ex[1], definitions=ex[2], kind="exact"))
    for f, key in zip(wf_fail, wkeys):
        ev, res = f["ev"], f["res"]
        env, ex = ev.env, ev.out
        what = res["schema_error"]["message"] + " at " + "/".join(res["schema_error"]["path"]) if res["schema_error"] \
            else "unresolved $ref " + ", ".join(res["refs_missing"])
        rep.finding(key, "export of %s is not a well-formed draft-4 schema with resolving $refs: %s" % (ev.cls, what),
                    dict(replay_fields(ev), python=script(ev, "print(s, d)"), schema=ex[1], definitions=ex[2],
                         error=res["schema_error"], unresolved=res["refs_missing"], kind="wf"))
    for f, key, st in zip(comp_fail, ckeys, still):
        if not f["wf_ok"] and st["verdicts"] and st["verdicts"][0] is True:
            continue          # rejected only because of the ill-formed keyword (reported as a wf finding)
        ev, err, kw = f["ev"], f["err"], f["kw"]
        env, ex = ev.env, ev.out
        rep.finding(key, "a valid instance of %s, serialized, is rejected by its own exported schema: %s (%s at %s)" % (
            env.top, err["message"], err["validator"], "/".join(err["schema_path"])),
            dict(replay_fields(ev), python=script(ev, "x = %s(%s)\nprint(serialize(x))\nprint(s, d)" % (
                env.top, ", ".join("%s=%s" % (k, G.py_src(v)) for k, v in kw))),
                 kwargs=kw, serialized=f["inst"][0], schema=ex[1], definitions=ex[2], error=err, kind="complete"))
    lap("deserializer+classification")
    run_extras(rep)
    lap("extras")
    rep.obligation("oracle:well-formed+refs", True, "%d exports (%d environments) checked by Draft4Validator.check_schema" % (
        len(results), len(envs)))
    rep.obligation("oracle:serialized-valid-instances-validate", True, "%d serialized valid instances validated" % n_ser)
    rep.obligation("oracle:exact-subfragment", True, "%d boundary documents, %d admitted-but-rejected" % (n_near, n_exact_dis))
    rep.cov["streams"].setdefault("export", {})["required_list_mutated_in_place"] = mutated

    # ---- correspondences inside Coq
    if model_ok:
        shards = []

        def chunk_size(n, target, cap):
            """about `target` shards (one coqc start-up each), at most `cap` cases per shard"""
            return max(1, min(cap, -(-n // target)))
        stexts = []
        for ev in events:
            try:
                stexts.append(scase_text(ev, pats))
            except Exception as e:  # noqa
                stexts.append(None)
        sidx = [i for i, t in enumerate(stexts) if t is not None]
        per = chunk_size(len(sidx), 10, 120)
        for s in range(0, len(sidx), per):
            chunk = sidx[s:s + per]
            body = "Definition cases : list scase := %s.\n" % E.lst(["\n " + stexts[i] for i in chunk])
            for fn in ("smismatch", "sclean", "swf", "sclean_not_wf"):
                body += "Eval vm_compute in (indices_where %s cases 0).\n" % fn
            shards.append(("S", chunk, body, 4))
        # serializer stream
        rtexts = []
        seen_inst = set()
        for vi, sers, kinds in meta:
            env = events[vi].env
            for kw, inst, j in sers:
                if id(inst) in seen_inst:         # the same instance under a later export of the same class
                    continue
                seen_inst.add(id(inst))
                env.effective_renames()
                if any(('"%s"' % n) in json.dumps(kw) for n in env.path_dependent):
                    rep.stat("corr:serializer", "skipped:path-dependent-renames")
                    continue
                try:
                    st = reify_stored(inst)
                    rtexts.append((vi, kw, j, rcase_text(env, st[2], j)))
                except Exception:  # noqa
                    pass
        per = chunk_size(len(rtexts), 10, 150)
        for s in range(0, len(rtexts), per):
            chunk = rtexts[s:s + per]
            body = "Definition cases : list rcase := %s.\n" % E.lst(["\n " + t[3] for t in chunk])
            for fn in ("rmismatch", "runmodelled"):
                body += "Eval vm_compute in (indices_where %s cases 0).\n" % fn
            shards.append(("R", chunk, body, 2))
        # validator stream
        vcap = 2500 if tier == "quick" else 15000
        if len(vcases) > vcap:      # the model-vs-validator correspondence does not need every document
            step = len(vcases) / float(vcap)
            vcases = [vcases[int(i * step)] for i in range(vcap)]
        vper = chunk_size(len(vcases), 10, 400)
        for s in range(0, len(vcases), vper):
            chunk = vcases[s:s + vper]
            items = []
            for dtext, j, verdict in chunk:
                items.append("{| vc_search := %s; vc_doc := %s; vc_inst := %s; vc_verdict := %s |}" % (
                    G.emit_table(search_table(pats, [j])), dtext, jval(j), E.blit(verdict)))
            body = "Definition cases : list vcase := %s.\n" % E.lst(["\n " + i for i in items])
            body += "Eval vm_compute in (indices_where vmismatch cases 0).\n"
            shards.append(("V", chunk, body, 1))
        wper = chunk_size(len(wcases), 2, 400)
        for s in range(0, len(wcases), wper):
            chunk = wcases[s:s + wper]
            body = "Definition cases : list wcase := %s.\n" % E.lst(["\n " + i for i in chunk])
            body += "Eval vm_compute in (indices_where wmismatch cases 0).\n"
            shards.append(("W", list(range(s, s + len(chunk))), body, 1))
        lap("emit-coq-cases")
        try:
            outs = coq_eval([(b, n) for _, _, b, n in shards], "c08")
            lap("coq-eval(%d shards)" % len(shards))
        except RuntimeError as ex:
            rep.broken("correspondence:coq-eval", str(ex))
            outs = None
        if outs is not None:
            sm, clean, wf, cnw, rm, run_, vm, wm = [], [], [], [], [], [], [], []
            for (kind, chunk, _, _), o in zip(shards, outs):
                if kind == "S":
                    sm += [chunk[i] for i in o[0]]
                    clean += [chunk[i] for i in o[1]]
                    wf += [chunk[i] for i in o[2]]
                    cnw += [chunk[i] for i in o[3]]
                elif kind == "R":
                    rm += [chunk[i] for i in o[0]]
                    run_ += [chunk[i] for i in o[1]]
                elif kind == "V":
                    vm += [chunk[i] for i in o[0]]
                else:
                    wm += [chunk[i] for i in o[0]]
            concrete = any(not v["no_input"] for v in rep.violations)
            if os.environ.get("C08_DEBUG"):
                for vi, kw, j, _ in rm[:12]:
                    print("DEBUG serializer mismatch:", class_src(events[vi].env.ast(events[vi].env.top)), kw, "->", j)
                for i in sm[:12]:
                    print("DEBUG to_schema mismatch:", events[i].env.source()[-900:], events[i].env.history, events[i].pos, events[i].out)
            rep.count("corr:to_schema", len(sidx))
            rep.count("corr:serializer", len(rtexts))
            rep.count("corr:valid4", len(vcases))
            rep.count("corr:wf4", len(wcases))
            rep.cov["streams"]["corr:serializer"]["unmodelled_skipped"] = len(run_)
            rep.cov["streams"]["corr:to_schema"]["model_predicts_clean"] = len(clean)
            rep.obligation("correspondence:to_schema", not sm, "%d exports, %d mismatches" % (len(sidx), len(sm)))
            rep.obligation("correspondence:serializer", not rm, "%d instances (%d outside the modelled serializer), %d mismatches" % (
                len(rtexts), len(run_), len(rm)))
            rep.obligation("correspondence:valid4-vs-jsonschema", not vm, "%d (schema, document) pairs, %d mismatches" % (len(vcases), len(vm)))
            rep.obligation("correspondence:wf4-vs-check_schema", not wm, "%d exports, %d mismatches" % (len(wcases), len(wm)))
            rep.obligation("characterisation:clean-implies-wf (evaluated)", not cnw, "%d clean classes" % len(clean))
            if sm and not concrete:
                ev = events[sm[0]]
                rep.broken("correspondence:to_schema",
                           "model (Schema/ToSchema.v) and structure_to_schema differ on %d exports (first: %s, history %r)" % (
                               len(sm), ev.cls, ev.env.history[:ev.pos + 1]),
                           dict(replay_fields(ev), python=script(ev, "print(s, d)"), observed=ev.out))
            if rm and not concrete:
                vi, kw, j, _ = rm[0]
                rep.broken("correspondence:serializer", "model serializer and serialize() differ on %d instances" % len(rm),
                           {"python": events[vi].env.source(), "kwargs": kw, "serialized": j})
            if vm and not concrete:
                dtext, j, verdict = vm[0]
                rep.broken("correspondence:valid4-vs-jsonschema",
                           "model valid4 and jsonschema.Draft4Validator differ on %d pairs" % len(vm),
                           {"schema_term": dtext[:3000], "doc": j, "validator_verdict": verdict})
            if wm and not concrete:
                rep.broken("correspondence:wf4-vs-check_schema",
                           "model wf_doc and Draft4Validator.check_schema differ on %d exports" % len(wm),
                           {"doc_term": wcases[wm[0]][:3000]})
            if cnw:
                rep.broken("characterisation:clean-implies-wf", "schema_clean holds but wf_doc fails on %d classes" % len(cnw),
                           {"python": events[cnw[0]].env.source()})
    rep.cov["timing_s"] = timing
    for ev in events[:2]:
        rep.sample({"classes": ev.env.source()[-700:], "history": ev.env.history, "export": repr(ev.out)[:600]})
    if not proofs_ok:
        from harness.props.c17 import broken_build
        broken_build(rep)
    rep.assumptions += [
        "re.match / re.search are oracles (Section variables), instantiated per case by tables filled from the real re module",
        "independent validator: jsonschema.Draft4Validator under python3-vt (separate process, JSON exchange)",
        "a field-wrapper class is paired with serialize(compact=True), as documented; every other class with serialize()",
        "the by-value flag of an Enum field is declared uniformly per enum class (classes *V of harness/c08enums.py)",
    ]
    return rep.finish(
        rule="cases = class environments (1-4 generated classes + fixed Inner/Sub/Other; fields from a weighted grammar over "
             "the schema-mappable vocabulary incl. a few unmappable ones, 10 enum classes (plain, int/str/float mix-ins, falsy "
             "values, by-value); optional rename mappers, defaults, required subsets, reference chains), each with an export "
             "HISTORY (first / repeated / parts first / interleaved / one shared definitions dict) all of whose exports are "
             "judged; + deterministic lattices: enum class x position, reference graph x linking construct x history; "
             "3 valid instances each, 6-10 boundary documents on the exact sub-fragment; distinct = distinct (field shapes, outcome)")


def replay(obj):
    """Re-run a replay on the implementation + the independent validator alone."""
    if obj.get("kind") == "extras":
        ns, out, sers = XT.run_case(obj["extras_src"])
        print("export:", out)
        if out[0] != "ok" or not (is_jsonable(out[1]) and is_jsonable(out[2])):
            print("required: a JSON schema document")
            return 1
        doc = fix_dialect_py(json.loads(json.dumps(out[1])))
        doc["definitions"] = fix_dialect_py(json.loads(json.dumps(out[2])))
        ok = [json.loads(json.dumps(j)) for j in sers if not (isinstance(j, tuple) and j and j[0] == "raise") and is_jsonable(j)]
        res = run_vt([{"doc": doc, "instances": ok}])[0]
        print("serialized:", ok)
        print("check_schema:", res["schema_error"], "unresolved refs:", res["refs_missing"], "verdicts:", res["verdicts"])
        print("required: well-formed, $refs resolve, every serialization validates")
        return 1 if (res["schema_error"] or res["refs_missing"] or any(v is False for v in res["verdicts"])) else 0
    if not obj.get("classes_src"):
        print("nothing to replay:", obj.get("broken"), obj.get("detail", "")[:500])
        return 2
    pre = G.IMPORTS + "from typedpy import mappers, structure_to_schema, serialize, Deserializer\n" + X.IMPORT

    def play(src, history):
        ns = {}
        exec(pre, ns)
        exec(src, ns)
        s = d = None
        for i, (cname, shared) in enumerate(history):
            s, d = ns["structure_to_schema"](ns[cname], d if (shared and i and isinstance(d, dict)) else {})
        return ns, s, d

    for src, hist in obj.get("prelude") or []:
        play(src, hist)
    print("history    :", obj["history"])
    ns, schema, defs = play(obj["classes_src"], obj["history"])
    top = obj["target"]
    cls = ns[top]
    print("export     :", json.dumps(schema, default=str)[:1500])
    print("definitions:", json.dumps(defs, default=str)[:1500])
    kind = obj.get("kind")
    if not (is_jsonable(schema) and is_jsonable(defs)):
        print("required: a JSON document")
        return 1
    doc = fix_dialect_py(json.loads(json.dumps(schema)))
    doc["definitions"] = fix_dialect_py(json.loads(json.dumps(defs)))
    insts = []
    if kind == "complete":
        kw = {k: G.unreify(_tup(v), {n: ns[n] for n in ns if isinstance(ns[n], type)}) for k, v in obj["kwargs"]}
        inst = cls(**kw)
        r = S.Context.resolved.__get__(type("X", (), {"classes": {top: cls}})())(top)
        wrapper = len(r["field_names"]) == 1 and r["required"] == r["field_names"] and not r["additional"]
        insts = [ns["serialize"](inst, compact=True) if wrapper else ns["serialize"](inst)]
        print("serialized :", insts[0])
    elif kind == "exact":
        insts = [obj["doc"]]
    res = run_vt([{"doc": doc, "instances": insts}])[0]
    print("check_schema:", res["schema_error"], "unresolved refs:", res["refs_missing"])
    print("validator verdicts:", res["verdicts"], res["errors"])
    if kind in ("wf", "ref"):
        print("required: well-formed draft-4 schema with resolving $refs")
        return 1 if (res["schema_error"] or res["refs_missing"]) else 0
    if kind == "complete":
        print("required: the serialization validates")
        return 1 if res["verdicts"] and res["verdicts"][0] is False else 0
    if kind == "exact":
        r = S.Context.resolved.__get__(type("X", (), {"classes": {top: cls}})())(top)
        if len(r["field_names"]) == 1 and r["required"] == r["field_names"] and not r["additional"]:
            ns["Structure"].set_compact_deserialization_default(True)     # a field wrapper: the export is the compact form
        try:
            ns["Deserializer"](cls).deserialize(copy.deepcopy(obj["doc"]))
            acc = True
        except Exception as ex:  # noqa
            acc = False
            print("Deserializer:", type(ex).__name__, ex)
        print("required: admitted by the schema => accepted by the Deserializer; accepted =", acc)
        return 1 if (res["verdicts"] and res["verdicts"][0] and not acc) else 0
    return 0


def _tup(v):
    """JSON round trip turns reified tuples into lists: restore."""
    if isinstance(v, list):
        return tuple(_tup(x) if isinstance(x, list) and x and isinstance(x[0], str) else
                     ([_tup(y) for y in x] if isinstance(x, list) else x) for x in v)
    return v
