"""C03 — every mutation is validated and failure-atomic.

Proof obligations: Props/C03.v (characterisation parametric in the GENERATED mutator tables, history
theorem by induction, refinement of the statement-level wrapper model to the coarse step, witnesses for every
unsafe shape, refutation of the full statement).
Tie to the code: Gen/Tables.v (which mutators exist / are overridden) and Gen/WrapBodies.v (every overriding
method transliterated statement by statement; classified in Coq) are regenerated from collections_impl.py + CPython
on every run; the model's `mstep` (Struct/Instance.v) is compared step by step, inside Coq, with what the real
library did on generated histories.  Violation search: the statement's clauses evaluated on the implementation's
observed behaviour — atomicity on an observable snapshot (field reads, ==, str, serialization) and the exception
class in Python, validity of the reified state (`state_ok_dom`, i.e. struct_ok on the stated domain) in Coq.

Streams (all end in the same judgement):
  history                  random classes (typed Array/Deque/Map fields, hooks, immutables, subclasses), start instance
                           from the constructor / deepcopy / pickle / shallow_clone, 2..8 (40) operations drawn from ALL
                           introspected mutators with positional, keyword, slice, one-shot-iterator, failing-iterator and
                           key-function arguments, `x.f += v` statement forms, setattr valid/invalid/None/equal-but-other-type,
                           del; handles re-read or re-used; one corrupted call per typed container at the end
  directed:table-entry     witness family per table entry (unsafe entries must yield a concrete failing input)
  directed:lookalike       ENUMERATED: every numeric/bool leaf (dict keys included) of every stored value replaced by a value
                           of another type Python's == cannot tell from it, through every entry point
  directed:value-lattice   ENUMERATED: a value lattice over scalar / AllOf / AnyOf / OneOf / NotField fields, alone and as
                           items of typed containers
  directed:nonfinite       ENUMERATED: NaN / +inf / -inf handed to number fields with Decimal (and float) bounds, alone and as
                           items / values of typed containers (a rejection must be a TypeError / ValueError)

  directed:multi-instance  histories over SEVERAL instances of one class: an event on a sibling instance (deepcopy, pickle, clone,
                           trusted construction / assignment / deserialization, rejected assignments / construction, ==/str/
                           hash), then the value lattice on another instance (Field objects are shared between instances);
                           random histories also start with such events with probability 0.4
  directed:undefined-none  `_enable_undefined_value` classes: optional fields holding an explicit None (from the constructor or
                           assigned) receive rejected and accepted values; `_none_fields` is part of the compared state
  directed:nonatomic-base  calls on which the base type's own method is not failure-atomic (list.sort with a comparison
                           that fails after moves; extend / update from an iterator that fails after valid items)
  directed:field-classes   EVERY exported Field class: assignment of a rejected value over an accepted one
  directed:container-hook  a __validate__ that reads container sizes: the field stays validated after a hook failure
  directed:hooks / extfields / nested   the known defect F5; F4 (hook / format check after the store) and del bypassing
                           the hook are REPAIRED in the library (Structure.__setattr__ restores the previous entry,
                           __delitem__ runs the hook): these streams report them again if they come back
Known false alarms met while building (and how they were repaired) are recorded in DESIGN.md 12.3; two met in round 3:
a directed call that stored a slice / generator object as an ELEMENT (not reifiable: such calls are skipped), and a
Decimal look-alike of 1e300 that does not survive Decimal(...).scaleb under the default context (candidates must
round-trip through the reifier)."""
import collections
import inspect
import json
import operator
import random
import re

from harness import core
from harness import coqemit as E
from harness import fieldgen as G
from harness import structgen as S
from harness import gen as GEN
from harness import c03ops as X
from harness.genmods import wrapbodies as WB

ADDR = re.compile(r"0x[0-9a-fA-F]+")
KIND_ID = {"list": 0, "deque": 1, "dict": 2}
BASE = {"list": list, "deque": collections.deque, "dict": dict}


# ------------------------------------------------------------------ helpers on declarations

def kind_of(f):
    t = f["t"]
    if t in ("seqany", "seqeach", "seqpos"):
        return f["k"]
    if t in ("mapany", "mapkv"):
        return "dict"
    return None


def inner_field(f, sel_pos=None):
    """Declaration of the elements of a typed container (None: anything goes)."""
    t = f["t"]
    if t == "seqeach":
        return f["item"]
    if t == "seqpos":
        if sel_pos is not None and 0 <= sel_pos < len(f["items"]):
            return f["items"][sel_pos]
        return None
    if t == "mapkv":
        return f["vf"]
    return None


def gen_item(rnd, f, valid, ctx, pos=None):
    g = inner_field(f, pos)
    if g is None:
        return G.gen_any(rnd)
    try:
        v = G.gen_valid(rnd, g, ctx.instances)
        if not valid:
            v = G.corrupt(rnd, g, v, ctx.instances) if rnd.random() < 0.6 else G.gen_any(rnd)
    except Exception:  # noqa  generator limitation
        v = G.gen_any(rnd)
    return v


def gen_key(rnd, f, valid, ctx, content):
    keys = [k for k, _ in content]
    if keys and rnd.random() < 0.5:
        return rnd.choice(keys)
    if f["t"] == "mapkv":
        try:
            k = G.gen_valid(rnd, f["kf"], ctx.instances)
            if not valid:
                k = G.corrupt(rnd, f["kf"], k, ctx.instances)
        except Exception:  # noqa
            k = G.gen_hashable(rnd)
    else:
        k = G.gen_hashable(rnd)
    if not valid and rnd.random() < 0.15:
        return ("list", [("int", 1)])            # unhashable
    return k if G.is_hashable(k) else G.gen_hashable(rnd)


def gen_index(rnd, n, valid):
    if valid and n:
        return rnd.randrange(-n, n)
    return rnd.choice([n, n + 2, -n - 1]) if not valid else 0


def _failing_keys(n):
    """Keys for list.sort that make the sort raise TypeError after it has already moved elements."""
    keys = [("int", n - i) for i in range(n)]
    if n >= 2:
        keys[max(1, (2 * n) // 3)] = ("str", "a")
    return keys


def gen_iterable(rnd, items, valid):
    """The same items as a list / tuple / one-shot iterator / iterator that fails after yielding them."""
    r = rnd.random()
    if r < 0.55:
        return ("list", items)
    if r < 0.67:
        return ("tuple", items)
    if r < 0.85:
        return ["x:iter", items]
    return ["x:failiter", items]


def gen_slice(rnd, n):
    lo = rnd.choice([None, 0, 1, max(0, n - 1), n, n + 2, -1])
    hi = rnd.choice([None, 0, 1, 2, n, n + 3, -1])
    step = rnd.choice([None, None, None, 2, -1])
    return ["x:slice", lo, hi, step]


def gen_args(rnd, kind, method, f, content, ctx):
    """Arguments for base-type mutator `method` applied to a value declared f whose current content is
    `content` (reified items / pairs).  Both valid and invalid ones.  Returns a list of positional arguments
    (reified values or the special forms of harness/c03ops.py), or a pair (args, kwargs)."""
    valid = rnd.random() < 0.6
    n = len(content)
    I = lambda v=valid: ("int", gen_index(rnd, n, v))
    if kind in ("list", "deque"):
        item = lambda pos=None: gen_item(rnd, f, valid, ctx, pos)
        item_list = lambda: [gen_item(rnd, f, valid or rnd.random() < 0.5, ctx) for _ in range(rnd.randint(0, 3))]
        items = lambda: ("list", item_list())
        if method == "__delitem__":
            if rnd.random() < (0.3 if kind == "list" else 0.05):
                return [gen_slice(rnd, n)]
            return [I()]
        if method in ("__iadd__", "extend", "extendleft"):
            if not valid and rnd.random() < 0.15:
                return [("int", 5)]
            return [gen_iterable(rnd, item_list(), valid)]
        if method == "__imul__":
            return [("int", rnd.choice([0, 1, 2, 2, 3, -1]))] if valid or rnd.random() < 0.7 else [("str", "x")]
        if method == "__setitem__":
            r = rnd.random()
            if n and r < 0.15:
                # an element that Python's == cannot tell from the one it replaces, of another type
                i = rnd.randrange(n)
                y = X.lookalike(rnd, content[i])
                if y is not None:
                    return [("int", i), y]
            if r < (0.35 if kind == "list" else 0.18):
                sl = gen_slice(rnd, n)
                if rnd.random() < 0.3 and n:
                    # same length replacement (the only form an extended slice accepts)
                    sl = ["x:slice", None, None, rnd.choice([None, 1, 2])]
                    cnt = len(range(*slice(sl[1], sl[2], sl[3]).indices(n)))
                    its = [gen_item(rnd, f, valid or rnd.random() < 0.6, ctx, None) for _ in range(cnt)]
                    return [sl, gen_iterable(rnd, its, valid)]
                return [sl, gen_iterable(rnd, item_list(), valid)]
            i = I()
            return [i, item(i[1] if i[1] >= 0 else None)]
        if method in ("append", "appendleft"):
            return [item(n if method == "append" else 0)]
        if method in ("clear", "popleft", "reverse"):
            return []
        if method == "sort":
            r = rnd.random()
            if r < 0.35:
                return []
            if r < 0.5:
                return ([], {"reverse": ("bool", True)})
            if r < 0.75:
                keys = [("int", k) for k in rnd.sample(range(n + 3), n)]
                kw = {"key": ["x:keyseq", keys]}
                if rnd.random() < 0.4:
                    kw["reverse"] = ("bool", rnd.random() < 0.7)
                return ([], kw)
            kw = {"key": ["x:keyseq", _failing_keys(max(n, 2))]}
            if rnd.random() < 0.3:
                kw["reverse"] = ("bool", True)
            return ([], kw)
        if method == "insert":
            i = ("int", rnd.choice([rnd.randint(0, n), rnd.randint(0, n), -1, n + 3, -n - 2]))
            return [i, item(i[1] if 0 <= i[1] <= n else None)]
        if method == "pop":
            if kind == "deque" or rnd.random() < 0.5:
                return []
            return [I()]
        if method == "remove":
            if content and (valid or rnd.random() < 0.5):
                return [rnd.choice(content)]
            return [item()]
        if method == "rotate":
            return [("int", rnd.choice([0, 1, 1, 2, -1]))] if rnd.random() < 0.85 else []
    else:
        key = lambda: gen_key(rnd, f, valid, ctx, content)
        val = lambda: gen_item(rnd, f, valid, ctx)
        pair_list = lambda: G.mk_dict([(gen_key(rnd, f, valid or rnd.random() < 0.5, ctx, content),
                                        gen_item(rnd, f, valid or rnd.random() < 0.5, ctx))
                                       for _ in range(rnd.randint(0, 3))])[1]
        pairs = lambda: ("dict", pair_list())
        as_tuples = lambda ps: [("tuple", [k, v]) for k, v in ps]
        if method in ("__delitem__",):
            return [key()]
        if method in ("__ior__", "update"):
            if not valid and rnd.random() < 0.12:
                return [("int", 5)]
            r = rnd.random()
            if content and r < 0.15:
                # an existing entry re-assigned with an equal value (or equal key) of another type
                k, v = rnd.choice(content)
                y = X.lookalike(rnd, v)
                if y is not None:
                    return [("dict", [(k, y)])]
                y = X.lookalike(rnd, k)
                if y is not None and G.is_hashable(y):
                    return [("dict", [(y, v)])]
            ps = pair_list()
            if r < 0.55:
                return [("dict", ps)]
            if r < 0.68:
                return [("list", as_tuples(ps))]
            if r < 0.8:
                return [["x:iter" if rnd.random() < 0.5 else "x:failiter", as_tuples(ps)]]
            if method == "update":
                kw = {k[1]: v for k, v in ps if k[0] == "str" and k[1].isidentifier()}
                pos = [(k, v) for k, v in ps if not (k[0] == "str" and k[1].isidentifier())]
                if not kw:
                    kw = {"kw1": val()}
                return ([("dict", pos)] if (pos or rnd.random() < 0.4) else [], kw)
            return [("dict", ps)]
        if method == "__setitem__":
            if content and rnd.random() < 0.15:
                k, v = rnd.choice(content)
                y = X.lookalike(rnd, v)
                if y is not None:
                    return [k, y]
                y = X.lookalike(rnd, k)
                if y is not None and G.is_hashable(y):
                    return [y, v]
            return [key(), val()]
        if method in ("clear", "popitem"):
            return []
        if method == "pop":
            return [key()] if rnd.random() < 0.8 else [key(), val()]
        if method == "setdefault":
            return [key()] if rnd.random() < 0.3 else [key(), val()]
    # a mutator this harness has no argument grammar for (new in the base type): probe-style arguments
    cands = [[], [("int", 0)], [("int", 1)], [("list", [("int", 5)])], [("int", 0), ("int", 5)],
             [("dict", [(("str", "k"), ("int", 9))])], [("str", "a")], [("str", "a"), ("int", 1)]]
    return rnd.choice(cands)


def split_args(ga):
    """gen_args result -> (args, kwargs)."""
    if ga is None:
        return [("int", 0)], {}
    if isinstance(ga, tuple):
        return list(ga[0]), dict(ga[1])
    return list(ga), {}


def scrub(v):
    """object() has identity equality, which a reified value cannot carry (two of them would look equal to the
    model): opaque values are generated as bytes (value equality) instead."""
    t = v[0]
    if t == "other" and v[1] == "object":
        return ("other", "bytes", "")
    if t in ("list", "tuple", "deque"):
        return (t, [scrub(x) for x in v[1]])
    if t == "set":
        return G.mk_set(v[1], [scrub(x) for x in v[2]])
    if t == "dict":
        return G.mk_dict([(scrub(k), scrub(x)) for k, x in v[1]])
    return v


def scrub_op(op):
    if "value" in op:
        op["value"] = scrub(op["value"])
    if "args" in op:
        op["args"] = [X.map_values(a, scrub) for a in op["args"]]
    if op.get("kwargs"):
        op["kwargs"] = {k: X.map_values(a, scrub) for k, a in op["kwargs"].items()}
    return op


def make_instance(rnd, cast, ctx, tries=12):
    cls = ctx.classes[cast["name"]]
    fields = ctx.all_fields(cast["name"])
    view = cast
    if cast.get("base"):
        # inherited fields count: generate keyword arguments over all of them, required as the real class resolves it
        view = dict(cast, fields=fields, required=ctx.resolved(cast["name"])["required"])
    for _ in range(tries):
        kw = S.gen_kwargs(rnd, view, ctx)
        hk = ctx.hook_of(cast["name"])
        if hk and hk[0] == "set" and not any(k == hk[1] for k, _ in kw):
            fd = [f for f in fields if f["name"] == hk[1]][0]
            kw.append((fd["name"], G.gen_valid(rnd, fd["field"], ctx.instances)))
        if getattr(cls, "_enable_undefined_value", False):
            # explicit None for some optional fields (tracked in _none_fields)
            req = set(ctx.resolved(cast["name"])["required"])
            kw = [(k, ("none",)) if (k not in req and rnd.random() < 0.3) else (k, v) for k, v in kw]
            have = {k for k, _ in kw}
            kw += [(fd["name"], ("none",)) for fd in fields if fd["name"] not in have and fd["name"] not in req
                   and rnd.random() < 0.4]
        kw = [(k, scrub(v)) for k, v in kw]
        try:
            return kw, cls(**S.realize_kwargs(kw, ctx))
        except Exception:  # noqa
            continue
    return None


# ------------------------------------------------------------------ observation

def public_attrs(x):
    return S.struct_attrs(x)


def reify_state(x):
    return [(k, E.reify(v, S.struct_attrs)) for k, v in public_attrs(x)]


def canon(r):
    """Canonical JSON-able form of a reified value (tuples -> lists) for comparisons."""
    return json.loads(json.dumps(r, default=str))


def canon_ser(v):
    """Serializer output up to dict key order (== on dicts does not see it)."""
    if isinstance(v, dict):
        return ["dict"] + sorted(([repr(k), canon_ser(x)] for k, x in v.items()), key=lambda p: p[0])
    if isinstance(v, (list, tuple)):
        return ["seq"] + [canon_ser(x) for x in v]
    return ADDR.sub("0x?", repr(v))


def snapshot(x, field_names):
    from typedpy import Serializer
    reads = {}
    for n in field_names:
        try:
            reads[n] = E.reify(getattr(x, n), S.struct_attrs)
        except Exception as ex:  # noqa
            reads[n] = ("raise", type(ex).__name__)
    try:
        ser = ("ok", canon_ser(Serializer(x).serialize()))
    except Exception as ex:  # noqa
        ser = ("raise", type(ex).__name__)
    try:
        text = ADDR.sub("0x?", str(x))      # defensive copies of opaque objects print a new address each time
    except Exception as ex:  # noqa
        text = "<str raises %s>" % type(ex).__name__
    return {"state": canon(reify_state(x)), "reads": canon(reads), "str": text, "ser": canon(ser),
            "none_fields": none_fields_of(x)}


def none_fields_of(x):
    """The explicit-None markers (`_enable_undefined_value`: None is told apart from "never set")."""
    nf = x.__dict__.get("_none_fields")
    try:
        return sorted(str(n) for n in nf) if nf else []
    except Exception:  # noqa
        return ["<unreadable>"]


def snapshot_diff(a, b):
    return [k for k in ("state", "reads", "str", "ser", "none_fields") if a.get(k) != b.get(k)]


def build_from_state(cls, state, ctx):
    return cls(**{k: G.unreify(v, ctx.classes) for k, v in state})


def make_twin(x, cls, pre_state, ctx):
    """A pristine twin built from the pre-state, if x == twin holds before the operation (it does not when
    the state holds values equality cannot see through, e.g. object())."""
    try:
        t = build_from_state(cls, pre_state, ctx)
        return t if x == t else None
    except Exception:  # noqa
        return None


def reconstructible(x, cls):
    try:
        cls(**{k: v for k, v in public_attrs(x)})
        return True
    except Exception:  # noqa
        return False


def hook_fails(x):
    try:
        x.__validate__()
        return False
    except Exception:  # noqa
        return True


# ------------------------------------------------------------------ performing operations

def base_result(handle, kind, method, op, ctx):
    """What the base type's method does to a plain copy of the handle's content (CPython is the oracle):
    ("ok", reified new container) | ("raise", class name).  A call the wrapper's own signature rejects is a
    TypeError before anything runs.  `op` carries args / kwargs (realised afresh: iterators are single use)."""
    plain = BASE[kind](handle)
    args, kwargs = X.realize_call(op, ctx.classes)
    own = type(handle).__dict__.get(method)
    if own is not None:
        try:
            inspect.signature(own).bind(handle, *args, **kwargs)
        except TypeError:
            return ("raise", "TypeError")
        except ValueError:
            pass
    try:
        getattr(plain, method)(*args, **kwargs)
    except Exception as ex:  # noqa
        return ("raise", E.exn_name(ex))
    return ("ok", E.reify(plain, S.struct_attrs))


def perform(x, op, ctx, handles):
    """Runs one operation on the real instance.  Returns (outcome, extra) where outcome is ("ok",) or
    ("raise", class name) and extra carries what the model needs (live, base)."""
    extra = {}
    k = op["op"]
    try:
        if k == "set":
            val = G.unreify(op["value"], ctx.classes)
            call = lambda: setattr(x, op["name"], val)
        elif k == "del":
            call = lambda: operator.delitem(x, op["name"])
        elif k == "call":
            name = op["name"]
            if handles is not None and name in handles:
                h = handles[name]
            else:
                h = getattr(x, name)
                if handles is not None:
                    handles[name] = h
            if op.get("aug"):
                h = getattr(x, name)          # `x.f += v` always reads the field afresh
            extra["live"] = h is x.__dict__.get(name)
            extra["base"] = base_result(h, op["kind"], op["method"], op, ctx)
            args, kwargs = X.realize_call(op, ctx.classes)
            meth = getattr(h, op["method"])
            if op.get("aug"):
                # the statement `x.f += v` / `x.f *= n` / `x.f |= d`: in-place dunder, then the result is assigned
                def call():
                    r = meth(*args, **kwargs)
                    extra["aug_mid"] = reify_state(x)      # the dunder returned; now its result is assigned
                    setattr(x, name, r)
            else:
                call = lambda: meth(*args, **kwargs)
        elif k == "nested":
            outer = getattr(x, op["name"])
            inner = outer[G.unreify(op["sel"], ctx.classes)]
            extra["inner_type"] = type(inner).__name__
            args, kwargs = X.realize_call(op, ctx.classes)
            meth = getattr(inner, op["method"])
            call = lambda: meth(*args, **kwargs)
        else:
            raise ValueError(op)
    except Exception as ex:  # noqa  the operation cannot be set up (e.g. field unset): not an operation
        return ("skip", type(ex).__name__), extra
    try:
        call()
        return ("ok",), extra
    except Exception as ex:  # noqa
        return ("raise", E.exn_name(ex)), extra


def op_src(op):
    k = op["op"]
    if k == "set":
        return "x.%s = %s" % (op["name"], G.py_src(op["value"]))
    if k == "del":
        return "del x[%r]" % op["name"]
    args = X.call_args_src(op)
    if k == "call" and op.get("aug"):
        sym = {"__iadd__": "+=", "__imul__": "*=", "__ior__": "|="}.get(op["method"], op["method"])
        return "x.%s %s %s" % (op["name"], sym, args)
    if k == "call":
        return "x.%s.%s(%s)" % (op["name"], op["method"], args)
    return "x.%s[%s].%s(%s)" % (op["name"], G.py_src(op["sel"]), op["method"], args)


def allowed_exception(op, out, extra):
    name = out[1]
    if name in ("TypeError", "ValueError", "InvalidStructureErr"):
        return True
    if op["op"] == "del":
        return name == "KeyError"
    if op["op"] == "call":
        b = extra.get("base")
        # "the container's usual" exception: whatever the base type's method raises for the same call on a plain
        # copy of the value (IndexError/KeyError for a missing index/key; also what comparing the caller's own
        # elements raises inside list.sort, e.g. decimal.InvalidOperation for Decimal vs NaN)
        return bool(b) and b[0] == "raise" and b[1] == name
    if op["op"] == "nested":
        return name in ("IndexError", "KeyError")
    return False


# ------------------------------------------------------------------ finding keys

def shape_now(tables, kind, method):
    for m, s in tables[kind]:
        if m == method:
            return s.strip("()").split()[0]
    return "Unrecognised"


def finding_key(op, symptom, tables, cast, hook_after_store=False):
    k = op["op"]
    if hook_after_store:
        via = "setattr" if k == "set" else ("%s.%s" % (op.get("kind"), op.get("method")))
        return "C03/hook-after-store/%s/%s" % (via, symptom)
    if k == "set":
        return "C03/setattr/%s/%s" % (cast, symptom)
    if k == "del":
        return "C03/delitem/%s" % symptom
    if k == "call":
        return "C03/%s.%s/%s/%s" % (op["kind"], op["method"], shape_now(tables, op["kind"], op["method"]), symptom)
    return "C03/nested/%s/%s/%s/%s" % (op["okind"], op["ikind"], op["method"], symptom)


# ------------------------------------------------------------------ one history

class History:
    def __init__(self, cast, kwargs, mode):
        self.cast = cast            # class AST
        self.kwargs = kwargs        # reified start kwargs
        self.mode = mode            # "reread" | "reuse"
        self.init = None            # reified start state
        self.steps = []             # dicts: op, out, extra, post (reified state or None if unchanged)
        self.py_findings = []       # (step index, key, what)
        self.cut = False
        self.origin = "ctor"        # how the starting instance was obtained from the constructed one
        self.siblings = []          # events on OTHER instances of the class before the first operation
        self.keep = None


def field_cast(cast_fields, name):
    for fd in cast_fields:
        if fd["name"] == name:
            return fd["field"]
    return None


def gen_op(rnd, x, fields, ctx, tables, allow_nested=True, safe_only=False):
    """One operation for the instance in its current state.  safe_only: wrapper mutators are drawn from the
    entries the CURRENT table classifies as safe (such histories are not cut short by the known defects of
    the other entries, so they reach full length)."""
    if safe_only:
        tables = {k: [(m, s) for m, s in v if s.startswith("(CopyMutateReassign")] or v for k, v in tables.items()}
        allow_nested = False
    state = dict(public_attrs(x))
    containers = [fd for fd in fields if kind_of(fd["field"]) and fd["name"] in state]
    r = rnd.random()
    if containers and r < 0.62:
        fd = rnd.choice(containers)
        f = fd["field"]
        kind = kind_of(f)
        cur = E.reify(state[fd["name"]], S.struct_attrs)
        content = cur[1]
        # nested typed container?
        g = inner_field(f)
        if allow_nested and g is not None and kind_of(g) and content and rnd.random() < 0.5:
            ikind = kind_of(g)
            if kind == "dict":
                sel, icontent = rnd.choice(content)
            else:
                i = rnd.randrange(len(content))
                sel, icontent = ("int", i), content[i]
            method = rnd.choice(tables[ikind])[0]
            args, kwargs = split_args(gen_args(rnd, ikind, method, g, icontent[1] if len(icontent) > 1 else [], ctx))
            op = {"op": "nested", "name": fd["name"], "okind": kind, "ikind": ikind, "sel": sel,
                  "method": method, "args": args}
            if kwargs:
                op["kwargs"] = kwargs
            return op
        method = rnd.choice(tables[kind])[0]
        args, kwargs = split_args(gen_args(rnd, kind, method, f, content, ctx))
        op = {"op": "call", "name": fd["name"], "kind": kind, "method": method, "args": args}
        if kwargs:
            op["kwargs"] = kwargs
        if method in ("__iadd__", "__imul__", "__ior__") and rnd.random() < 0.5:
            op["aug"] = True          # the statement form: x.f += v (dunder, then assignment of its result)
        return op
    if r < 0.90 or not fields:
        if fields and rnd.random() < 0.93:
            fd = rnd.choice(fields)
            f = fd["field"]
            q = rnd.random()
            if getattr(x, "_enable_undefined_value", False) and rnd.random() < 0.3:
                return {"op": "set", "name": fd["name"], "value": ("none",)}
            if q < 0.12 and fd["name"] in state:
                # a value Python's == cannot tell from the stored one, but of another type somewhere inside
                y = X.lookalike(rnd, E.reify(state[fd["name"]], S.struct_attrs))
                if y is not None:
                    return {"op": "set", "name": fd["name"], "value": y}
            try:
                if q < 0.5:
                    v = G.gen_valid(rnd, f, ctx.instances)
                elif q < 0.8:
                    v = G.corrupt(rnd, f, G.gen_valid(rnd, f, ctx.instances), ctx.instances)
                elif q < 0.9:
                    v = ("none",)
                else:
                    v = G.gen_any(rnd)
            except Exception:  # noqa
                v = G.gen_any(rnd)
            return {"op": "set", "name": fd["name"], "value": v}
        return {"op": "set", "name": rnd.choice(["zz", "extra1"]), "value": G.gen_any(rnd) if rnd.random() < 0.8 else ("none",)}
    names = [fd["name"] for fd in fields] + ["zz"]
    return {"op": "del", "name": rnd.choice(names)}


# ------------------------------------------------------------------ other instances of the same class
# Field objects are shared by all instances of a class: whatever an operation on ONE instance leaves behind in a
# Field (caches, scratch structures, flags) is seen by every later operation on every OTHER instance.  A history may
# therefore start with events on sibling instances (C = the class, KW = the start keyword arguments); the same source
# text is executed by the harness and printed in the replay.
SIBLING_EVENTS = {
    "deepcopy": "import copy\ny = C(**KW)\nz = copy.deepcopy(y)\n",
    "pickle": "import pickle\ny = C(**KW)\nz = pickle.loads(pickle.dumps(y))\n",
    "clone": "y = C(**KW)\nz = y.shallow_clone_with_overrides()\n",
    "trusted-construct": "z = C.from_trusted_data(None, **KW)\n",
    "trusted-assign": "z = C.from_trusted_data(None, **KW)\nfor k, v in list(KW.items()):\n    try:\n        setattr(z, k, v)\n"
                      "    except Exception:\n        pass\n",
    "serialize-roundtrip": "from typedpy import Serializer, Deserializer\ny = C(**KW)\nd = Serializer(y).serialize()\n"
                           "z = Deserializer(C).deserialize(d)\n",
    "trusted-deserialize": "from typedpy import Serializer, Deserializer\ny = C(**KW)\nd = Serializer(y).serialize()\n"
                           "z = Deserializer(C).deserialize(d, direct_trusted_mapping=True)\n",
    "failed-assignments": "y = C(**KW)\nfor k in list(KW):\n    for bad in (object(), None, 'high', -10 ** 9, [[]], {1: 2}):\n        try:\n"
                          "            setattr(y, k, bad)\n        except Exception:\n            pass\n",
    "failed-construct": "for k in list(KW):\n    try:\n        C(**dict(KW, **{k: object()}))\n    except Exception:\n        pass\n",
    "compare-print-hash": "y = C(**KW)\ny == C(**KW)\nstr(y)\ntry:\n    hash(y)\nexcept Exception:\n    pass\n",
    "skip-validation-copy": "import copy\ny = C(**KW)\nz = copy.copy(y)\nw = copy.deepcopy([y, {'k': y}])\n",
}
SIBLING_ORDER = sorted(SIBLING_EVENTS)


def run_sibling_events(events, cls, kwargs, ctx):
    for ev in events:
        ns = {"C": cls, "KW": S.realize_kwargs([(k, v) for k, v in kwargs], ctx)}
        try:
            exec(SIBLING_EVENTS[ev], ns)
        except Exception:  # noqa  the event itself is not judged here (other properties do); its traces are
            pass


def closing_ops(rnd, x, fields, ctx, tables):
    state = dict(public_attrs(x))
    out = []
    for fd in fields:
        f = fd["field"]
        kind = kind_of(f)
        if not kind or fd["name"] not in state or inner_field(f, 0) is None or rnd.random() < 0.4:
            continue
        try:
            content = E.reify(state[fd["name"]], S.struct_attrs)[1]
            names = [m for m, _ in tables[kind]]
            if kind == "dict":
                k = gen_key(rnd, f, True, ctx, content)
                v = gen_item(rnd, f, False, ctx)
                cands = [("__setitem__", [k, v]), ("update", [("dict", [(k, v)])]), ("setdefault", [k, v])]
            else:
                v = gen_item(rnd, f, False, ctx, len(content))
                cands = [("append", [v]), ("insert", [("int", len(content)), v]), ("extend", [("list", [v])]),
                         ("__iadd__", [["x:iter", [v]]])]
            cands = [c for c in cands if c[0] in names]
            if cands:
                m, args = rnd.choice(cands)
                out.append({"op": "call", "name": fd["name"], "kind": kind, "method": m, "args": args})
        except Exception:  # noqa  generator limitation
            continue
    return out


def run_history(rnd, cast, ctx, tables, nops, mode, ops=None, kwargs=None, safe_only=False, origin=None, siblings=None):
    """Generates (or, when ops is given, replays) a history on a fresh valid instance."""
    cls = ctx.classes[cast["name"]]
    fields = ctx.all_fields(cast["name"])
    fnames = [fd["name"] for fd in fields]
    if kwargs is None:
        made = make_instance(rnd, cast, ctx)
        if made is None:
            return None
        kwargs, x = made
    else:
        try:
            x = cls(**S.realize_kwargs([(k, v) for k, v in kwargs], ctx))
        except Exception:  # noqa
            return None
    h = History(cast, kwargs, mode)
    if origin is None:
        origin = rnd.choice(ORIGINS) if (rnd is not None and ops is None) else "ctor"
    if origin != "ctor":
        x0 = x
        try:
            y = derive(x0, origin)
            if type(y) is not type(x0) or canon(reify_state(y)) != canon(reify_state(x0)) or not (y == x0):
                raise ValueError("the copy differs")      # C11's subject, not C03's: start from the constructed one
            x = y
            h.keep = x0          # the original stays alive: a wrapper of the copy bound to it would write there
        except Exception:  # noqa
            origin = "ctor"
    h.origin = origin
    if siblings is None:
        siblings = []
        if rnd is not None and ops is None and rnd.random() < 0.4:
            siblings = [rnd.choice(SIBLING_ORDER) for _ in range(rnd.randint(1, 2))]
    h.siblings = list(siblings)
    if h.siblings:
        run_sibling_events(h.siblings, cls, kwargs, ctx)
    h.init = reify_state(x)
    handles = {} if mode == "reuse" else None
    i = 0
    closing = None
    while True:
        if ops is not None:
            if i >= len(ops):
                break
            op = ops[i]
        elif i < nops:
            op = scrub_op(gen_op(rnd, x, fields, ctx, tables, safe_only=safe_only))
        else:
            # closing probes: after the history (failed operations included) every typed container field must still
            # validate -- one mutator call with a corrupted argument per such field
            if closing is None:
                closing = [scrub_op(o) for o in closing_ops(rnd, x, fields, ctx, tables)]
            if not closing:
                break
            op = closing.pop(0)
        i += 1
        pre_state = reify_state(x)
        before = snapshot(x, fnames)
        twin = make_twin(x, cls, pre_state, ctx)
        out, extra = perform(x, op, ctx, handles)
        if out[0] == "skip":
            continue
        after = snapshot(x, fnames)
        post_state = reify_state(x)
        extra["none_fields"] = after["none_fields"]
        step = {"op": op, "out": out, "extra": extra,
                "post": None if canon(post_state) == canon(pre_state) else post_state}
        idx = len(h.steps)
        h.steps.append(step)
        fcast = field_cast(fields, op["name"])
        ctag = (fcast or {}).get("t", "non-field")
        if out[0] == "raise":
            diff = snapshot_diff(before, after)
            if not diff and twin is not None and not (x == twin):
                diff = ["=="]
            if diff:
                changed_names = sorted({k for k, _ in pre_state} ^ {k for k, _ in post_state} |
                                       {k for k, v in post_state if canon(dict(pre_state).get(k)) != canon(v)})
                has = op["op"] in ("set", "call") and cast_has_hook(ctx, cast) and hook_fails(x) \
                    and changed_names in ([op["name"]], [])
                key = finding_key(op, "changed-after-raise", tables, ctag, has)
                what = "%s raised %s but the instance changed (%s differ)" % (op_src(op), out[1], ",".join(diff))
                if extra.get("aug_mid") is not None:
                    # `x.f += v`: the in-place dunder went through (validated, stored) and the assignment of its result
                    # -- the value the field itself just stored -- was rejected
                    b = extra.get("base")
                    path = collision_path(fcast, b[1] if b and b[0] == "ok" else None,
                                          dict(extra["aug_mid"]).get(op["name"]), ctx)
                    if path:
                        key = "C03/stored-normal-form-invalid/normalised-collision/" + ".".join(path)
                    else:
                        key = "C03/%s.%s/aug-assign/stored-value-rejected-on-reassignment" % (op["kind"], op["method"])
                    what = ("%s: the in-place operator validated and stored %s, then the statement's own assignment of "
                            "that stored value raised %s: the field rejects what it has just stored" % (
                                op_src(op), G.py_src(dict(extra["aug_mid"]).get(op["name"], ("none",))), out[1]))
                h.py_findings.append((idx, key, what))
                h.cut = True
            if not allowed_exception(op, out, extra):
                ekey = finding_key(op, "exception-class:" + out[1], tables, ctag)
                if out[1] == "InvalidOperation" and X.op_has_nonfinite(op):
                    # NaN / infinity handed to a validator that compares it with a Decimal bound
                    ekey = "C03/nonfinite-number/exception-class:InvalidOperation"
                h.py_findings.append((idx, ekey,
                                      "%s raised %s, which is neither TypeError/ValueError nor the container's own "
                                      "IndexError/KeyError for this call" % (op_src(op), out[1])))
        else:
            if not reconstructible(x, cls):
                h.cut = True          # the verdict on validity is Coq's (state_ok_dom); stop extending this history
        if h.cut:
            break
    return h


def converted(g, x, ctx):
    """The normal form the item / key field g ALONE stores for x on the real library (reified), or None when g
    rejects x."""
    try:
        T = S.single_field_class(g, ctx)
        return E.reify(T(f=G.unreify(x, ctx.classes)).f, S.struct_attrs)
    except Exception:  # noqa
        return None


def _images_collide(g, elems, stored_elems, ctx):
    """Do the supplied elements, pairwise distinct for Python, coincide after g's conversion -- and is what was stored
    exactly the set of their images?"""
    if g is None or len(G.dedup(list(elems))) != len(elems):
        return False
    imgs = [converted(g, x, ctx) for x in elems]
    if any(i is None for i in imgs):
        return False
    distinct = G.dedup(imgs)
    if len(distinct) == len(imgs):
        return False
    return sorted(map(repr, map(G.py_key, distinct))) == sorted(map(repr, map(G.py_key, G.dedup(list(stored_elems)))))


def collision_path(f, sup, sto, ctx):
    """Root cause F20 (collection constraints are checked on the supplied elements, the elements are converted
    afterwards): the path of declaration kinds from the field down to a collection whose supplied elements / keys
    are distinct but coincide after the item field's conversion (so the STORED collection has duplicates under
    uniqueItems, or fewer entries than were counted against minItems).  None when there is no such collection: any
    other invalid stored normal form is a different defect."""
    if f is None or sup is None or sto is None:
        return None
    t = f.get("t")
    seq = ("list", "deque", "tuple")
    if t in ("allof", "anyof", "oneof"):
        for g in f.get("fs") or []:
            r = collision_path(g, sup, sto, ctx)
            if r:
                return [t] + r
        return None
    if t in ("seqeach", "seqpos", "tuple"):
        if sup[0] not in seq or sto[0] not in seq:
            return None
        a, b = list(sup[1]), list(sto[1])
        if len(a) != len(b):
            return None
        if t == "seqeach":
            fs = [f["item"]] * len(a)
        elif t == "tuple" and len(f["items"]) == 1:
            fs = [f["items"][0]] * len(a)
        else:
            fs = (list(f["items"]) + [None] * len(a))[:len(a)]
        if f.get("uniq") and len(G.dedup(a)) == len(a) and len(G.dedup(b)) < len(b):
            imgs = [converted(g, x, ctx) if g is not None else x for g, x in zip(fs, a)]
            if all(i is not None for i in imgs) and len(G.dedup(imgs)) < len(imgs):
                return [t + ":uniqueItems"]
        for g, x, y in zip(fs, a, b):
            r = collision_path(g, x, y, ctx)
            if r:
                return [t] + r
        return None
    if t == "set":
        if sup[0] != "set" or sto[0] != "set":
            return None
        if len(sto[2]) < len(sup[2]) and _images_collide(f.get("item"), list(sup[2]), list(sto[2]), ctx):
            return ["set:size"]
        return None
    if t == "mapkv":
        if sup[0] != "dict" or sto[0] != "dict":
            return None
        a, b = list(sup[1]), list(sto[1])
        if len(b) < len(a):
            if _images_collide(f["kf"], [k for k, _ in a], [k for k, _ in b], ctx):
                return ["mapkv:size"]
            return None
        if len(a) != len(b):
            return None
        for (k1, v1), (k2, v2) in zip(a, b):
            r = collision_path(f["kf"], k1, k2, ctx) or collision_path(f["vf"], v1, v2, ctx)
            if r:
                return [t] + r
        return None
    return None


def stored_nf_key(ctag, fc, supplied, stored, ctx):
    """Key of "validation stored a value the declaration does not admit": by ROOT CAUSE where it is the known one
    (conversion collision, wherever the collection sits), by field kind and symptom otherwise."""
    path = collision_path(fc, supplied, stored, ctx)
    if path:
        return "C03/stored-normal-form-invalid/normalised-collision/" + ".".join(path)
    return "C03/stored-normal-form-invalid/%s/%s" % (ctag, nf_reason(fc, stored))


def nf_reason(f, stored):
    """Why a stored normal form violates its declaration (searched through nested declarations)."""
    if f is None or stored is None:
        return "other"
    t = f.get("t")
    tag = stored[0]
    items = None
    if tag in ("list", "deque", "tuple"):
        items = list(stored[1])
    elif tag == "set":
        items = list(stored[2])
    elif tag == "dict":
        items = [v for _, v in stored[1]]
    if items is None:
        return "other"
    if f.get("uniq") and tag in ("list", "deque", "tuple") and len(G.dedup(items)) != len(items):
        return "duplicates-in-stored-value"
    lo = (f.get("sz") or [None, None])[0]
    if lo is not None and tag in ("set", "dict") and len(items) < lo:
        return "stored-size-below-minItems"
    subs = []
    if t in ("seqeach", "set") and f.get("item"):
        subs = [(f["item"], x) for x in items]
    elif t in ("seqpos", "tuple"):
        fs = f["items"]
        subs = [(fs[i] if i < len(fs) else (fs[0] if t == "tuple" and len(fs) == 1 else None), x) for i, x in enumerate(items)]
    elif t == "mapkv":
        subs = [(f["vf"], x) for x in items] + [(f["kf"], k) for k, _ in stored[1]]
    elif t in ("allof", "anyof", "oneof"):
        subs = [(g, stored) for g in f.get("fs") or []]
    for g, x in subs:
        if g is not None:
            r = nf_reason(g, x)
            if r != "other":
                return r
    return "other"


def hook_ok_py(hook, state):
    """The class's hook (structgen's small hook language) evaluated on a reified state {name: value}."""
    if not hook:
        return True
    if hook[0] == "le":
        a, b = state.get(hook[1]), state.get(hook[2])
        if a and b and a[0] == "int" and b[0] == "int":
            return a[1] <= b[1]
        return True
    return hook[1] in state


def post_state_at(h, k):
    """Reified state after step k of the history."""
    st = h.init
    for s in h.steps[:k + 1]:
        if s["post"] is not None:
            st = s["post"]
    return st


def cast_has_hook(ctx, cast):
    return ctx.hook_of(cast["name"]) is not None


# ------------------------------------------------------------------ class generation

def gen_cast(rnd, name, ctx):
    c = S.gen_class(rnd, name, ctx.class_names()[:3], container_bias=0.65, max_depth=2)
    if rnd.random() < 0.12:
        # a subclass of an earlier generated class: inherited typed containers, inherited / overridden hook
        bases = [b for b in ctx.asts if b["name"].startswith("M") and not b.get("base") and not b.get("immutable")]
        if bases:
            b = rnd.choice(bases)
            taken = {fd["name"] for fd in b["fields"]}
            c["base"] = b["name"]
            if c.get("additional") is None:
                c["additional"] = bool(rnd.random() < 0.3)     # _additional_properties is inherited: state it
            c["fields"] = [fd for fd in c["fields"] if fd["name"] not in taken or rnd.random() < 0.3]
            if c.get("required") is not None:
                c["required"] = [n for n in c["required"] if any(fd["name"] == n for fd in c["fields"])]
            if c.get("hook") and not all(any(fd["name"] == n for fd in c["fields"]) for n in c["hook"][1:]):
                c["hook"] = None
            if ctx.hook_of(b["name"]):
                c["hook"] = None          # keep the inherited hook
    if rnd.random() < 0.15:
        c["undefined"] = True          # _enable_undefined_value: an explicit None is tracked in _none_fields
    names = [fd["name"] for fd in c["fields"]]
    for fd in c["fields"]:
        if kind_of(fd["field"]) and rnd.random() < 0.08:
            fd["immutable"] = True
        if fd["field"]["t"] == "set" and fd["field"].get("imm"):
            fd["immutable"] = True
    r = rnd.random()
    if not c.get("hook") and r < 0.30:
        c["fields"] += [{"name": "p", "field": {"t": "num", "k": "Integer", "s": "Any"}},
                        {"name": "q", "field": {"t": "num", "k": "Integer", "s": "Any"}}]
        if c.get("required") is not None and rnd.random() < 0.5:
            c["required"] = sorted(c["required"] + ["p"])
        c["hook"] = ["le", "p", "q"]
    elif not c.get("hook") and r < 0.45:
        c["fields"].append({"name": "p", "field": {"t": "num", "k": "Integer", "s": "Any"}})
        c["required"] = sorted(set(c.get("required") or []) - {"p"}) if c.get("required") is not None else \
            [n for n in names if rnd.random() < 0.5]
        c["hook"] = ["set", "p"]
    return c


CLASS_MODULE = "harness_c03_classes"


def publish(ctx, name):
    """Makes a generated class importable (pickle looks classes up by module and name)."""
    import sys
    import types
    mod = sys.modules.get(CLASS_MODULE)
    if mod is None:
        mod = sys.modules[CLASS_MODULE] = types.ModuleType(CLASS_MODULE)
    cls = ctx.classes[name]
    try:
        cls.__module__ = CLASS_MODULE
        setattr(mod, name, cls)
    except Exception:  # noqa
        pass


def add_class(ctx, cast):
    try:
        exec(S.class_src(cast), ctx.ns)
    except Exception:  # noqa  declaration rejected by typedpy: not a class
        return False
    ctx.asts.append(cast)
    ctx.classes[cast["name"]] = ctx.ns[cast["name"]]
    for c in S.Context.BASE:
        publish(ctx, c["name"])
    publish(ctx, cast["name"])
    return True


ORIGINS = ["ctor"] * 14 + ["deepcopy", "deepcopy", "pickle", "pickle", "clone", "clone"]
ORIGIN_SRC = {"deepcopy": "import copy\nx = copy.deepcopy(x)", "pickle": "import pickle\nx = pickle.loads(pickle.dumps(x))",
              "clone": "x = x.shallow_clone_with_overrides()", "copy": "import copy\nx = copy.copy(x)"}


def derive(x, origin):
    """The starting instance of a history: the constructed one, or a valid instance obtained from it by one of the
    library's / Python's copying routes (the wrappers of the copy must belong to the copy)."""
    import copy
    import pickle
    if origin == "deepcopy":
        return copy.deepcopy(x)
    if origin == "pickle":
        return pickle.loads(pickle.dumps(x))
    if origin == "clone":
        return x.shallow_clone_with_overrides()
    if origin == "copy":
        return copy.copy(x)
    return x


# ------------------------------------------------------------------ emission

HEADER = """From Coq Require Import ZArith NArith String List Bool. Import ListNotations.
From TP Require Import Check.C03chk.
Local Open Scope string_scope.
"""


def emit_attrs(state):
    return E.lst(["(%s, %s)" % (E.pstr(k), E.pval(v)) for k, v in state])


def emit_outcome(out):
    return "Done" if out[0] == "ok" else "(Raised %s)" % E.exn(out[1])


def emit_hop(step):
    op, extra = step["op"], step["extra"]
    k = op["op"]
    if k == "set":
        return "(HSet %s %s)" % (E.pstr(op["name"]), E.pval(op["value"]))
    if k == "del":
        return "(HDel %s)" % E.pstr(op["name"])
    if k == "call":
        return "(HWrap %s %s %s %s %s)" % (E.pstr(op["name"]), E.nlit(KIND_ID[op["kind"]]), E.pstr(op["method"]),
                                          E.blit(extra["live"]), E.outcome(extra["base"]))
    return "HOpaque"


def emit_history(h, ctx):
    fields = [fd["field"] for fd in ctx.all_fields(h.cast["name"])]
    values = [v for _, v in h.init]
    for s in h.steps:
        if s["post"]:
            values += [v for _, v in s["post"]]
        if s["op"]["op"] == "set":
            values.append(s["op"]["value"])
        b = s["extra"].get("base")
        if b and b[0] == "ok":
            values.append(b[1])
    tbl = G.match_table(fields, values)
    steps = ["{| o_op := %s; o_out := %s; o_post := %s |}" % (
        emit_hop(s), emit_outcome(s["out"]), E.opt(s["post"], emit_attrs)) for s in h.steps]
    return "{| h_tbl := %s; h_class := cd_%s; h_init := %s; h_steps := %s |}" % (
        G.emit_table(tbl), h.cast["name"], emit_attrs(h.init), E.lst(["\n   " + s for s in steps]))


def emit_classdef_u(ctx, name):
    """The class description for the model.  Under _enable_undefined_value an assignment of None to an optional
    field returns without reaching the descriptor, exactly as under _ignore_none (Structure.__setattr__ tests
    `IGNORE_NONE or ENABLE_UNDEFINED`); what differs is the bookkeeping in _none_fields, which the attribute part of
    the model does not carry (Struct/NoneFields.v does) and which is compared on the implementation."""
    text = ctx.emit_classdef(name)
    if getattr(ctx.classes[name], "_enable_undefined_value", False):
        text = text.replace("c_ignore_none := false", "c_ignore_none := true")
    return text


def coq_header(ctx, names=None):
    """Class definitions and environment.  names: the classes a shard needs (their ancestors, the classes their
    fields refer to and the base classes are added); None = all."""
    if names is None:
        asts = list(ctx.asts)
    else:
        need = {c["name"] for c in S.Context.BASE}
        todo = list(names)
        while todo:
            n = todo.pop()
            if n in need:
                continue
            need.add(n)
            c = ctx.ast(n)
            if c.get("base"):
                todo.append(c["base"])
            todo += [r for fd in c["fields"] for r in refs_in(fd["field"])]
        asts = [c for c in ctx.asts if c["name"] in need]
    lines = [HEADER]
    for c in asts:
        lines.append("Definition cd_%s : classdef := %s." % (c["name"], emit_classdef_u(ctx, c["name"])))
    lines.append("Definition env0 : env := %s." % E.lst(["cd_%s" % c["name"] for c in asts]))
    return "\n".join(lines) + "\n"


def refs_in(f):
    out = []
    if f.get("t") == "ref":
        out.append(f["cls"])
    for key in ("item", "kf", "vf"):
        if isinstance(f.get(key), dict):
            out += refs_in(f[key])
    for key in ("items", "fs"):
        for g in f.get(key) or []:
            out += refs_in(g)
    return out


def evaluate(histories, ctx, tag="c03", per=40):
    """Per history: first mismatching step (0 = none), first spec-failing step, start validity, whether
    the theorem's hypotheses hold."""
    shards = []
    for s in range(0, len(histories), per):
        items = [emit_history(h, ctx) for h in histories[s:s + per]]
        body = "Definition cases : list hcase := %s.\n" % E.lst(["\n " + i for i in items])
        body += "Eval vm_compute in (map (hist_mismatch env0) cases).\n"
        # the state clauses (valid after success, unchanged after a raise); the exception-class clause is judged on
        # the Python side, where "the container's usual exception" is known from the base type's own behaviour
        body += "Eval vm_compute in (map (hist_state_bad env0) cases).\n"
        body += "Eval vm_compute in (map (hist_nf_bad env0) cases).\n"
        body += "Eval vm_compute in (indices_where (fun h => negb (start_valid env0 h)) cases 0).\n"
        body += "Eval vm_compute in (indices_where (hyps_hold env0) cases 0).\n"
        body += "Eval vm_compute in (indices_where (theorem_contradicted env0) cases 0).\n"
        shards.append(coq_header(ctx, {h.cast["name"] for h in histories[s:s + per]}) + body)
    res = core.eval_cases(shards, tag, "")
    out = {"mismatch": {}, "spec_bad": {}, "nf_bad": {}, "start_invalid": [], "hyps": [], "contradicted": []}
    for si, (rc, so, se) in enumerate(res):
        vals = core.parse_eval(so)
        if rc != 0 or len(vals) != 6:
            raise RuntimeError("case shard %d failed to evaluate: %s" % (si, (so + se)[-1500:]))
        n = len(histories[si * per:(si + 1) * per])
        mm, sb, nb = core.parse_nat_list(vals[0]), core.parse_nat_list(vals[1]), core.parse_nat_list(vals[2])
        for i, v in enumerate(nb):
            if v:
                out["nf_bad"][si * per + i] = v - 1
        if len(mm) != n or len(sb) != n:
            raise RuntimeError("case shard %d: unexpected result length" % si)
        for i, v in enumerate(mm):
            if v:
                out["mismatch"][si * per + i] = v - 1
        for i, v in enumerate(sb):
            if v:
                out["spec_bad"][si * per + i] = v - 1
        for name, v in zip(("start_invalid", "hyps", "contradicted"), vals[3:]):
            out[name] += [si * per + i for i in core.parse_nat_list(v)]
    return out


def table_status():
    """Which entries of the CURRENT generated tables are not safe, as Coq computes it."""
    body = ("Eval vm_compute in (unsafe_idx (table_of 0%N)).\nEval vm_compute in (unsafe_idx (table_of 1%N)).\n"
            "Eval vm_compute in (unsafe_idx (table_of 2%N)).\n")
    (rc, so, se), = core.eval_cases([body], "c03tbl", HEADER)
    vals = core.parse_eval(so)
    if rc != 0 or len(vals) != 3:
        raise RuntimeError("table status failed to evaluate: " + (so + se)[-1500:])
    return {k: core.parse_nat_list(v) for k, v in zip(("list", "deque", "dict"), vals)}


# ------------------------------------------------------------------ directed streams

def directed_casts():
    I = {"t": "num", "k": "Integer", "s": "Any"}
    Sx = {"t": "str"}
    out = []
    for kind in ("list", "deque"):
        out.append((kind, {"t": "seqeach", "k": kind, "item": I, "sz": [2, 3], "uniq": True},
                    [("list" if kind == "list" else "deque", [("int", 1), ("int", 2)]),
                     ("list" if kind == "list" else "deque", [("int", 3), ("int", 1), ("int", 2)])]))
        out.append((kind, {"t": "seqpos", "k": kind, "items": [I, Sx], "sz": [None, None], "uniq": False, "additional": None},
                    [("list" if kind == "list" else "deque", [("int", 1), ("str", "a")]),
                     ("list" if kind == "list" else "deque", [("int", 1), ("str", "a"), ("int", 7)])]))
    Imin = {"t": "num", "k": "Integer", "s": "Any", "min": ("int", 5)}
    Imax = {"t": "num", "k": "Integer", "s": "Any", "max": ("int", 4)}
    for kind in ("list", "deque"):
        out.append((kind, {"t": "seqpos", "k": kind, "items": [Imin, Imax], "sz": [None, None], "uniq": False, "additional": None},
                    [(kind, [("int", 9), ("int", 1)])]))
    out.append(("dict", {"t": "mapkv", "kf": Sx, "vf": I, "sz": [1, 2]},
                [("dict", [(("str", "k"), ("int", 1))]), ("dict", [(("str", "k"), ("int", 1)), (("str", "j"), ("int", 2))])]))
    return out


DIRECTED_ARGS = {
    "list": [[], [("int", 0)], [("int", 1)], [("int", 2)], [("list", [("str", "x")])], [("int", 0), ("str", "x")],
             [("str", "x")], [("int", 1), ("str", "x")], [("list", [("int", 9), ("int", 8)])], [("int", 9)],
             [("int", 0), ("int", 9)], [("int", 2), ("int", 9)]],
    "dict": [[], [("str", "k")], [("int", 3)], [("int", 3), ("str", "x")], [("str", "k"), ("str", "x")],
             [("dict", [(("int", 1), ("int", 2))])], [("dict", [(("str", "n"), ("int", 2)), (("str", "o"), ("int", 2))])],
             [("str", "n"), ("int", 5)], [("str", "n")], [("str", "k"), ("int", 4)]],
}
# calls with slices, keyword arguments, one-shot / failing iterators, key functions (dicts: {"args", "kwargs"})
DIRECTED_ARGS["deque"] = DIRECTED_ARGS["list"] + [
    [["x:failiter", [("int", 9), ("int", 8)]]], [["x:iter", [("str", "x")]]], [("tuple", [("str", "x")])],
    [("int", -1), ("str", "x")], [("int", -1)]]
DIRECTED_ARGS["list"] = DIRECTED_ARGS["list"] + [
    [["x:slice", 0, 1, None], ("list", [("str", "x")])], [["x:slice", 0, 1, None], ("list", [])],
    [["x:slice", 1, None, None], ("list", [])], [["x:slice", None, None, None], ("list", [("int", 9), ("int", 9), ("int", 9)])],
    [["x:slice", 5, None, None], ("list", [("int", 9), ("int", 8)])], [["x:slice", None, None, 2], ("list", [("str", "x"), ("str", "y")])],
    [["x:slice", None, None, 2], ("list", [("str", "x")])],
    [["x:slice", 0, 2, None]], [["x:slice", None, None, 2]], [["x:slice", 1, None, None]], [["x:slice", None, None, None]],
    [["x:slice", 0, 1, None], ["x:failiter", [("int", 9)]]], [["x:slice", 0, 1, None], ["x:iter", [("str", "x")]]],
    [["x:failiter", [("int", 9), ("int", 8)]]], [["x:iter", [("str", "x")]]], [("tuple", [("str", "x")])],
    [("int", -1), ("str", "x")], [("int", -1)],
    {"args": [], "kwargs": {"key": ["x:keyseq", [("int", 2), ("int", 1), ("str", "a"), ("int", 0)]]}},
    {"args": [], "kwargs": {"key": ["x:keyseq", [("int", 2), ("int", 1), ("str", "a"), ("int", 0)]], "reverse": ("bool", True)}},
    {"args": [], "kwargs": {"key": ["x:keyseq", [("int", 3), ("int", 2), ("int", 1)]]}},
    {"args": [], "kwargs": {"reverse": ("bool", True)}}]
DIRECTED_ARGS["dict"] = DIRECTED_ARGS["dict"] + [
    {"args": [], "kwargs": {"n": ("int", 2), "o": ("int", 3)}}, {"args": [], "kwargs": {"k": ("str", "x")}},
    {"args": [("dict", [(("str", "n"), ("int", 2))])], "kwargs": {"o": ("str", "x")}},
    [("list", [("tuple", [("str", "n"), ("int", 2)]), ("tuple", [("str", "o"), ("str", "x")])])],
    [("list", [("tuple", [("str", "n"), ("int", 2)]), ("tuple", [("str", "o"), ("int", 3)])])],
    [["x:failiter", [("tuple", [("str", "n"), ("int", 2)])]]], [["x:iter", [("tuple", [("str", "n"), ("str", "x")])]]],
    [["x:iter", [("tuple", [("int", 3), ("int", 2)])]]],
    [("dict", [(("str", "k"), ("flt", 1, 0))])], [("str", "k"), ("flt", 1, 0)], [("str", "k"), ("bool", True)],
    [("dict", [(("str", "k"), ("dec", 1, 0))])]]


def has_opaque(r):
    """Does the reified value hold an object the reifier cannot represent (a slice / generator / function that a
    directed call stored as an ELEMENT)?  Such calls are not part of the witness family."""
    t = r[0]
    if t == "other":
        return r[1] not in ("float", "complex", "bytes", "object", "Decimal")
    if t in ("list", "tuple", "deque"):
        return any(has_opaque(x) for x in r[1])
    if t == "set":
        return any(has_opaque(x) for x in r[2])
    if t == "dict":
        return any(has_opaque(k) or has_opaque(v) for k, v in r[1])
    return False


def directed_op(kind, method, a):
    op = {"op": "call", "name": "a", "kind": kind, "method": method}
    if isinstance(a, dict):
        op["args"] = list(a["args"])
        if a.get("kwargs"):
            op["kwargs"] = dict(a["kwargs"])
    else:
        op["args"] = list(a)
    return op


def directed_entry(kind, method, ctx, tables):
    """Searches the witness family for a concrete input on which mutator `method` of the wrapper violates the
    statement.  Returns a History with a py_finding, or None."""
    lost = None
    for ci, (k, f, starts) in enumerate(directed_casts()):
        if k != kind:
            continue
        cname = "W_%s_%d" % (kind, ci)
        if cname not in ctx.classes:
            add_class(ctx, {"name": cname, "fields": [{"name": "a", "field": f}], "required": ["a"], "additional": False})
        cast = ctx.ast(cname)
        for start in starts:
            for args in DIRECTED_ARGS[kind]:
                op = directed_op(kind, method, args)
                # calls that would leave an invalid value if they ran unvalidated, and calls the base type's
                # method fails on (it may fail half way: list.sort, extend/update from a failing iterator)
                cls = ctx.classes[cname]
                try:
                    probe = cls(a=G.unreify(start, ctx.classes))
                except Exception:  # noqa
                    continue
                b = base_result(probe.a, kind, method, op, ctx)
                if b[0] != "ok":
                    if b[1] in ("TypeError", "ValueError") and X.needs_prelude([op]):
                        h = run_history(None, cast, ctx, tables, 1, "reread", ops=[op], kwargs=[("a", start)])
                        if h is not None and h.py_findings:
                            return h
                    continue
                if has_opaque(b[1]):
                    continue
                try:
                    cls(a=G.unreify(b[1], ctx.classes))
                    valid_result = True
                except Exception:  # noqa
                    valid_result = False
                if valid_result:
                    # the mutation must take effect: a call that returns normally performs the base type's change
                    if lost is None and canon(b[1]) != canon(start):
                        h = run_history(None, cast, ctx, tables, 1, "reread", ops=[op], kwargs=[("a", start)])
                        if h is not None and h.steps and h.steps[0]["out"][0] == "ok":
                            got = dict(h.steps[0]["post"] or h.init)["a"]
                            if canon(got) != canon(b[1]):
                                h.py_findings.append((0, finding_key(op, "lost-update", tables, f["t"]),
                                                      "%s returned normally but x.a reads %s; %s would give %s, which the "
                                                      "declaration admits" % (op_src(op), G.py_src(got), kind, G.py_src(b[1]))))
                                lost = h
                    continue
                h = run_history(None, cast, ctx, tables, 1, "reread", ops=[op], kwargs=[("a", start)])
                if h is None or not h.steps:
                    continue
                st = h.steps[0]
                if st["out"][0] == "ok" and st["post"] is not None and not reconstructible_state(cls, st["post"], ctx):
                    h.py_findings.append((0, finding_key(op, "invalid-after-success", tables, f["t"]),
                                          "%s returned normally and left x.a = %s, which %s rejects" % (
                                              op_src(op), G.py_src(dict(st["post"])["a"]), G.field_src(f))))
                if h.py_findings:
                    return h
    return lost


def reconstructible_state(cls, state, ctx):
    try:
        build_from_state(cls, state, ctx)
        return True
    except Exception:  # noqa
        return False


def directed_hooks(ctx, tables):
    """F4: store before the hook / post-store format checks; del bypassing the hook (both repaired in the library:
    a rejected assignment / deletion must leave the instance as it was)."""
    out = []
    I = {"t": "num", "k": "Integer", "s": "Any"}
    add_class(ctx, {"name": "WH", "fields": [{"name": "a", "field": {"t": "seqeach", "k": "list", "item": I, "sz": [None, None], "uniq": False}},
                                             {"name": "p", "field": I}, {"name": "q", "field": I}],
                    "required": ["a"], "additional": False, "hook": ["le", "p", "q"]})
    add_class(ctx, {"name": "WD", "fields": [{"name": "a", "field": I}, {"name": "p", "field": I}],
                    "required": ["a"], "additional": False, "hook": ["set", "p"]})
    h = run_history(None, ctx.ast("WH"), ctx, tables, 1, "reread",
                    ops=[{"op": "set", "name": "p", "value": ("int", 9)}],
                    kwargs=[("a", ("list", [("int", 1)])), ("p", ("int", 1)), ("q", ("int", 5))])
    out.append(("hook-after-store", h))
    h = run_history(None, ctx.ast("WD"), ctx, tables, 1, "reread", ops=[{"op": "del", "name": "p"}],
                    kwargs=[("a", ("int", 1)), ("p", ("int", 2))])
    if h is not None and h.steps and h.steps[0]["out"][0] == "ok" and hook_fails_state(ctx, "WD", h):
        h.py_findings.append((0, "C03/delitem/hook-not-run",
                              "del x['p'] returned normally although __validate__ rejects the resulting instance"))
    out.append(("delitem-hook", h))
    return out


def hook_fails_state(ctx, cname, h):
    st = h.steps[0]["post"] if h.steps[0]["post"] is not None else h.init
    return not reconstructible_state(ctx.classes[cname], st, ctx)


EXT_SRC = """
from typedpy import Structure, DateString, TimeString, Integer
class WX(Structure):
    d = DateString
    t = TimeString
    n = Integer
    _required = []
"""


def directed_extfields(rep):
    """DateString / TimeString check their format AFTER String.__set__ has stored (extfields.py)."""
    ns = {}
    exec(EXT_SRC, ns)
    WX = ns["WX"]
    n = 0
    for name, good, bad in (("d", "2020-01-31", "junk"), ("t", "10:11:12", "25:99:99"), ("d", "1999-12-01", "2020-13-45"),
                            ("t", "00:00:00", "noon"), ("n", 3, "x"), ("d", "2020-01-31", 5)):
        x = WX(d="2001-02-03", t="01:02:03", n=1)
        setattr(x, name, good)
        before = (dict(x.__dict__), str(x), x == WX(**{k: v for k, v in x.__dict__.items() if not k.startswith("_")}))
        try:
            setattr(x, name, bad)
            raised = None
        except Exception as ex:  # noqa
            raised = type(ex).__name__
        after = (dict(x.__dict__), str(x))
        n += 1
        rep.count("directed:extfields", 1, (name, repr(bad)))
        if raised and (after[0] != before[0] or after[1] != before[1]):
            kind = {"d": "DateString", "t": "TimeString", "n": "Integer"}[name]
            rep.finding("C03/setattr/%s/changed-after-raise" % kind,
                        "x.%s = %r raised %s but x.%s now reads %r (was %r)" % (name, bad, raised, name, getattr(x, name), good),
                        {"stream": "extfields", "field": name, "good": good, "bad": bad,
                         "python": EXT_SRC + "x = WX(%s=%r)\ntry:\n    x.%s = %r\nexcept Exception as e: print(type(e).__name__, e)\nprint(x)\n" % (
                             name, good, name, bad)})
        if raised and raised not in ("TypeError", "ValueError"):
            rep.finding("C03/setattr/extfields/exception-class:" + raised, "x.%s = %r raised %s" % (name, bad, raised),
                        {"stream": "extfields", "field": name, "good": good, "bad": bad})
    return n


# ------------------------------------------------------------------ a hook that reads the containers

HOOKC_SRC = """
from typedpy import Structure, Array, Deque, Map, Integer, String
from collections import deque
class WHC(Structure):
    a = Array[Integer]
    d = Deque[Integer]
    m = Map[String, Integer]
    q = Integer
    def __validate__(self):
        for n in ('a', 'd', 'm'):
            if len(self.__dict__.get(n, ())) > self.q:
                raise ValueError('%s holds more than q entries' % n)
"""


def directed_container_hook(rep, tables):
    """The class's __validate__ relates the SIZE of a typed container to another field (the model's hook language
    has no such hook, so this stream is judged on the implementation alone).  A growing mutator with a valid item
    is rejected by the hook (the instance must then be unchanged: the hook-after-store defect is repaired); whatever
    happened, the field must still be validated afterwards: an invalid item is rejected and changes nothing."""
    ns = {}
    exec(HOOKC_SRC, ns)
    WHC = ns["WHC"]
    grow = {"list": [("append", (2,)), ("extend", ([2, 3],)), ("insert", (0, 2)), ("__iadd__", ([2],)), ("__imul__", (2,)),
                     ("__setitem__", (slice(1, 1), [2, 3]))],
            "deque": [("append", (2,)), ("appendleft", (2,)), ("extend", ([2, 3],)), ("extendleft", ([2],)), ("insert", (0, 2)),
                      ("__iadd__", ([2],)), ("__imul__", (2,))],
            "dict": [("__setitem__", ("n", 2)), ("update", ({"n": 2},)), ("setdefault", ("n", 2)), ("__ior__", ({"n": 2},))]}
    bad = {"list": [("append", ("x",)), ("__setitem__", (0, "x")), ("extend", (["x"],)), ("insert", (0, None))],
           "deque": [("append", ("x",)), ("appendleft", (2.5,)), ("__setitem__", (0, "x")), ("extend", (["x"],))],
           "dict": [("__setitem__", ("k", "x")), ("update", ({"k": 2.5},)), ("__setitem__", (5, 1)), ("setdefault", ("z", "x"))]}
    fld = {"list": "a", "deque": "d", "dict": "m"}

    def state(x):
        return (list(x.a), list(x.d), dict(x.m), x.q, str(x))
    for kind in ("list", "deque", "dict"):
        names = {m for m, _ in tables[kind]}
        for gm, gargs in grow[kind]:
            if gm not in names:
                continue
            for bm, bargs in bad[kind]:
                if bm not in names:
                    continue
                x = WHC(a=[1], d=collections.deque([1]), m={"k": 1}, q=1)
                f = fld[kind]
                before = state(x)
                try:
                    getattr(getattr(x, f), gm)(*gargs)
                    r1 = None
                except Exception as ex:  # noqa
                    r1 = type(ex).__name__
                mid = state(x)
                rep.count("directed:container-hook", 1, (kind, gm, bm))
                py = HOOKC_SRC + "x = WHC(a=[1], d=deque([1]), m={'k': 1}, q=1)\nfor call in (lambda: x.%s.%s(*%r), lambda: x.%s.%s(*%r)):\n" \
                    "    try: call()\n    except Exception as e: print(type(e).__name__, e)\n    print(x)\n" % (f, gm, gargs, f, bm, bargs)
                robj = {"stream": "container-hook", "python": py}
                if r1 is not None and mid != before:
                    rep.finding("C03/hook-after-store/%s.%s/changed-after-raise" % (kind, gm),
                                "x.%s.%s%r raised %s (hook) but the instance changed: %s" % (f, gm, gargs, r1, mid[4]), robj)
                try:
                    getattr(getattr(x, f), bm)(*bargs)
                    r2 = None
                except Exception as ex:  # noqa
                    r2 = type(ex).__name__
                after = state(x)
                if r2 is None:
                    rep.finding("C03/after-hook-failure/%s/invalid-accepted" % kind,
                                "after x.%s.%s%r (%s), x.%s.%s%r returned normally: the field is no longer validated; %s" % (
                                    f, gm, gargs, "raised " + r1 if r1 else "returned", f, bm, bargs, after[4]), robj)
                elif after != mid:
                    rep.finding("C03/after-hook-failure/%s/changed-after-raise" % kind,
                                "after x.%s.%s%r, x.%s.%s%r raised %s but the instance changed: %s" % (
                                    f, gm, gargs, f, bm, bargs, r2, after[4]), robj)


# ------------------------------------------------------------------ every exported Field class

FIELD_ARG_CANDIDATES = ["", "items=Integer", "fields=[Integer, String]", "values=[1, 2, 'a']", "clazz=Inner", "maxlen=3",
                        "items=[String, Integer]", "Inner"]


def value_pool():
    """(label, factory) -- factories, because generators / iterators are single use."""
    import datetime as dt
    import decimal as dc
    lits = ["2020-01-31", "1999-12-01", "junk", "2020-13-45", "10:11:12", "00:00:00", "25:99:99", "noon",
            "01/31/20 10:11:12", "12/01/99 00:00:00", "13/45/20 10:11:12", "127.0.0.1", "10.0.0.255", "999.1.1.1", "1.2.3",
            "example.com", "my-host", "-bad-.com!", "a@b.cd", "a@b", '{"a": 1}', "[1, 2]", "{bad json", "abc", "", "a", "x" * 300,
            0, 1, -1, 7, 2 ** 70, 2.5, -0.5, 1.0, True, False, None, [], [1], ["a", "b"], [1, "a"], {}, {"a": 1}, {1: "a"},
            (1, "a"), ("a", 1), (), b"xy", complex(1, 2), float("nan")]
    pool = [(repr(v)[:40], (lambda v=v: v)) for v in lits]
    pool += [("Decimal('1.5')", lambda: dc.Decimal("1.5")), ("Decimal('2')", lambda: dc.Decimal("2")),
             ("{1, 2}", lambda: {1, 2}), ("{'a'}", lambda: {"a"}), ("frozenset([1])", lambda: frozenset([1])),
             ("deque([1, 2])", lambda: collections.deque([1, 2])), ("deque(['a'])", lambda: collections.deque(["a"])),
             ("date(2020, 1, 31)", lambda: dt.date(2020, 1, 31)), ("datetime(2020, 1, 31, 10, 11, 12)", lambda: dt.datetime(2020, 1, 31, 10, 11, 12)),
             ("time(10, 11, 12)", lambda: dt.time(10, 11, 12)), ("len", lambda: len), ("lambda: 1", lambda: (lambda: 1)),
             ("(i for i in [1])", lambda: (i for i in [1])), ("ValueError('x')", lambda: ValueError("x")),
             ("KeyError", lambda: KeyError), ("Color.RED", lambda: G.Color.RED), ("Size.M", lambda: G.Size.M),
             ("object()", object)]
    return pool


def fieldclass_sources():
    """(class name, field source) for every Field class typedpy exports that can be instantiated from a small set
    of argument candidates -- found by introspection, not listed by hand."""
    import typedpy
    out = []
    for name in sorted(dir(typedpy)):
        obj = getattr(typedpy, name)
        if not (isinstance(obj, type) and issubclass(obj, typedpy.Field)):
            continue
        for args in FIELD_ARG_CANDIDATES:
            out.append((name, "%s(%s)" % (name, args)))
    # a few parameterised forms of the fields whose checks run after the store
    out += [("DateString", "DateString(date_format='%d/%m/%Y')"), ("TimeString", "TimeString()"),
            ("DateField", "DateField(date_format='%d/%m/%Y')"), ("DateTime", "DateTime(datetime_format='%Y-%m-%d %H:%M')"),
            ("String", "String(pattern='^[a-z]+$', maxLength=5)"), ("SizedString", "SizedString(maxlen=2)")]
    return out


def same_obj_state(a, b):
    if set(a) != set(b):
        return False
    for k in a:
        x, y = a[k], b[k]
        if x is y:
            continue
        try:
            if type(x) is not type(y) or not (x == y):
                return False
        except Exception:  # noqa
            return False
    return True


def directed_fieldclasses(rep, limit_pairs=6):
    """For EVERY exported field class: a structure with one such field, values the constructor accepts and values
    it rejects (found by probing a fixed pool), and every assignment of a rejected value over an accepted one:
    it must raise TypeError/ValueError and leave the instance as it was.  Catches a field that stores before it
    checks, whatever field it is."""
    import typedpy
    ns = {}
    exec("from typedpy import *\nfrom typedpy import Structure\nimport typedpy\n"
         "class Inner(Structure):\n    a = Integer\n    _required = []\n", ns)
    pool = value_pool()
    seen_cls = set()
    n = 0
    for cname, src in fieldclass_sources():
        csrc = "class T(Structure):\n    f = %s\n    _required = []\n" % src
        try:
            exec(csrc, ns)
            T = ns["T"]
            if "f" not in T.get_all_fields_by_name():
                continue
        except Exception:  # noqa  not constructible with these arguments
            continue
        if (cname, src) in seen_cls:
            continue
        good, bad = [], []
        for label, mk in pool:
            try:
                T(f=mk())
                good.append((label, mk))
            except Exception:  # noqa
                bad.append((label, mk))
        if not good or not bad:
            rep.stat("directed:field-classes", "no-accepted-or-no-rejected-value:" + cname)
            continue
        seen_cls.add((cname, src))
        rep.stat("directed:field-classes", "class:" + cname)
        for gl, gmk in good[:2]:
            step = max(1, len(bad) // limit_pairs)
            for bl, bmk in bad[::step][:limit_pairs + 2]:
                try:
                    x = T(f=gmk())
                except Exception:  # noqa
                    continue
                before = (dict(x.__dict__), str(x))
                try:
                    twin_eq = (x == T(f=gmk()))
                except Exception:  # noqa
                    twin_eq = None
                try:
                    x.f = bmk()
                    raised = None
                except Exception as ex:  # noqa
                    raised = E.exn_name(ex)
                try:
                    after = (dict(x.__dict__), str(x))
                except Exception as ex:  # noqa
                    after = ({"<str raises>": type(ex).__name__}, "")
                n += 1
                rep.count("directed:field-classes", 1, (src, raised or "accepted"))
                py = ("from typedpy import *\nimport datetime, decimal, collections\n" + csrc +
                      "x = T(f=%s)\ntry:\n    x.f = %s\nexcept Exception as e: print(type(e).__name__, e)\nprint(x)\n" % (gl, bl))
                robj = {"stream": "fieldclasses", "field_class": cname, "field": src, "good": gl, "bad": bl, "python": py}
                changed = not same_obj_state(before[0], after[0]) or before[1] != after[1]
                if not changed and twin_eq is True:
                    try:
                        changed = not (x == T(f=gmk()))
                    except Exception:  # noqa
                        pass
                if raised and changed:
                    rep.finding("C03/setattr/%s/changed-after-raise" % cname,
                                "with f = %s: x.f = %s raised %s but x now prints %s (was %s)" % (src, bl, raised, after[1], before[1]), robj)
                if raised and raised not in ("TypeError", "ValueError", "InvalidStructureErr"):
                    rep.finding("C03/setattr/%s/exception-class:%s" % (cname, raised),
                                "with f = %s: x.f = %s raised %s" % (src, bl, raised), robj)
                if raised is None:
                    # accepted on assignment although the constructor rejects the same value
                    try:
                        T(f=bmk())
                        ctor_rejects = False
                    except Exception:  # noqa
                        ctor_rejects = True
                    if ctor_rejects and not isinstance(x.__dict__.get("f"), type(None)):
                        rep.finding("C03/setattr/%s/accepted-what-the-constructor-rejects" % cname,
                                    "with f = %s: x.f = %s returned normally, T(f=%s) raises" % (src, bl, bl), robj)
    return n


def lookalike_class():
    I = {"t": "num", "k": "Integer", "s": "Any"}
    F = {"t": "num", "k": "Float", "s": "Any"}
    N = {"t": "num", "k": "Number", "s": "Any"}
    Sx = {"t": "str"}
    B = {"t": "bool"}
    nosz = [None, None]
    seq = lambda k, item: {"t": "seqeach", "k": k, "item": item, "sz": nosz, "uniq": False}
    fields = [
        ("i", I, ("int", 1)), ("j", I, ("int", 7)), ("f", F, ("flt", 1, 1)), ("g", F, ("flt", 5, -1)), ("n", N, ("int", 0)),
        ("b", B, ("bool", True)), ("e", {"t": "enumlit", "values": [("int", 1), ("int", 2), ("str", "a")]}, ("int", 1)),
        ("li", seq("list", I), ("list", [("int", 0), ("int", 1), ("int", 5)])),
        ("lf", seq("list", F), ("list", [("flt", 1, 0), ("flt", 5, -1)])),
        ("ln", seq("list", N), ("list", [("int", 1), ("flt", 5, -1)])),
        ("lb", seq("list", B), ("list", [("bool", True), ("bool", False)])),
        ("dq", seq("deque", I), ("deque", [("int", 1), ("int", 2)])),
        ("lp", {"t": "seqpos", "k": "list", "items": [I, Sx], "sz": nosz, "uniq": False, "additional": None},
         ("list", [("int", 1), ("str", "a")])),
        ("lu", {"t": "seqeach", "k": "list", "item": I, "sz": [1, 3], "uniq": True}, ("list", [("int", 1), ("int", 2)])),
        ("m", {"t": "mapkv", "kf": Sx, "vf": I, "sz": nosz}, ("dict", [(("str", "a"), ("int", 1)), (("str", "b"), ("int", 2))])),
        ("mk", {"t": "mapkv", "kf": I, "vf": Sx, "sz": nosz}, ("dict", [(("int", 1), ("str", "one")), (("int", 2), ("str", "two"))])),
        ("mb", {"t": "mapkv", "kf": Sx, "vf": B, "sz": [1, 2]}, ("dict", [(("str", "k"), ("bool", True))])),
        ("s", {"t": "set", "imm": False, "item": I, "sz": nosz}, ("set", False, [("int", 1), ("int", 2)])),
        ("t", {"t": "tuple", "items": [I, Sx], "uniq": False}, ("tuple", [("int", 1), ("str", "a")])),
        ("an", {"t": "anyof", "fs": [I, Sx]}, ("int", 1)),
        ("al", {"t": "allof", "fs": [I, {"t": "num", "k": "Number", "s": "Any", "max": ("int", 10)}]}, ("int", 1)),
        ("la", seq("list", {"t": "anyof", "fs": [I, Sx]}), ("list", [("int", 1), ("str", "x")])),
    ]
    cast = {"name": "WL", "fields": [{"name": n, "field": f} for n, f, _ in fields], "required": [], "additional": False}
    return cast, [(n, v) for n, _, v in fields]


def directed_lookalike(ctx, tables, rep):
    """Every way of replacing ONE numeric/bool leaf of a stored value by a value of another type that Python's
    == cannot tell from it (1 / 1.0 / Decimal(1) / True, dict keys included), through every entry point that can
    deliver it: attribute assignment, item assignment, slice assignment, update (positional, keyword, pairs), |=,
    +=.  Enumerated, not sampled.  What each call must do is decided by the model (correspondence) and by the
    validity of the observed state (Coq); nothing here assumes which of them are rejected."""
    cast, start = lookalike_class()
    if "WL" not in ctx.classes and not add_class(ctx, cast):
        return []
    cast = ctx.ast("WL")
    hs = []

    def one(op):
        h = run_history(None, cast, ctx, tables, 1, "reread", ops=[op], kwargs=start)
        if h is not None and h.steps:
            rep.count("directed:lookalike", 0, (op["name"], op["op"], op.get("method"), bool(op.get("aug")),
                                                 h.steps[0]["out"][0]))
            hs.append(h)

    for name, v in start:
        f = field_cast(cast["fields"], name)
        kind = kind_of(f)
        for y in X.lookalikes(v, 40):
            one({"op": "set", "name": name, "value": y})
        if kind in ("list", "deque"):
            for i, x in enumerate(v[1]):
                for y in X.lookalikes(x, 8):
                    one({"op": "call", "name": name, "kind": kind, "method": "__setitem__", "args": [("int", i), y]})
                    one({"op": "call", "name": name, "kind": kind, "method": "__setitem__", "args": [("int", i - len(v[1])), y]})
                    if kind == "list":
                        one({"op": "call", "name": name, "kind": kind, "method": "__setitem__",
                             "args": [["x:slice", i, i + 1, None], ("list", [y])]})
                        one({"op": "call", "name": name, "kind": kind, "method": "__setitem__",
                             "args": [["x:slice", i, i + 1, None], ["x:iter", [y]]]})
            for w in X.lookalikes(("list", list(v[1])), 8):
                if kind == "list":
                    one({"op": "call", "name": name, "kind": kind, "method": "__setitem__",
                         "args": [["x:slice", None, None, None], w]})
        if kind == "dict":
            for k, x in v[1]:
                alts = [(k, y) for y in X.lookalikes(x, 8)] + [(y, x) for y in X.lookalikes(k, 8) if G.is_hashable(y)]
                for k2, x2 in alts:
                    d = ("dict", [(k2, x2)])
                    one({"op": "call", "name": name, "kind": "dict", "method": "__setitem__", "args": [k2, x2]})
                    one({"op": "call", "name": name, "kind": "dict", "method": "update", "args": [d]})
                    one({"op": "call", "name": name, "kind": "dict", "method": "update", "args": [("list", [("tuple", [k2, x2])])]})
                    one({"op": "call", "name": name, "kind": "dict", "method": "__ior__", "args": [d]})
                    one({"op": "call", "name": name, "kind": "dict", "method": "__ior__", "args": [d], "aug": True})
                    if k2[0] == "str" and k2[1].isidentifier():
                        one({"op": "call", "name": name, "kind": "dict", "method": "update", "args": [], "kwargs": {k2[1]: x2}})
            for w in X.lookalikes(v, 8):
                one({"op": "call", "name": name, "kind": "dict", "method": "update", "args": [w]})
    return hs


def lattice_class():
    I = {"t": "num", "k": "Integer", "s": "Any"}
    N10 = {"t": "num", "k": "Number", "s": "Any", "max": ("int", 10)}
    I5 = {"t": "num", "k": "Integer", "s": "Any", "max": ("int", 5)}
    S2 = {"t": "str", "max": 2}
    Sx = {"t": "str"}
    nosz = [None, None]
    al = {"t": "allof", "fs": [I, N10]}
    fields = [
        ("i", I, ("int", 1)), ("p", {"t": "num", "k": "Integer", "s": "Positive", "mult": 2}, ("int", 2)),
        ("b", {"t": "bool"}, ("bool", True)), ("s", S2, ("str", "a")),
        ("al", al, ("int", 1)), ("al2", {"t": "allof", "fs": [N10, I]}, ("int", 1)),
        ("ao", {"t": "anyof", "fs": [I5, S2]}, ("int", 1)), ("oo", {"t": "oneof", "fs": [I, N10]}, ("flt", 5, -1)),
        ("nf", {"t": "not", "fs": [Sx]}, ("int", 1)),
        ("lal", {"t": "seqeach", "k": "list", "item": al, "sz": nosz, "uniq": False}, ("list", [("int", 1)])),
        ("dao", {"t": "seqeach", "k": "deque", "item": {"t": "anyof", "fs": [I5, S2]}, "sz": [1, 3], "uniq": True}, ("deque", [("int", 1)])),
        ("mal", {"t": "mapkv", "kf": Sx, "vf": al, "sz": nosz}, ("dict", [(("str", "k"), ("int", 1))])),
        ("lpo", {"t": "seqpos", "k": "list", "items": [al, S2], "sz": nosz, "uniq": False, "additional": False},
         ("list", [("int", 1), ("str", "a")])),
    ]
    cast = {"name": "WV", "fields": [{"name": n, "field": f} for n, f, _ in fields], "required": [], "additional": False}
    return cast, [(n, v) for n, _, v in fields]


LATTICE = [("int", 0), ("int", 1), ("int", 12), ("int", -1), ("int", 4), ("flt", 5, -1), ("flt", 1, 0), ("str", "x"), ("str", "abc"),
           ("none",), ("bool", True), ("dec", 1, 0), ("list", [("int", 12)]), ("dict", [(("str", "k"), ("int", 12))])]


def directed_lattice(ctx, tables, rep):
    """Small-scope enumeration: every value of a fixed lattice (numbers around the declared bounds, a float, a
    Decimal, strings, None, True, containers) assigned to every field of a class whose fields include the multi-field
    wrappers (AllOf / AnyOf / OneOf / NotField with options that accept-then-reject), alone and as items of typed
    Array / Deque / Map fields -- by attribute assignment and through append / insert / item assignment / update."""
    cast, start = lattice_class()
    if "WV" not in ctx.classes and not add_class(ctx, cast):
        return []
    cast = ctx.ast("WV")
    hs = []

    def one(op):
        h = run_history(None, cast, ctx, tables, 1, "reread", ops=[op], kwargs=start)
        if h is not None and h.steps:
            rep.count("directed:value-lattice", 0, (op["name"], op["op"], op.get("method"), h.steps[0]["out"][0]))
            hs.append(h)

    for name, v in start:
        f = field_cast(cast["fields"], name)
        kind = kind_of(f)
        for y in LATTICE:
            one({"op": "set", "name": name, "value": y})
            if kind in ("list", "deque"):
                one({"op": "set", "name": name, "value": (kind, list(v[1]) + [y])})
                one({"op": "call", "name": name, "kind": kind, "method": "append", "args": [y]})
                one({"op": "call", "name": name, "kind": kind, "method": "__setitem__", "args": [("int", 0), y]})
                one({"op": "call", "name": name, "kind": kind, "method": "insert", "args": [("int", 0), y]})
                one({"op": "call", "name": name, "kind": kind, "method": "extend", "args": [("list", [("int", 2), y])]})
            if kind == "dict" and G.is_hashable(y):
                one({"op": "set", "name": name, "value": ("dict", list(v[1]) + [(("str", "n"), y)])})
                one({"op": "call", "name": name, "kind": "dict", "method": "__setitem__", "args": [("str", "k"), y]})
                one({"op": "call", "name": name, "kind": "dict", "method": "update", "args": [("dict", [(("str", "n"), ("int", 2)), (("str", "o"), y)])]})
                one({"op": "call", "name": name, "kind": "dict", "method": "setdefault", "args": [("str", "n"), y]})
                one({"op": "call", "name": name, "kind": "dict", "method": "__setitem__", "args": [y, ("int", 2)]})
    return hs


NONFINITE = [("other", "float", "nan"), ("other", "float", "inf"), ("other", "float", "-inf")]


def nonfinite_class():
    D25, D05 = ("dec", 25, -1), ("dec", 5, -1)
    FD = {"t": "num", "k": "Float", "s": "Any", "max": D25}
    ND = {"t": "num", "k": "Number", "s": "Any", "min": D05, "max": ("dec", 9, 0)}
    FF = {"t": "num", "k": "Float", "s": "Any", "max": ("flt", 5, -1)}
    PD = {"t": "num", "k": "Float", "s": "Positive", "max": D25}
    nosz = [None, None]
    fields = [
        ("fd", FD, ("flt", 1, 0)), ("nd", ND, ("int", 1)), ("ff", FF, ("flt", 1, 0)), ("pd", PD, ("flt", 1, 0)),
        ("lfd", {"t": "seqeach", "k": "list", "item": FD, "sz": nosz, "uniq": False}, ("list", [("flt", 1, 0)])),
        ("qnd", {"t": "seqeach", "k": "deque", "item": ND, "sz": nosz, "uniq": False}, ("deque", [("int", 1)])),
        ("mnd", {"t": "mapkv", "kf": {"t": "str"}, "vf": ND, "sz": nosz}, ("dict", [(("str", "k"), ("int", 1))])),
    ]
    cast = {"name": "WNF", "fields": [{"name": n, "field": f} for n, f, _ in fields], "required": [], "additional": False}
    return cast, [(n, v) for n, _, v in fields]


def directed_nonfinite(ctx, tables, rep):
    """Small-scope enumeration: NaN and the two infinities handed to number fields whose bounds are Decimals (the
    comparison Decimal vs NaN is an arithmetic error of the decimal module, not an ordering), with float bounds for
    comparison -- by attribute assignment and as items / values of typed Array / Deque / Map fields.  Whatever the
    verdict, a rejection must be a TypeError / ValueError and leave the instance unchanged."""
    cast, start = nonfinite_class()
    if "WNF" not in ctx.classes and not add_class(ctx, cast):
        return []
    cast = ctx.ast("WNF")
    hs = []

    def one(op):
        h = run_history(None, cast, ctx, tables, 1, "reread", ops=[op], kwargs=start)
        if h is not None and h.steps:
            rep.count("directed:nonfinite", 0, (op["name"], op["op"], op.get("method"), op_value_tag(op), h.steps[0]["out"][0]))
            hs.append(h)

    for name, v in start:
        kind = kind_of(field_cast(cast["fields"], name))
        for y in NONFINITE:
            one({"op": "set", "name": name, "value": y})
            if kind in ("list", "deque"):
                one({"op": "set", "name": name, "value": (kind, list(v[1]) + [y])})
                one({"op": "call", "name": name, "kind": kind, "method": "append", "args": [y]})
                one({"op": "call", "name": name, "kind": kind, "method": "__setitem__", "args": [("int", 0), y]})
                one({"op": "call", "name": name, "kind": kind, "method": "insert", "args": [("int", 0), y]})
                one({"op": "call", "name": name, "kind": kind, "method": "extend", "args": [("list", [("int", 2), y])]})
            if kind == "dict":
                one({"op": "set", "name": name, "value": ("dict", list(v[1]) + [(("str", "n"), y)])})
                one({"op": "call", "name": name, "kind": "dict", "method": "__setitem__", "args": [("str", "k"), y]})
                one({"op": "call", "name": name, "kind": "dict", "method": "update", "args": [("dict", [(("str", "o"), y)])]})
    return hs


def op_value_tag(op):
    vals = list(op.get("args", [])) + ([op["value"]] if "value" in op else [])
    for v in vals:
        for t in NONFINITE:
            if t == v or (isinstance(v, (tuple, list)) and len(v) > 1 and isinstance(v[1], list) and
                          any(t == x or (isinstance(x, (tuple, list)) and t in list(x)) for x in v[1])):
                return t[2]
    return "?"



MI_LATTICE = [("int", 1), ("int", 12), ("int", -1), ("flt", 5, -1), ("str", "x"), ("none",), ("bool", True), ("list", [("int", 12)])]


def directed_multi_instance(ctx, tables, rep):
    """Histories over SEVERAL instances of one class: one event on a sibling instance (deepcopy, pickle, clone,
    trusted construction / assignment / deserialization, rejected assignments, rejected construction, comparison and
    printing), then -- on another instance -- the whole value lattice assigned to every field (scalars, AllOf / AnyOf /
    OneOf / NotField, typed containers of them) and pushed through the container mutators, in ONE history per event.
    One class per event (a copy of the lattice class), so that whatever the event leaves behind in the class's Field
    objects is attributed to it and does not reach the other streams."""
    base_cast, start = lattice_class()
    hs = []
    for ev in SIBLING_ORDER:
        cname = "WS_" + "".join(ch if ch.isalnum() else "_" for ch in ev)
        if cname not in ctx.classes and not add_class(ctx, dict(base_cast, name=cname, fields=[dict(fd) for fd in base_cast["fields"]])):
            continue
        cast = ctx.ast(cname)
        ops = []
        for name, v in start:
            f = field_cast(cast["fields"], name)
            kind = kind_of(f)
            for y in MI_LATTICE:
                ops.append({"op": "set", "name": name, "value": y})
                if kind in ("list", "deque"):
                    ops.append({"op": "call", "name": name, "kind": kind, "method": "append", "args": [y]})
                    ops.append({"op": "call", "name": name, "kind": kind, "method": "__setitem__", "args": [("int", 0), y]})
                if kind == "dict" and G.is_hashable(y):
                    ops.append({"op": "call", "name": name, "kind": "dict", "method": "__setitem__", "args": [("str", "k"), y]})
                    ops.append({"op": "call", "name": name, "kind": "dict", "method": "update", "args": [("dict", [(("str", "n"), y)])]})
        for origin in ("ctor", "deepcopy"):
            h = run_history(None, cast, ctx, tables, len(ops), "reread", ops=ops, kwargs=start, origin=origin, siblings=[ev])
            if h is not None and h.steps:
                rep.count("directed:multi-instance", 0, (ev, origin, len(h.steps)))
                hs.append(h)
    return hs


def undefined_class(hook):
    I = {"t": "num", "k": "Integer", "s": "Any"}
    nosz = [None, None]
    fields = [("i", I), ("s", {"t": "str", "max": 3}), ("b", {"t": "bool"}),
              ("a", {"t": "seqeach", "k": "list", "item": I, "sz": [1, 3], "uniq": False}),
              ("d", {"t": "seqeach", "k": "deque", "item": {"t": "str"}, "sz": nosz, "uniq": True}),
              ("m", {"t": "mapkv", "kf": {"t": "str"}, "vf": I, "sz": nosz}),
              ("al", {"t": "allof", "fs": [I, {"t": "num", "k": "Number", "s": "Any", "max": ("int", 10)}]}),
              ("ao", {"t": "anyof", "fs": [I, {"t": "str", "max": 2}]}),
              ("e", {"t": "enumcls", "cls": "Color", "members": ["RED", "GREEN", "BLUE"]}),
              ("t", {"t": "tuple", "items": [I, {"t": "str"}], "uniq": False}),
              ("p", I), ("q", I), ("r", I)]
    cast = {"name": "WU" + ("H" if hook else ""), "fields": [{"name": n, "field": f} for n, f in fields], "required": ["r"],
            "additional": False, "undefined": True}
    if hook:
        cast["hook"] = ["le", "p", "q"]
    return cast


def directed_undefined(ctx, tables, rep):
    """`_enable_undefined_value = True`: an explicit None of an optional field is a state of its own (getattr gives
    None, not Undefined; str / == / serialization show it), kept in `_none_fields`.  Every optional field holding an
    explicit None (from the constructor, or assigned) receives every value of the lattice: a rejected value must leave
    the marker as it was, an accepted one removes it; then None again.  Also: a hook failure on a field that held an
    explicit None, and the same on instances from deepcopy / pickle."""
    hs = []
    for hook in (False, True):
        cast = undefined_class(hook)
        if cast["name"] not in ctx.classes and not add_class(ctx, cast):
            continue
        cast = ctx.ast(cast["name"])
        names = [fd["name"] for fd in cast["fields"] if fd["name"] != "r"]
        start_none = [("r", ("int", 1))] + [(n, ("none",)) for n in names]
        start_unset = [("r", ("int", 1))]
        if hook:
            start_none = [("r", ("int", 1)), ("q", ("int", 5))] + [(n, ("none",)) for n in names if n != "q"]
            start_unset = [("r", ("int", 1)), ("q", ("int", 5))]
        ops = []
        for n in names:
            if hook and n == "q":
                continue
            for y in MI_LATTICE + [("str", "abcd"), ("list", [("str", "x")]), ("dict", [(("int", 1), ("int", 2))]), ("int", 9)]:
                ops.append({"op": "set", "name": n, "value": y})
                ops.append({"op": "set", "name": n, "value": ("none",)})
        for origin in ("ctor", "deepcopy", "pickle"):
            h = run_history(None, cast, ctx, tables, len(ops), "reread", ops=ops, kwargs=start_none, origin=origin, siblings=[])
            if h is not None and h.steps:
                rep.count("directed:undefined-none", 0, (cast["name"], origin, "ctor-none"))
                hs.append(h)
        # the markers set by assignment instead of construction
        ops2 = [{"op": "set", "name": n, "value": ("none",)} for n in names if not (hook and n == "q")] + ops
        h = run_history(None, cast, ctx, tables, len(ops2), "reread", ops=ops2, kwargs=start_unset, origin="ctor", siblings=[])
        if h is not None and h.steps:
            rep.count("directed:undefined-none", 0, (cast["name"], "assigned-none"))
            hs.append(h)
    return hs


def nonatomic_casts():
    I = {"t": "num", "k": "Integer", "s": "Any"}
    Sx = {"t": "str"}
    nosz = [None, None]
    mixed = [("int", 1), ("int", 2), ("int", 0), ("str", "a"), ("int", 7), ("int", 5)]
    ints = [("int", 4), ("int", 3), ("int", 2), ("int", 1), ("int", 9), ("int", 0)]
    out = []
    for kind in ("list", "deque"):
        out.append((kind, {"t": "seqany", "k": kind, "sz": nosz, "uniq": False}, (kind, mixed)))
        out.append((kind, {"t": "seqeach", "k": kind, "item": {"t": "anyof", "fs": [I, Sx]}, "sz": nosz, "uniq": False}, (kind, mixed)))
        out.append((kind, {"t": "seqeach", "k": kind, "item": I, "sz": nosz, "uniq": False}, (kind, ints)))
        out.append((kind, {"t": "seqeach", "k": kind, "item": I, "sz": [1, 8], "uniq": True}, (kind, ints)))
        out.append((kind, {"t": "seqpos", "k": kind, "items": [I], "sz": nosz, "uniq": False, "additional": None}, (kind, mixed)))
    pairs = [(("str", "k"), ("int", 1)), (("str", "j"), ("int", 2))]
    out.append(("dict", {"t": "mapkv", "kf": Sx, "vf": I, "sz": nosz}, ("dict", pairs)))
    out.append(("dict", {"t": "mapany", "sz": nosz}, ("dict", pairs)))
    out.append(("dict", {"t": "mapkv", "kf": Sx, "vf": I, "sz": [1, 5]}, ("dict", pairs)))
    return out


def directed_nonatomic(ctx, tables, rep):
    """Calls on which the BASE type's method itself is not failure-atomic in CPython: list.sort when a comparison
    raises after elements were moved (content the declaration admits but Python cannot order, or a key function
    yielding such keys), extend / += / extendleft / update / |= fed by an iterator that raises after yielding valid
    items.  A wrapper that runs them on its live value (instead of a copy) leaves the instance changed."""
    hs = []
    for ci, (kind, f, start) in enumerate(nonatomic_casts()):
        cname = "WA_%s_%d" % (kind, ci)
        if cname not in ctx.classes and not add_class(
                ctx, {"name": cname, "fields": [{"name": "a", "field": f}], "required": ["a"], "additional": False}):
            continue
        cast = ctx.ast(cname)
        ops = []
        n = len(start[1])
        if kind in ("list", "deque"):
            good = [("int", 11), ("int", 12)]
            for m in ("extend", "__iadd__") + (("extendleft",) if kind == "deque" else ()):
                ops.append({"op": "call", "name": "a", "kind": kind, "method": m, "args": [["x:failiter", good]]})
                ops.append({"op": "call", "name": "a", "kind": kind, "method": m, "args": [["x:iter", good]]})
            ops.append({"op": "call", "name": "a", "kind": kind, "method": "__iadd__", "args": [["x:failiter", good]], "aug": True})
        if kind == "list":
            ops.append({"op": "call", "name": "a", "kind": kind, "method": "sort", "args": []})
            ops.append({"op": "call", "name": "a", "kind": kind, "method": "sort", "args": [], "kwargs": {"reverse": ("bool", True)}})
            for keys in (_failing_keys(n), [("int", 1), ("int", 2), ("int", 0), ("str", "a"), ("int", 7), ("int", 5)]):
                ops.append({"op": "call", "name": "a", "kind": kind, "method": "sort", "args": [], "kwargs": {"key": ["x:keyseq", keys]}})
                ops.append({"op": "call", "name": "a", "kind": kind, "method": "sort", "args": [],
                            "kwargs": {"key": ["x:keyseq", keys], "reverse": ("bool", True)}})
            ops.append({"op": "call", "name": "a", "kind": kind, "method": "__setitem__",
                        "args": [["x:slice", 1, 3, None], ["x:failiter", good]]})
        if kind == "dict":
            good = [("tuple", [("str", "n"), ("int", 3)]), ("tuple", [("str", "o"), ("int", 4)])]
            for m in ("update", "__ior__"):
                ops.append({"op": "call", "name": "a", "kind": kind, "method": m, "args": [["x:failiter", good]]})
                ops.append({"op": "call", "name": "a", "kind": kind, "method": m, "args": [["x:iter", good]]})
            ops.append({"op": "call", "name": "a", "kind": kind, "method": "update",
                        "args": [["x:failiter", good]], "kwargs": {"p": ("int", 5)}})
            ops.append({"op": "call", "name": "a", "kind": kind, "method": "__ior__", "args": [["x:failiter", good]], "aug": True})
        for op in ops:
            h = run_history(None, cast, ctx, tables, 1, "reread", ops=[op], kwargs=[("a", start)])
            if h is not None and h.steps:
                rep.count("directed:nonatomic-base", 0, (ci, op["method"], X.call_args_src(op)[:20], h.steps[0]["out"][0]))
                hs.append(h)
        # the same after a failed and a successful operation (history), re-using the handle obtained first
        seq = [o for o in ops if o["method"] in ("sort", "extend", "update")][:3]
        if seq:
            h = run_history(None, cast, ctx, tables, len(seq), "reuse", ops=seq, kwargs=[("a", start)])
            if h is not None and h.steps:
                rep.count("directed:nonatomic-base", 0, (ci, "reuse-history"))
                hs.append(h)
    return hs


def directed_nested(ctx, tables, rep):
    """F5: typed containers nested in containers."""
    I = {"t": "num", "k": "Integer", "s": "Any"}
    Sx = {"t": "str"}
    inner = {"list": ({"t": "seqeach", "k": "list", "item": I, "sz": [1, 2], "uniq": False}, ("list", [("int", 1)])),
             "deque": ({"t": "seqeach", "k": "deque", "item": I, "sz": [1, 2], "uniq": False}, ("deque", [("int", 1)])),
             "dict": ({"t": "mapkv", "kf": Sx, "vf": I, "sz": [1, 2]}, ("dict", [(("str", "k"), ("int", 1))]))}
    hs = []
    for okind in ("list", "deque", "dict"):
        for ikind, (g, gv) in inner.items():
            if okind == "dict":
                f = {"t": "mapkv", "kf": Sx, "vf": g, "sz": [None, None]}
                start, sel = ("dict", [(("str", "o"), gv)]), ("str", "o")
            else:
                f = {"t": "seqeach", "k": okind, "item": g, "sz": [None, None], "uniq": False}
                start, sel = (okind, [gv]), ("int", 0)
            cname = "WN_%s_%s" % (okind, ikind)
            if not add_class(ctx, {"name": cname, "fields": [{"name": "a", "field": f}], "required": ["a"], "additional": False}):
                continue
            cls = ctx.classes[cname]
            for method, _ in tables[ikind]:
                for args in DIRECTED_ARGS[ikind]:
                    op = dict(directed_op(ikind, method, args), op="nested", okind=okind, ikind=ikind, sel=sel)
                    op.pop("kind")
                    h = run_history(None, ctx.ast(cname), ctx, tables, 1, "reread", ops=[op], kwargs=[("a", start)])
                    if h is None or not h.steps:
                        continue
                    if h.steps[0]["post"] is not None and any(has_opaque(v) for _, v in h.steps[0]["post"]):
                        continue
                    rep.count("directed:nested", 1, (okind, ikind, method))
                    st = h.steps[0]
                    if st["out"][0] == "ok" and st["post"] is not None and not reconstructible_state(cls, st["post"], ctx):
                        h.py_findings.append((0, finding_key(op, "invalid-after-success", tables, f["t"]),
                                              "%s returned normally and left x.a = %s, which %s rejects" % (
                                                  op_src(op), G.py_src(dict(st["post"])["a"]), G.field_src(f))))
                    if h.py_findings:
                        hs.append(h)
                        break
    return hs


# ------------------------------------------------------------------ replay objects

def replay_obj(h, upto, ctx):
    ops = [s["op"] for s in h.steps[:upto + 1]]
    lines = [G.IMPORTS + (X.PRELUDE if X.needs_prelude(ops) else ""), ctx_source_for(ctx, h.cast["name"]),
             "x = %s(%s)" % (h.cast["name"], ", ".join("%s=%s" % (k, G.py_src(v)) for k, v in h.kwargs))]
    if h.origin != "ctor":
        lines.append(ORIGIN_SRC[h.origin])
    if h.siblings:
        lines.append("# events on other instances of the same class (Field objects are shared between instances)")
        lines.append("C = %s\nKW = dict(%s)" % (h.cast["name"], ", ".join("%s=%s" % (k, G.py_src(v)) for k, v in h.kwargs)))
        for ev in h.siblings:
            lines.append("try:\n" + "".join("    " + l + "\n" for l in SIBLING_EVENTS[ev].splitlines()) +
                         "except Exception as e:\n    print('sibling event %s:', type(e).__name__, e)" % ev)
    if h.mode == "reuse":
        lines.append("# handles obtained once and re-used: each x.<f> below refers to the object first read")
    for op in ops:
        lines.append("try:\n    %s\nexcept Exception as e:\n    print(type(e).__name__, e)" % op_src(op))
    lines.append("print(x)")
    return {"class": h.cast, "extra_classes": needed_classes(ctx, h.cast), "kwargs": h.kwargs, "ops": ops, "mode": h.mode,
            "origin": h.origin, "siblings": h.siblings,
            "python": "\n".join(lines) + "\n"}


def field_alone_rejects(h, k, ctx):
    """A step on which the implementation raised TypeError/ValueError and left the instance unchanged while the model
    predicted success: does the FIELD ALONE (a fresh one-field class on the real library) reject the value that was
    handed to it?  Then the mutation path did exactly what the field does, no clause of C03 fails (a rejection that
    changes nothing never does), and the disagreement is between the field model and the field -- the subject of
    C01/C02 (there: documented rules vs implementation, e.g. ImmutableSet re-checking minItems after conversion),
    counted in the evidence, not a failure of C03's correspondence."""
    s = h.steps[k]
    if s["out"][0] != "raise" or s["out"][1] not in ("TypeError", "ValueError") or s["post"] is not None:
        return False
    op = s["op"]
    if op["op"] == "set":
        value = op["value"]
    elif op["op"] == "call" and (s["extra"].get("base") or ("", ""))[0] == "ok":
        value = s["extra"]["base"][1]
    else:
        return False
    fc = field_cast(ctx.all_fields(h.cast["name"]), op["name"])
    if fc is None:
        return False
    try:
        T = S.single_field_class(fc, ctx)
        v = G.unreify(value, ctx.classes)
    except Exception:  # noqa
        return False
    try:
        T(f=v)
    except (TypeError, ValueError):
        return True
    except Exception:  # noqa
        return False
    return False


def shrunk_replay(h, j, ctx, tables, done):
    """Replay object for the finding at step j of h.  For a long enumerated history the failing operation is tried
    alone (same start, same origin, same sibling events); if it does the same thing there -- same outcome, same
    value of the field afterwards -- the one-operation history is the replay.  One attempt per finding key."""
    if len(h.steps) > 6 and j < len(h.steps):
        s = h.steps[j]
        tag = (h.cast["name"], json.dumps(canon(s["op"]), sort_keys=True, default=str))
        if tag not in done and len(done) < 40:
            done.add(tag)
            try:
                h2 = run_history(None, h.cast, ctx, tables, 1, "reread", ops=[s["op"]], kwargs=h.kwargs, origin=h.origin,
                                 siblings=h.siblings)
                pykeys = [k for jj, k, _ in h.py_findings if jj == j and not k.startswith("C03/stored-normal-form")
                          and "invalid-after-success" not in k and "hook-not-run" not in k]
                reproduced = not pykeys or any(k in pykeys for _, k, _ in (h2.py_findings if h2 else []))
                if h2 is not None and len(h2.steps) == 1 and h2.steps[0]["out"] == s["out"] and reproduced:
                    name = s["op"]["name"]
                    if canon(dict(post_state_at(h2, 0)).get(name)) == canon(dict(post_state_at(h, j)).get(name)):
                        return replay_obj(h2, 0, ctx)
            except Exception:  # noqa
                pass
    return replay_obj(h, j, ctx)


def needed_classes(ctx, cast):
    base = {c["name"] for c in S.Context.BASE}
    return [c for c in ctx.asts if c["name"] not in base and c["name"] == cast.get("base")]


def ctx_source_for(ctx, name):
    base = "".join(S.class_src(c) + "\n" for c in S.Context.BASE)
    base += "".join(S.class_src(c) + "\n" for c in needed_classes(ctx, ctx.ast(name)))
    return base + S.class_src(ctx.ast(name))


def replay(obj):
    if obj.get("stream") == "extfields":
        rep = core.Report("C03", "quick")
        rep.known = []
        directed_extfields(rep)
        for v in rep.violations:
            print("FAILS    :", v["key"], "-", v["what"])
        if not rep.violations:
            print("no clause of C03 fails on the DateString/TimeString inputs now")
        return 1 if rep.violations else 0
    if obj.get("stream") == "container-hook":
        rep = core.Report("C03", "quick")
        rep.known = []
        directed_container_hook(rep, WB.strict_tables())
        hits = [v for v in rep.violations if v["key"] == obj.get("finding_key")]
        for v in hits:
            print("FAILS    :", v["key"], "-", v["what"])
        if not hits:
            print("the clause no longer fails")
        print("required : every mutation raises leaving the instance unchanged, or succeeds leaving it valid -- also after a "
              "mutation the class's __validate__ rejected")
        return 1 if hits else 0
    if obj.get("stream") == "fieldclasses":
        rep = core.Report("C03", "quick")
        rep.known = []
        directed_fieldclasses(rep)
        hits = [v for v in rep.violations if v["key"] == obj.get("finding_key")]
        for v in hits:
            print("FAILS    :", v["key"], "-", v["what"])
        if not hits:
            print("the clause no longer fails for field class %s on the probed values" % obj.get("field_class"))
        print("required : an assignment the field rejects raises TypeError/ValueError and leaves the instance unchanged")
        return 1 if hits else 0
    if "class" not in obj:
        print(json.dumps({k: obj[k] for k in obj if k != "python"}, indent=1, default=str)[:3000])
        print("this replay names a broken obligation, not a concrete input")
        return 2
    tables = WB.strict_tables()
    ctx = S.Context()
    ctx.tables = tables
    for c in obj.get("extra_classes", []):
        add_class(ctx, c)
    if not add_class(ctx, obj["class"]):
        print("the class definition is rejected now")
        return 2
    h = run_history(None, obj["class"], ctx, tables, len(obj["ops"]), obj.get("mode", "reread"),
                    ops=obj["ops"], kwargs=[tuple(kv) for kv in obj["kwargs"]], origin=obj.get("origin", "ctor"),
                    siblings=obj.get("siblings") or [])
    if h is None:
        print("the start instance cannot be built now")
        return 2
    print(S.class_src(obj["class"]))
    print("start    :", ", ".join("%s=%s" % (k, G.py_src(v)) for k, v in h.init))
    # validity of a state is judged by constructing it with a FRESH copy of the class (new Field objects): the
    # history may have left the replayed class's own Field objects in a state in which they validate nothing
    jctx = S.Context()
    for c in obj.get("extra_classes", []):
        add_class(jctx, c)
    add_class(jctx, obj["class"])
    cls = jctx.classes[obj["class"]["name"]]
    ctx = jctx
    state = h.init
    bad = 0
    for i, s in enumerate(h.steps):
        post = s["post"] if s["post"] is not None else state
        verdict = "ok"
        if s["out"][0] == "raise" and s["post"] is not None:
            verdict = "VIOLATES: raised but the instance changed"
        elif s["out"][0] == "ok" and not reconstructible_state(cls, post, ctx):
            verdict = "VIOLATES: returned normally, instance no longer valid per its declaration"
        for (j, key, what) in h.py_findings:
            if j == i and verdict == "ok":
                verdict = "VIOLATES: " + what
        b = s["extra"].get("base")
        if (verdict == "ok" and str(obj.get("finding_key", "")).endswith("lost-update") and s["out"][0] == "ok"
                and s["extra"].get("live") and b and b[0] == "ok"
                and canon(dict(post).get(s["op"]["name"])) != canon(b[1])):
            verdict = "VIOLATES: returned normally but the mutation was lost (the base type would give %s)" % G.py_src(b[1])
        if verdict != "ok":
            bad += 1
        print("step %d   : %-40s -> %-22s state: %s   [%s]" % (
            i, op_src(s["op"]), "returned" if s["out"][0] == "ok" else "raised " + s["out"][1],
            ", ".join("%s=%s" % (k, G.py_src(v)) for k, v in post) +
            ("; _none_fields=%s" % s["extra"]["none_fields"] if s["extra"].get("none_fields") or
             obj["class"].get("undefined") else ""), verdict))
        state = post
    if obj.get("model_vs_impl"):
        print("model vs implementation:", obj["model_vs_impl"])
    print("required : every step either returns leaving a valid instance or raises TypeError/ValueError "
          "(IndexError/KeyError for a missing index/key) leaving the instance unchanged")
    return 1 if bad else 0


# ------------------------------------------------------------------ the check

def run(rep, tier):
    rnd = random.Random(core.seed() * 1000003 + 3)
    proofs_ok, model_ok = core.standard_proof_obligations(rep, "C03", ["theories/Check/C03chk.vo"])
    # Gen/Tables.v (which mutators exist / are overridden) refined by the classification of the translated method
    # bodies (Gen/WrapBodies.v); Coq computes the same refinement (Check/C03chk.v table_of) and must agree
    tables = WB.strict_tables()
    nclasses, per_class, nops = (140, 6, 8) if tier == "quick" else (220, 10, 40)
    rep.assumptions += [
        "re.match is an oracle (Section variable), instantiated per case by a table filled from the real re module",
        "the base type's method applied to a plain copy of the wrapper's content (CPython itself) is the oracle for "
        "what a mutator computes; the model decides what the wrapper does with it according to the generated shape",
        "validity of a state = struct_ok with the documented rules judged on their stated domain (C02's domain)",
        "nested typed containers (F5) and DateString/TimeString are checked on the implementation only (not in the model)",
    ]
    ctx = S.Context()
    ctx.tables = tables

    # ---- (d) the generated tables as they are now
    unsafe_now = []
    if model_ok:
        try:
            idx = table_status()
            for kind in ("list", "deque", "dict"):
                for i in idx[kind]:
                    m, s = tables[kind][i]
                    unsafe_now.append((kind, m, s.strip("()").split()[0]))
            py_unsafe = sorted((k, m, s.strip("()").split()[0]) for k in ("list", "deque", "dict")
                               for m, s in tables[k] if not s.startswith("(CopyMutateReassign"))
            rep.obligation("tables:coq-and-generator-agree", sorted(unsafe_now) == py_unsafe,
                           "%d unsafe entries" % len(unsafe_now))
            if sorted(unsafe_now) != py_unsafe:
                rep.broken("tables:coq-and-generator-agree", "Gen/Tables.v as compiled differs from the generator's tables")
        except RuntimeError as ex:
            rep.broken("tables:status", str(ex))
    rep.cov["streams"]["tables"] = {"evaluations": 0, "entries": {k: len(tables[k]) for k in ("list", "deque", "dict")},
                                    "unsafe_now": ["%s.%s/%s" % u for u in unsafe_now]}

    all_histories = []          # (stream, History)
    done_shrinks = set()
    import time as _time
    timing = rep.cov.setdefault("timing_s", {})
    _t = [_time.time()]

    def lap(name):
        now = _time.time()
        timing[name] = round(timing.get(name, 0) + now - _t[0], 2)
        _t[0] = now
    lap("proofs+tables")

    # ---- directed streams that do not depend on the tables: equal-but-differently-typed values through every entry
    # point; calls on which the base type's own method is not failure-atomic
    for h in directed_lookalike(ctx, tables, rep):
        all_histories.append(("directed:lookalike", h))
    lap("directed:lookalike")
    for h in directed_nonatomic(ctx, tables, rep):
        all_histories.append(("directed:nonatomic-base", h))
    lap("directed:nonatomic-base")
    for h in directed_lattice(ctx, tables, rep):
        all_histories.append(("directed:value-lattice", h))
    lap("directed:value-lattice")
    for h in directed_nonfinite(ctx, tables, rep):
        all_histories.append(("directed:nonfinite", h))
    lap("directed:nonfinite")

    for h in directed_multi_instance(ctx, tables, rep):
        all_histories.append(("directed:multi-instance", h))
    lap("directed:multi-instance")
    for h in directed_undefined(ctx, tables, rep):
        all_histories.append(("directed:undefined-none", h))
    lap("directed:undefined-none")
    by_entry = {}
    for _, h in all_histories:
        if h.py_findings and h.steps and h.steps[0]["op"]["op"] == "call":
            by_entry.setdefault((h.steps[0]["op"]["kind"], h.steps[0]["op"]["method"]), h)

    # ---- directed: every table entry (unsafe ones must yield a concrete failing input)
    for kind in ("list", "deque", "dict"):
        for m, s in tables[kind]:
            shape = s.strip("()").split()[0]
            rep.count("directed:table-entry", 1, (kind, m))
            h = directed_entry(kind, m, ctx, tables)
            safe = shape == "CopyMutateReassign"
            if h is not None:
                all_histories.append(("directed:table-entry", h))
            elif not safe and (kind, m) not in by_entry:
                rep.broken("table-entry:%s.%s" % (kind, m),
                           "the generated table classifies %s.%s as %s (not validated/atomic by construction) but no "
                           "input of the witness families makes the real wrapper misbehave: the override is in a form the "
                           "translator does not recognise" % (kind, m, shape), {"kind": kind, "method": m, "shape": shape})
    lap("directed:table-entry")
    for name, h in directed_hooks(ctx, tables):
        rep.count("directed:hooks", 1, name)
        if h is not None:
            all_histories.append(("directed:hooks", h))
    directed_extfields(rep)
    directed_fieldclasses(rep)
    directed_container_hook(rep, tables)
    for h in directed_nested(ctx, tables, rep):
        all_histories.append(("directed:nested", h))
    lap("directed:hooks+ext+nested")

    # ---- random histories
    made = 0
    for ci in range(nclasses):
        cast = gen_cast(rnd, "M%d" % ci, ctx)
        if not add_class(ctx, cast):
            rep.stat("history", "class:rejected")
            continue
        for _ in range(per_class):
            mode = "reuse" if rnd.random() < 0.35 else "reread"
            try:
                h = run_history(rnd, cast, ctx, tables, rnd.randint(2, nops), mode, safe_only=rnd.random() < 0.4)
            except Exception as ex:  # noqa  generator limitation
                rep.stat("history", "generator-error:" + type(ex).__name__)
                continue
            if h is None or not h.steps:
                rep.stat("history", "no-valid-instance")
                continue
            made += 1
            all_histories.append(("history", h))

    lap("random-histories")
    for stream, h in all_histories:
        for s in h.steps:
            op = s["op"]
            what = op["op"] if op["op"] in ("set", "del") else "%s:%s.%s" % (op["op"], op.get("kind", op.get("ikind")), op["method"])
            if op["op"] in ("call", "nested"):
                forms = sorted({a[0] for a in list(op.get("args", [])) + list((op.get("kwargs") or {}).values()) if X.is_special(a)})
                what += "".join("+" + t[2:] for t in forms) + ("+kw" if op.get("kwargs") else "") + ("+aug" if op.get("aug") else "")
            outk = s["out"][0] if s["out"][0] == "ok" else s["out"][1]
            rep.count(stream, 1, (what, outk, s["post"] is not None))
            if stream == "history":
                rep.stat(stream, "op:" + what)
                rep.stat(stream, "outcome:" + outk)
                rep.stat(stream, "mode:" + h.mode)
                rep.stat(stream, "origin:" + h.origin)
                for ev in h.siblings:
                    rep.stat(stream, "sibling:" + ev)
    hs = [h for _, h in all_histories]
    if hs:
        h0 = [h for s, h in all_histories if s == "history"][:2]
        for h in h0:
            rep.sample({"class": S.class_src(h.cast), "start": ", ".join("%s=%s" % (k, G.py_src(v)) for k, v in h.kwargs),
                        "mode": h.mode, "ops": [op_src(s["op"]) + " -> " + ("ok" if s["out"][0] == "ok" else s["out"][1]) for s in h.steps]})

    # ---- Coq: correspondence + validity of the observed states + theorem hypotheses
    r = None
    if model_ok and hs:
        try:
            r = evaluate(hs, ctx, per=40 if tier == "quick" else 12)
        except RuntimeError as ex:
            rep.broken("correspondence:mstep/coq-eval", str(ex))
    nsteps = sum(len(h.steps) for h in hs)
    lap("coq-eval")
    if r is not None:
        st = rep.cov["streams"].setdefault("history", {"evaluations": 0})
        st["histories"] = made
        st["start_state_outside_domain_or_invalid"] = len(r["start_invalid"])
        st["theorem_hypotheses_hold"] = len(r["hyps"])
        start_bad = set(r["start_invalid"])
        # spec failures: concrete violations
        for hi, h in enumerate(hs):
            if hi in start_bad:
                continue
            first_coq = r["spec_bad"].get(hi)
            if first_coq is not None:
                s = h.steps[first_coq]
                # Python-side atomicity findings of this step are more specific; otherwise report validity
                if not any(j == first_coq for j, _, _ in h.py_findings):
                    op = s["op"]
                    fc = field_cast(ctx.all_fields(h.cast["name"]), op["name"])
                    ctag = (fc or {}).get("t", "non-field")
                    if s["out"][0] == "ok" and r["nf_bad"].get(hi) == first_coq:
                        # validation itself (Field.__set__ chain) stored a value the declaration does not admit
                        post = dict(post_state_at(h, first_coq))
                        b = s["extra"].get("base")
                        supplied = op["value"] if op["op"] == "set" else (b[1] if b and b[0] == "ok" else None)
                        key = stored_nf_key(ctag, fc, supplied, post.get(op["name"]), ctx)
                        what = ("%s passed validation and stored %s, which %s does not admit (the constructor does the "
                                "same with this value)" % (op_src(op), G.py_src(post[op["name"]]) if op["name"] in post else "?",
                                                            G.field_src(fc)))
                    elif s["out"][0] == "ok":
                        post_now = dict(post_state_at(h, first_coq))
                        if op["op"] == "del" and cast_has_hook(ctx, h.cast):
                            key = "C03/delitem/hook-not-run"
                        elif h.origin == "pickle" and not hook_ok_py(ctx.hook_of(h.cast["name"]), post_now):
                            # the instance came out of pickle.loads: its __validate__ is never run again
                            key = "C03/unpickled-instance/hook-not-run"
                        else:
                            key = finding_key(op, "invalid-after-success", tables, ctag)
                        what = "%s returned normally and left an instance that is not valid per its declaration" % op_src(op)
                    else:
                        key = finding_key(op, "changed-after-raise", tables, ctag)
                        what = "%s raised %s but the reified instance changed" % (op_src(op), s["out"][1])
                    h.py_findings.append((first_coq, key, what))
            for j, key, what in h.py_findings:
                if first_coq is not None and j > first_coq:
                    continue      # the instance was already invalid: later steps are not judged
                rep.finding(key, what, shrunk_replay(h, j, ctx, tables, done_shrinks))
        nsp = sum(1 for hi in r["spec_bad"] if hi not in start_bad)
        rep.obligation("spec-on-observed:validity-and-atomicity", True,
                       "%d histories, %d steps; %d histories with a failing step (reported above as findings)" % (len(hs), nsteps, nsp))
        mism = {hi: k for hi, k in r["mismatch"].items() if hi not in start_bad}
        unexplained = {hi: k for hi, k in mism.items() if not any(j == k for j, _, _ in hs[hi].py_findings)}
        field_level = {hi: k for hi, k in unexplained.items() if field_alone_rejects(hs[hi], k, ctx)}
        unexplained = {hi: k for hi, k in unexplained.items() if hi not in field_level}
        if field_level:
            hi0 = sorted(field_level)[0]
            rep.stat("history", "mismatch:field-alone-rejects-what-the-field-model-admits", len(field_level))
            rep.cov["streams"].setdefault("history", {"evaluations": 0})["field_level_disagreement_example"] = \
                op_src(hs[hi0].steps[field_level[hi0]]["op"])
        rep.obligation("correspondence:mstep", not unexplained,
                       "%d steps in %d histories; %d histories where model and implementation differ on a step: %d on a step that "
                       "is itself reported as a finding (a clause of C03 fails there: concrete input above), %d where the field "
                       "alone rejects a value the field model admits (raise, nothing changed: C02's subject), %d unexplained" % (
                           nsteps, len(hs), len(mism), len(mism) - len(unexplained) - len(field_level), len(field_level),
                           len(unexplained)))
        rep.obligation("theorem-instance:C03_history-on-observed", not r["contradicted"],
                       "%d histories satisfy the hypotheses; %d contradict the conclusion" % (len(r["hyps"]), len(r["contradicted"])))
        # a disagreement on a step where a clause of C03 fails is reported as that finding (concrete input);
        # what remains is a disagreement without a failing clause
        if unexplained:
            hi = sorted(unexplained)[0]
            h, k = hs[hi], unexplained[hi]
            o = replay_obj(h, k, ctx)
            o["model_vs_impl"] = ("the model (Struct/Instance.v mstep, shapes from Gen/Tables.v refined by Gen/WrapBodies.v) "
                                  "predicts a different state/outcome for step %d: %s; observed %s, post-state %s" % (
                                      k, op_src(h.steps[k]["op"]), h.steps[k]["out"],
                                      "unchanged" if h.steps[k]["post"] is None else "changed"))
            rep.broken("correspondence:mstep",
                       "model and typedpy differ on %d histories (first: %s); no clause of C03 fails on that step" % (
                           len(unexplained), op_src(h.steps[k]["op"])), o)
        if r["contradicted"]:
            hi = r["contradicted"][0]
            rep.broken("theorem-instance:C03_history", "hypotheses of C03_history hold, the model agrees with the "
                       "implementation, yet the observed trace is not good", replay_obj(hs[hi], len(hs[hi].steps) - 1, ctx))
        if made and len(r["hyps"]) * 20 < made:
            rep.broken("generator:hypotheses-rate", "only %d of %d histories satisfy the theorem's hypotheses" % (len(r["hyps"]), made))
    else:
        # no Coq verdicts: still report what Python alone established
        for h in hs:
            for j, key, what in h.py_findings:
                rep.finding(key, what, shrunk_replay(h, j, ctx, tables, done_shrinks))
    # every entry that is unsafe now must have produced its concrete input (matched against known findings)
    if not proofs_ok:
        from harness.props.c17 import broken_build
        broken_build(rep)
    return rep.finish(
        rule="histories on valid instances (from the constructor, deepcopy, pickle, shallow_clone) of generated classes "
             "(typed Array/Deque/Map fields, hooks, immutables, subclasses): ops drawn from ALL introspected list/deque/dict "
             "mutators with valid/invalid positional, keyword, slice, iterator, failing-iterator and key-function arguments, "
             "`x.f += v` forms, setattr valid/invalid/None/equal-but-differently-typed, del x[name], nested-container "
             "mutators; handle modes re-read and re-use; plus enumerated streams (look-alike values through every entry "
             "point, value lattice over multi-field wrappers, non-atomic base methods, every exported Field class, a hook "
             "over container sizes) and directed witness replays for every table entry, hooks, nested containers; "
             "distinct = distinct (operation kind.method + argument forms, outcome class, state changed); all non-trivial")
