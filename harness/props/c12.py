"""C12 — Partial / Omit / Pick / Extend / AllFieldsRequired keep exact field sets and constraints.

Proof obligations: Props/C12.v (model: Struct/Define.v + Struct/Derive.v).  Tie: programs of class
statements and derivations are executed on the real typedpy; the observable facts of every class object
(field names, _required, signature, constants, MRO, defaults, _ignore_none) are compared in Coq with what
`define`/`derive` compute (correspondence), and the documented sets (`doc_fields`, `doc_required`) are
evaluated in Coq on the OBSERVED source class and compared with the OBSERVED derived class (spec).
Per-field accept/reject/normal form, field-object identity and "source unchanged" are evaluated on the
implementation directly (source vs derived)."""
import itertools
import random

from harness import core
from harness import coqemit as E
from harness import fieldgen as G
from harness import defgen as D

OPS = ["partial", "allreq", "extend", "omit", "pick"]
CLAUSE = {1: "fields", 2: "required", 3: "subclass", 4: "default", 5: "bad-name", 6: "not-produced", 7: "ignore-none"}


# ------------------------------------------------------------------ generation

def gen_source(rnd, tag, rich):
    """A list of steps ending with the source class, plus its name."""
    steps = []
    n = rnd.randint(1, 5)
    names = D.FIELD_NAMES[:n]
    kind = rnd.random()
    p_const = 0.12 if rnd.random() < 0.25 else 0.0
    if kind < 0.45:
        base = rnd.choice(["Structure", "Structure", "ImmutableStructure", "FinalStructure"])
        s = D.gen_stmt(rnd, "Src" + tag, [base], names, p_const=p_const)
        steps.append(["def", s])
    else:
        k = rnd.randint(1, max(1, n - 1)) if n > 1 else 1
        b = D.gen_stmt(rnd, "Base" + tag, ["Structure"], names[:k], p_const=p_const)
        if rnd.random() < 0.3:
            b["ignore_none"] = True
        steps.append(["def", b])
        bases = ["Base" + tag]
        if rnd.random() < 0.2:
            steps.append(["mixin", "Mix" + tag])
            bases = ["Mix" + tag] + bases if rnd.random() < 0.5 else bases + ["Mix" + tag]
        own = names[k:] if n > k else []
        if rnd.random() < 0.25 and names[:k]:
            own = own + [rnd.choice(names[:k])]          # redeclare an inherited field
        s = D.gen_stmt(rnd, "Src" + tag, bases, own)
        if s["required"] is not None and rnd.random() < 0.5:
            # _required of the subclass may name inherited fields, too
            s["required"] = sorted(set(s["required"]) | set(rnd.sample(names[:k], rnd.randint(0, k))))
        if s["optional"] is not None:
            s["optional"] = None if rnd.random() < 0.5 else s["optional"]
        steps.append(["def", s])
    return steps, "Src" + tag


def gen_names(rnd, fields, bad=False):
    ns = rnd.sample(fields, rnd.randint(0, len(fields))) if fields else []
    if bad:
        # not a field: an unknown name, or a name that IS an attribute of every Structure class (API method,
        # special attribute, dunder) -- "is it a field" and "does the class have it" are different questions
        ns.insert(rnd.randint(0, len(ns)), rnd.choice(
            ["zz", "nope", "A", "a_", "pick", "omit", "cast_to", "shallow_clone_with_overrides", "_required",
             "__init__", "get_all_fields_by_name", "to_other_class", "__validate__", "_fields", "__dict__"]))
    if ns and rnd.random() < 0.1:
        ns.append(ns[0])                                   # a repeated name
    return ns


def gen_chain_program(rnd, tag, max_ops):
    steps, src = gen_source(rnd, tag, True)
    cur = src
    fields = None
    n_ops = rnd.randint(1, max_ops)
    used = set()
    for i in range(n_ops):
        op = [rnd.choice(OPS)]
        if op[0] in ("omit", "pick"):
            op.append(None)       # filled in at run time from the real field list (see fill_names)
        # the default class name <Operator><Source> only for the first operator of a chain (later names
        # would depend on which earlier steps succeed); the 'corners' stream uses default names throughout
        cname = None if (i == 0 and rnd.random() < 0.6) else "D%s_%d" % (tag, i)
        st = ["derive", cur, op, cname]
        nm = D.derived_name(st)
        used.add(nm)
        steps.append(st)
        cur = nm
        if rnd.random() < 0.25:
            # extend the derived class further with new fields
            ext = D.gen_stmt(rnd, "Ext%s_%d" % (tag, i), [cur], ["x%d" % i, "y%d" % i][:rnd.randint(1, 2)])
            ext["optional"] = None
            steps.append(["def", ext])
            if rnd.random() < 0.5:
                cur = ext["name"]
    return steps



# ------------------------------------------------------------------ process-wide defaults (TypedPyDefaults)

DEFAULT_CFG = {"allow_none_for_optionals": False, "additional_properties_default": True, "defensive_copy_on_get": True}
CONFIGS4 = [dict(DEFAULT_CFG, allow_none_for_optionals=a, additional_properties_default=b)
            for a in (False, True) for b in (True, False)]
ABSENT = "<absent>"
# class-level options that decide how a field of the class treats a value
VALUE_OPTIONS = ("_ignore_none", "_enable_undefined_value")


class with_globals(object):
    """Sets the given TypedPyDefaults attributes for the duration of a block."""

    def __init__(self, cfg):
        self.cfg = dict(cfg or {})

    def __enter__(self):
        from typedpy.structures import TypedPyDefaults
        self.saved = {k: getattr(TypedPyDefaults, k) for k in self.cfg}
        for k, v in self.cfg.items():
            setattr(TypedPyDefaults, k, v)
        return self

    def __exit__(self, *a):
        from typedpy.structures import TypedPyDefaults
        for k, v in self.saved.items():
            setattr(TypedPyDefaults, k, v)
        return False


def cfg_src(cfg):
    lines = ["TypedPyDefaults.%s = %r\n" % (k, v) for k, v in sorted((cfg or {}).items()) if DEFAULT_CFG.get(k) != v]
    return ("from typedpy.structures import TypedPyDefaults\n" + "".join(lines)) if lines else ""


def cfg_tag(cfg):
    return ",".join("%s=%s" % (k.split("_")[0], int(v)) for k, v in sorted((cfg or {}).items()) if DEFAULT_CFG.get(k) != v) or "default"


def gen_cfg(rnd):
    c = dict(rnd.choice(CONFIGS4)) if rnd.random() < 0.5 else dict(DEFAULT_CFG)
    if rnd.random() < 0.1:
        c["defensive_copy_on_get"] = False
    return c


# ------------------------------------------------------------------ hierarchies: one operator over a base class and its
# subclasses / siblings, in a given order (whatever a derivation leaves behind on a class is seen by its relatives)

def gen_hier_program(rnd, tag, order, spelling, with_grand):
    """Base, Src(Base), Sib(Base) [, Grand(Src)] and then every operator applied, with the default class name, to the
    classes in `order` (indices into the class list).  Omit/Pick name fields of Base -- every class has them -- so that
    the calls differ in the source class only.  spelling 'method' = Structure.omit / Structure.pick."""
    names = D.FIELD_NAMES
    stmts = [D.gen_stmt(rnd, "Base" + tag, ["Structure"], names[:2]),
             D.gen_stmt(rnd, "Src" + tag, ["Base" + tag], names[2:4]),
             D.gen_stmt(rnd, "Sib" + tag, ["Base" + tag], names[4:5])]
    if with_grand:
        stmts.append(D.gen_stmt(rnd, "Grand" + tag, ["Src" + tag], names[5:6]))
    for st in stmts[1:]:
        st["optional"] = None
    steps = [["def", st] for st in stmts]
    common = [names[0]] if rnd.random() < 0.5 else rnd.sample(names[:2], rnd.randint(0, 2))
    ops = OPS if spelling == "subscript" else ["omit", "pick"]
    for opn in ops:
        for ci in order:
            if ci >= len(stmts):
                continue
            op = [opn] + ([list(common)] if opn in ("omit", "pick") else [])
            st = ["derive", stmts[ci]["name"], op, None]
            if spelling == "method":
                st.append("method")
            steps.append(st)
    return steps


def gen_redefine_program(rnd, tag, spelling):
    """A class, every operator on it (default class names); then ANOTHER class of the same name (other fields) and
    every operator again: what was made for the first class must not be handed out for the second."""
    names = D.FIELD_NAMES
    steps = []
    for rnd_i in range(2):
        st = D.gen_stmt(rnd, "Src" + tag, [rnd.choice(["Structure", "ImmutableStructure"])],
                        [names[0]] + (names[1:3] if rnd_i == 0 else names[3:5]))
        steps.append(["def", st])
        for opn in (OPS if spelling == "subscript" else ["omit", "pick"]):
            op = [opn] + ([[names[0]]] if opn in ("omit", "pick") else [])
            steps.append(["derive", "Src" + tag, op, None] + (["method"] if spelling == "method" else []))
    return steps


# ------------------------------------------------------------------ class-level options: every explicit value, own /
# inherited / overriding, under every process-wide default

OPTION_SHAPES = [(opt, place, val)
                 for opt in ("_ignore_none", "_additional_properties", "_enable_undefined_value")
                 for place in ("own", "inherited", "override")
                 for val in (False, True)] + [(None, "absent", None)]


def set_option(stmt, opt, val):
    if opt == "_ignore_none":
        stmt["ignore_none"] = val
    elif opt == "_additional_properties":
        stmt["additional"] = val
    else:
        stmt["attrs"] = [a for a in stmt["attrs"] if a[0] != opt] + [[opt, "bool" if val else "boolf"]]


_FALSY = {"num": ("int", 0), "str": ("str", ""), "bool": ("bool", False)}
_SCRATCH_NS = []


def falsy_defaulted_member(rnd, name):
    """A field declaration whose default is a falsy value the field accepts (checked on the implementation)."""
    if not _SCRATCH_NS:
        _SCRATCH_NS.append(D.fresh_ns())
    for _ in range(12):
        f = D.gen_field(rnd)
        v = _FALSY.get(f["t"])
        if v is None:
            continue
        m = {"name": name, "kind": "decl", "field": f, "imm": False, "style": "ann", "kwd": None, "eqd": None}
        m["kwd" if rnd.random() < 0.4 else "eqd"] = ["lit", v]
        probe = {"name": "FalsyProbe", "bases": ["Structure"], "members": [m], "required": None, "optional": None,
                 "additional": None, "ignore_none": None, "attrs": [], "keys_of": []}
        try:
            exec(D.stmt_src(probe), dict(_SCRATCH_NS[0]))
        except Exception:  # noqa
            continue
        return m
    return None


def gen_option_program(rnd, tag, shape, base_kind):
    """A source with a required, an optional and a defaulted field whose class-level option `opt` is set to `val`
    in its own body / only in its base class / in its own body against the opposite value in the base class;
    then all five operators (and the two method spellings)."""
    opt, place, val = shape
    names = D.FIELD_NAMES[:4]

    def plain(name, bases, own, req):
        for _ in range(20):
            ms = D.gen_members(rnd, own, p_default=0.0)
            if any(m["field"]["t"] in D.DEFAULTABLE for m in ms[-1:]):
                break
        last = ms[-1]
        fz = falsy_defaulted_member(rnd, last["name"]) if rnd.random() < 0.5 else None
        if fz is not None:
            ms[-1] = last = fz            # a default that is a falsy value (0, '', False): still a default
        elif last["field"]["t"] in D.DEFAULTABLE:
            d = D.gen_default(rnd, last["field"])
            if d is not None:
                last["eqd"] = d
                last["style"] = "ann"
        return {"name": name, "bases": bases, "members": ms, "required": req, "optional": None, "additional": None,
                "ignore_none": None, "attrs": [], "keys_of": []}

    steps = []
    if place in ("own", "absent"):
        src = plain("Src" + tag, [base_kind], names, [names[0]])
        if opt:
            set_option(src, opt, val)
        steps.append(["def", src])
    else:
        base = plain("Base" + tag, ["Structure"], names[:2], [names[0]])
        src = plain("Src" + tag, ["Base" + tag], names[2:], [])
        set_option(base, opt, val if place == "inherited" else (not val))
        if place == "override":
            set_option(src, opt, val)
        steps += [["def", base], ["def", src]]
    for opn in OPS:
        steps.append(["derive", "Src" + tag, [opn] + ([None] if opn in ("omit", "pick") else []), None])
    for opn in ("omit", "pick"):
        steps.append(["derive", "Src" + tag, [opn, None], "M%s_%s" % (opn, tag), "method"])
    for opn in OPS:
        ext = plain("Ext%s_%s" % (opn, tag), [D.OP_CLS[opn] + "Src" + tag], ["x0"], None)
        steps.append(["def", ext])
    return steps


# ------------------------------------------------------------------ running (names are chosen from the REAL field list)

def run_steps(rnd, steps, exhaustive=False, bad_last=False):
    """Executes step by step; Omit/Pick name lists left open (None) are drawn from the real field names of
    the source at that point.  Returns (program, outcomes, ns, probes)."""
    from typedpy.structures import TypedPyDefaults
    ns = D.fresh_ns()
    prog, outs = [], []
    for idx, st in enumerate(steps):
        st = [x for x in st]
        if st[0] == "derive" and st[2][0] in ("omit", "pick") and st[2][1] is None:
            srccls = ns.get(st[1])
            fields = list(srccls.get_all_fields_by_name().keys()) if srccls is not None else []
            st[2] = [st[2][0], gen_names(rnd, fields, bad=(bad_last and idx == len(steps) - 1) or rnd.random() < 0.06)]
        name = D.step_name(st)
        try:
            exec(D.step_src(st), ns)
        except Exception as ex:  # noqa
            ns.pop(name, None)
            prog.append(st)
            outs.append(("raise", E.exn_name(ex), repr(ex)[:200]))
            if st[0] == "def":
                break          # nothing can be built on a class that does not exist
            if st[0] == "derive":
                # later steps deriving from the missing class: retarget to the source of this one
                for later in steps[idx + 1:]:
                    if later[0] == "derive" and later[1] == name:
                        later[1] = st[1]
                    if later[0] == "def" and name in later[1]["bases"]:
                        later[1]["bases"] = [st[1] if b == name else b for b in later[1]["bases"]]
            continue
        prog.append(st)
        outs.append(("mixin", name) if st[0] == "mixin" else ("ok", D.observe(ns[name])))
    return prog, outs, ns


# ------------------------------------------------------------------ implementation-side clauses

def norm_exc(name):
    return "TE/VE" if name in ("TypeError", "ValueError", "InvalidStructureErr") else name


def outcome(cls, kwargs, n):
    try:
        inst = cls(**kwargs)
    except Exception as ex:  # noqa
        return ("raise", norm_exc(E.exn_name(ex)))
    try:
        v = inst.__dict__.get(n, ("<unset>",))
        if v == ("<unset>",):
            return ("ok", ("unset", repr(E.reify(getattr(inst, n)))))
        return ("ok", repr(E.reify(v)))
    except Exception as ex:  # noqa
        return ("raise-get", norm_exc(E.exn_name(ex)))


def base_kwargs(rnd, cls, fmap, tries=10):
    """Valid values for every (non-constant) field of cls, checked on the real class."""
    for _ in range(tries):
        kw = {}
        for n, f in fmap.items():
            if f is None:
                continue
            try:
                kw[n] = G.gen_valid(rnd, f, {})
            except Exception:  # noqa
                return None
        try:
            real = {k: G.unreify(v, {}) for k, v in kw.items()}
            cls(**real)
            return kw
        except Exception:  # noqa
            continue
    return None


def test_values(rnd, f, n_vals):
    vals = []
    for i in range(n_vals):
        try:
            v = G.gen_valid(rnd, f, {})
            if i % 3 == 1:
                v = G.corrupt(rnd, f, v, {})
            elif i % 3 == 2:
                v = G.gen_any(rnd)
        except Exception:  # noqa
            v = G.gen_any(rnd)
        vals.append(v)
    vals.append(("none",))
    return vals


def assign_outcome(cls, kwargs, n, value):
    """What `instance.n = value` does on a valid instance: the exception class, or what the field then holds."""
    try:
        inst = cls(**kwargs)
    except Exception as ex:  # noqa
        return ("raise-init", norm_exc(E.exn_name(ex)))
    try:
        setattr(inst, n, value)
    except Exception as ex:  # noqa
        return ("raise", norm_exc(E.exn_name(ex)))
    try:
        v = inst.__dict__.get(n, ("<unset>",))
        if v == ("<unset>",):
            return ("ok", ("unset", repr(E.reify(getattr(inst, n)))))
        return ("ok", repr(E.reify(v)))
    except Exception as ex:  # noqa
        return ("raise-get", norm_exc(E.exn_name(ex)))


def option_seen(cls, opt):
    v = getattr(cls, opt, ABSENT)
    return v if v is ABSENT or isinstance(v, bool) else repr(v)


def none_key(S, Dc, op):
    """Names the root cause of a different treatment of None: the class-level option that the derived class does
    not see as its source does (as values; `absent` leaves the decision to the process-wide default)."""
    if bool(getattr(S, "_ignore_none", False)) != bool(getattr(Dc, "_ignore_none", False)):
        inherited = "_ignore_none" not in S.__dict__
        return "C12/ignore-none/%s/%s" % (op[0], "inherited-not-copied" if inherited else "own")
    for opt in VALUE_OPTIONS:
        a, b = option_seen(S, opt), option_seen(Dc, opt)
        if a != b:
            return "C12/option-not-carried/%s/%s:%s->%s" % (op[0], opt, a, b)
    return None


def behaviour_clauses(rnd, S, Dc, fmap_s, op, n_vals, rep, report, step=None, extra=None):
    """Every retained field accepts / rejects / normalises exactly as in the source -- at construction and at
    assignment --, is the very same field object and keeps its default."""
    sf = S.get_all_fields_by_name()
    df = Dc.get_all_fields_by_name()
    n_eval = 0
    for n in df:
        if n in sf and df[n] is not sf[n]:
            report("C12/behaviour/%s/field-object-not-shared" % op[0], "field %r of %s is not the source's field object" % (n, Dc.__name__), {"field": n})
    base = base_kwargs(rnd, S, fmap_s)
    if base is None:
        return 0
    based = {k: v for k, v in base.items() if k in df}
    if extra:
        # Dc is a class statement on top of a derived class: valid values for the fields it adds
        for _ in range(10):
            try:
                add = {k: G.gen_valid(rnd, f, {}) for k, f in extra.items()}
                Dc(**{k: G.unreify(v, {}) for k, v in dict(based, **add).items()})
                based.update(add)
                break
            except Exception:  # noqa
                continue
        else:
            try:
                Dc(**{k: G.unreify(v, {}) for k, v in based.items()})
            except Exception:  # noqa
                return 0           # no valid instance because of the ADDED fields: nothing to compare
    try:
        Dc(**{k: G.unreify(v, {}) for k, v in based.items()})
    except Exception as ex:  # noqa
        report("C12/behaviour/%s/derived-rejects-valid-instance" % op[0],
               "%s(**valid values of its fields) raises %r while the source accepts them" % (Dc.__name__, ex),
               {"kwargs": {k: G.py_src(v) for k, v in based.items()}})
        return 0
    sreq = set(getattr(S, "_required"))
    dreq = set(getattr(Dc, "_required"))
    can_assign = not getattr(S, "_immutable", False) and not getattr(Dc, "_immutable", False)
    for n in df:
        f = fmap_s.get(n)
        if f is None or n not in sf:
            continue
        for v in test_values(rnd, f, n_vals):
            if v[0] == "none" and ((n in sreq) != (n in dreq)):
                continue       # None handling legitimately follows requiredness
            try:
                pv = G.unreify(v, {})
            except Exception:  # noqa
                continue
            for mode in ("init", "assign") if can_assign else ("init",):
                ks = {k: G.unreify(x, {}) for k, x in base.items()}
                kd = {k: G.unreify(x, {}) for k, x in based.items()}
                if mode == "init":
                    ks[n] = pv
                    kd[n] = pv
                    os_ = outcome(S, ks, n)
                    od = outcome(Dc, kd, n)
                else:
                    if base[n][0] == "none" and ((n in sreq) != (n in dreq)):
                        continue   # the instance starts from None for this field: follows requiredness, as above
                    try:
                        pv2 = G.unreify(v, {})
                    except Exception:  # noqa
                        continue
                    os_ = assign_outcome(S, ks, n, pv)
                    od = assign_outcome(Dc, kd, n, pv2)
                n_eval += 1
                if os_ != od:
                    key = none_key(S, Dc, op) if (v[0] == "none" or (mode == "assign" and base[n][0] == "none")) else None
                    if key is None:
                        key = "C12/behaviour/%s/%s/%s%s" % (op[0], f["t"], v[0], "" if mode == "init" else "/assign")
                    report(key, "field %r %s %s: source %s -> %s, derived %s -> %s" % (
                        n, "given" if mode == "init" else "assigned", G.py_src(v), S.__name__, os_, Dc.__name__, od),
                        {"field": n, "value": G.py_src(v), "mode": mode, "source_outcome": os_, "derived_outcome": od,
                         "direct": {"step": step, "field": n, "value": G.py_src(v), "mode": mode,
                                    "base": {k: G.py_src(x) for k, x in base.items()}}})
    return n_eval


def class_probe(rnd_seed, cls, fmap):
    """A deterministic fingerprint of how a class behaves (for `source unchanged`)."""
    rnd = random.Random(rnd_seed)
    obs = D.observe(cls)
    outs = []
    base = base_kwargs(rnd, cls, fmap)
    if base is not None:
        for n, f in fmap.items():
            if f is None:
                continue
            for v in test_values(rnd, f, 3):
                try:
                    k = {a: G.unreify(x, {}) for a, x in base.items()}
                    k[n] = G.unreify(v, {})
                except Exception:  # noqa
                    continue
                outs.append((n, repr(v), outcome(cls, k, n)))
        outs.append(("<no args>", outcome(cls, {}, "a")))
    ids = {n: id(f) for n, f in cls.get_all_fields_by_name().items()}
    return obs, outs, ids


# ------------------------------------------------------------------ one program

def program_text(prog, cfg, cfg_use=None):
    tail = ""
    if cfg_use:
        tail = "\n# the process-wide defaults change after the classes were made\n" + "".join(
            "TypedPyDefaults.%s = %r\n" % (k, v) for k, v in sorted(cfg_use.items()) if (cfg or DEFAULT_CFG).get(k) != v)
        if "import TypedPyDefaults" not in cfg_src(cfg):
            tail = "from typedpy.structures import TypedPyDefaults\n" + tail
    return D.IMPORTS + cfg_src(cfg) + "\n" + "\n".join(D.step_src(st) for st in prog) + tail


def check_program(rnd, steps, rep, stream, n_vals, bad_last=False, cfg=None, cfg_use=None):
    """Runs a program on the implementation under the process-wide defaults `cfg`, evaluates the
    implementation-side clauses (under `cfg_use` if given: the defaults as they are when the classes are USED).
    Returns (prog, outcomes, findings, ns) — findings = [(key, what, data)]."""
    with with_globals(cfg):
        return _check_program(rnd, steps, rep, stream, n_vals, bad_last, cfg, cfg_use)


def _check_program(rnd, steps, rep, stream, n_vals, bad_last, cfg, cfg_use):
    with with_globals(cfg):
        prog, outs, ns = run_steps(rnd, steps, bad_last=bad_last)
    with with_globals(cfg_use or cfg):
        return _clauses(rnd, prog, outs, ns, rep, stream, n_vals, cfg, cfg_use)


def _clauses(rnd, prog, outs, ns, rep, stream, n_vals, cfg, cfg_use):
    findings = []
    fmaps = D.field_ast_map(prog, ns)
    src_text = program_text(prog, cfg, cfg_use)

    def report(key, what, data):
        findings.append((key, what, dict(data, python=src_text, program=prog, globals=dict(cfg or {}),
                                         globals_use=dict(cfg_use) if cfg_use else None)))

    # source-unchanged: fingerprint every class right after the program and compare with a fingerprint
    # of the same class object re-created in a fresh namespace WITHOUT the later steps
    first_derive = next((i for i, st in enumerate(prog) if st[0] == "derive"), None)
    if first_derive is not None:
        ns0 = D.fresh_ns()
        with with_globals(cfg):
            for st in prog[:first_derive]:
                try:
                    exec(D.step_src(st), ns0)
                except Exception:  # noqa
                    pass
        n_defs = {}
        for st in prog:
            if st[0] == "def":
                n_defs[st[1]["name"]] = n_defs.get(st[1]["name"], 0) + 1
        for st in prog[:first_derive]:
            nm = D.step_name(st)
            if st[0] == "def" and nm in ns and nm in ns0 and n_defs.get(nm) == 1:
                p_after = class_probe(12345, ns[nm], fmaps.get(nm, {}))
                p_fresh = class_probe(12345, ns0[nm], fmaps.get(nm, {}))
                rep.count(stream + ":source-unchanged", 1)
                if p_after[0] != p_fresh[0] or p_after[1] != p_fresh[1]:
                    diff = [x for x in zip(p_after[1], p_fresh[1]) if x[0] != x[1]][:3]
                    report("C12/source-changed/%s" % "+".join(sorted({s[2][0] for s in prog if s[0] == "derive"})),
                           "class %s behaves differently after deriving from it" % nm,
                           {"class": nm, "after": p_after[0], "fresh": p_fresh[0], "diff": repr(diff)})
    # history: what a step produced is what the name still denotes at the end of the program (nothing a later
    # derivation does may reach back into a class made earlier)
    last_binding = {}
    for i, st in enumerate(prog):
        if outs[i][0] == "ok":
            last_binding[D.step_name(st)] = i
    for nm, i in last_binding.items():
        if nm in ns:
            try:
                now = D.observe(ns[nm])
            except Exception as ex:  # noqa
                now = repr(ex)
            rep.count(stream + ":unchanged-later", 1)
            if now != outs[i][1]:
                later = sorted({s2[2][0] for s2 in prog[i + 1:] if s2[0] == "derive"})
                report("C12/changed-by-later-derivation/%s" % "+".join(later),
                       "class %s is not what it was when it was made (step %d)" % (nm, i),
                       {"class": nm, "then": outs[i][1], "now": now})
    made = {}                       # id(class object) -> name of the step that produced it first
    derived_from = {}               # name of a derived class -> index of the derive step
    for i, (st, o) in enumerate(zip(prog, outs)):
        if st[0] == "def" and o[0] == "ok" and ns.get(D.step_name(st)) is not None and last_binding.get(D.step_name(st)) == i:
            made.setdefault(id(ns[D.step_name(st)]), D.step_name(st))
        if st[0] == "def" and o[0] == "ok" and len(st[1]["bases"]) == 1 and st[1]["bases"][0] in derived_from:
            # "the same holds when the derived class is further extended with new fields": a class statement on
            # top of a derived class that sets no option of its own and redeclares nothing
            j = derived_from[st[1]["bases"][0]]
            stm = st[1]
            S, X = ns.get(prog[j][1]), ns.get(stm["name"])
            own = {m["name"]: (m["field"] if m["kind"] == "decl" else None) for m in stm["members"]}
            if (S is not None and X is not None and last_binding.get(stm["name"]) == i
                    and stm.get("ignore_none") is None and stm.get("required") is None and stm.get("optional") is None
                    and not any(a[0].startswith("_enable") for a in stm.get("attrs") or [])
                    and not set(own) & set(S.get_all_fields_by_name()) and None not in own.values()):
                opx = [prog[j][2][0] + "+subclass"]
                n = behaviour_clauses(rnd, S, X, fmaps.get(prog[j][1], {}), opx, n_vals, rep, report, step=None, extra=own)
                rep.count(stream + ":values-extended-class", n)
            continue
        if st[0] != "derive":
            continue
        op = st[2]
        if o[0] == "ok" and last_binding.get(D.derived_name(st)) == i:
            derived_from[D.derived_name(st)] = i
        S = ns.get(st[1])
        rep.count(stream, 1, (op[0], len(op[1]) if len(op) > 1 else -1, o[0],
                              tuple(sorted(S.get_all_fields_by_name())) if S is not None else ()))
        rep.stat(stream, "op:" + op[0])
        rep.stat(stream, "outcome:" + (o[0] if o[0] == "ok" else o[1]))
        if o[0] != "ok" or S is None:
            continue
        Dc = ns.get(D.derived_name(st))
        if Dc is None or last_binding.get(D.derived_name(st)) != i:
            continue
        if id(Dc) in made:
            report("C12/not-a-new-class/%s" % op[0],
                   "%s[%s] returned the class object that step %r had produced" % (D.OP_CLS[op[0]], st[1], made[id(Dc)]),
                   {"step": i, "same_as": made[id(Dc)]})
        made.setdefault(id(Dc), D.derived_name(st))
        if issubclass(Dc, S):
            report("C12/subclass/%s" % op[0], "%s is a subclass of its source %s" % (Dc.__name__, S.__name__), {})
        n = behaviour_clauses(rnd, S, Dc, fmaps.get(st[1], {}), op, n_vals, rep, report, step=i)
        rep.count(stream + ":values", n)
    return prog, outs, findings, ns


def spec_key(prog, outs, step, clause, ns_info):
    st = prog[step]
    op = st[2][0]
    src_obs = None
    for s2, o2 in zip(prog[:step], outs[:step]):
        if D.step_name(s2) == st[1] and o2[0] == "ok":
            src_obs = o2[1]
    src_stmt = next((s2[1] for s2 in prog if s2[0] == "def" and s2[1]["name"] == st[1]), None)
    if clause == 2:
        defaulted = {n for n, d in (src_obs or {}).get("defaults", []) if d is not None}
        if src_obs and defaulted & set(src_obs["required"]) and outs[step][0] == "ok":
            # the known shape: the ONLY difference from the documented set are the required names of the
            # source whose (inherited) field carries a default
            names = set(st[2][1]) if len(st[2]) > 1 else set()
            req = set(src_obs["required"])
            doc = {"extend": req, "omit": req - names, "pick": req & names}.get(op)
            got = set(outs[step][1]["required"])
            if doc is not None and got == doc - defaulted:
                return "C12/required/%s/source-requires-inherited-defaulted-field" % op
        return "C12/required/%s" % op
    if clause == 6:
        o = outs[step]
        if op == "allreq" and src_obs and src_obs["consts"] and o[1] == "AttributeError":
            return "C12/AllFieldsRequired/constant-member/AttributeError"
        return "C12/%s/raises:%s" % (op, o[1])
    if clause == 7:
        inherited = src_stmt is not None and src_stmt.get("ignore_none") is None
        return "C12/ignore-none/%s/%s" % (op, "inherited-not-copied" if inherited else "own")
    if clause == 5:
        o = outs[step]
        return "C12/bad-name/%s/%s" % (op, "accepted" if o[0] == "ok" else o[1])
    return "C12/%s/%s" % (CLAUSE[clause], op)


def evaluate(cases, tag="c12"):
    """cases: [(prog, outs, guards)].  Returns per-case mismatch step lists, spec failures, unmodelled flags."""
    per = 60
    shards = []
    for s in range(0, len(cases), per):
        items = [D.emit_case(p, o, g) for p, o, g in cases[s:s + per]]
        body = "Definition cases : list dcase := %s.\n" % E.lst(["\n " + i for i in items])
        body += "Eval vm_compute in (map (fun c => map (fun i => (i, 0%nat)) (dmismatch_steps c)) cases).\n"
        body += "Eval vm_compute in (map c12_spec_fail cases).\n"
        body += "Eval vm_compute in (indices_where dunmodelled cases 0).\n"
        shards.append(body)
    res = core.eval_cases(shards, tag, D.HEADER)
    mism, spec, unm = [], [], []
    for si, (rc, so, se) in enumerate(res):
        vals = core.parse_eval(so)
        n_here = len(cases[si * per:(si + 1) * per])
        if rc != 0 or len(vals) != 3:
            raise RuntimeError("case shard %d failed to evaluate: %s" % (si, (so + se)[-1500:]))
        m = D.parse_list_of_pairlists(vals[0])
        sp = D.parse_list_of_pairlists(vals[1])
        if len(m) != n_here or len(sp) != n_here:
            raise RuntimeError("case shard %d: unexpected output shape %r" % (si, vals[0][:300]))
        mism += [[a for a, _ in x] for x in m]
        spec += sp
        unm += [si * per + i for i in core.parse_nat_list(vals[2])]
    return mism, spec, unm


# ------------------------------------------------------------------ entry points

def subsets_program(rnd, tag, max_fields):
    """One source with <= max_fields fields and EVERY subset of its names through Omit and Pick."""
    steps, src = gen_source(rnd, tag, False)
    return steps, src


def run(rep, tier):
    rnd = random.Random(core.seed() * 1000003 + 12)
    proofs_ok, model_ok = core.standard_proof_obligations(rep, "C12", ["theories/Check/Defchk.vo"])
    quick = tier == "quick"
    n_chain = 260 if quick else 1200
    n_subsets = 5 if quick else 24
    max_ops = 3 if quick else 6
    n_vals = 5 if quick else 8
    cases = []
    cfgs = []
    all_findings = []

    def add_case(prog, outs, fnd, cfg, stream):
        cases.append((prog, outs, (True, True, bool(cfg.get("additional_properties_default", True)))))
        cfgs.append(cfg)
        rep.stat(stream, "globals:" + cfg_tag(cfg))
        all_findings.extend(fnd)

    # stream 1: operator chains (with further extension, occasional bad names), under random process-wide defaults
    for i in range(n_chain):
        steps = gen_chain_program(rnd, "c%d" % i, max_ops)
        cfg = gen_cfg(rnd)
        prog, outs, fnd, _ = check_program(rnd, steps, rep, "chain", n_vals, bad_last=(i % 9 == 0), cfg=cfg)
        add_case(prog, outs, fnd, cfg, "chain")
    # stream 2: all subsets of the field names of a source (<= 5 fields), Omit and Pick
    for i in range(n_subsets):
        steps, src = gen_source(rnd, "s%d" % i, False)
        ns = D.fresh_ns()
        ok = True
        for st in steps:
            try:
                exec(D.step_src(st), ns)
            except Exception:  # noqa
                ok = False
        if not ok:
            continue
        fields = list(ns[src].get_all_fields_by_name().keys())
        k = 0
        for r in range(len(fields) + 1):
            for sub in itertools.combinations(fields, r):
                for opn in ("omit", "pick"):
                    steps.append(["derive", src, [opn, list(sub)], "S%d_%d" % (i, k)])
                    k += 1
        cfg = gen_cfg(rnd)
        prog, outs, fnd, _ = check_program(rnd, steps, rep, "subsets", 2 if quick else 4, cfg=cfg)
        add_case(prog, outs, fnd, cfg, "subsets")
    # stream 3: every operator on sources with constants / inherited settings (the corners)
    for i in range(20 if quick else 80):
        steps, src = gen_source(rnd, "k%d" % i, True)
        for st in steps:
            if st[0] == "def" and st[1]["name"] == src and rnd.random() < 0.6:
                st[1]["members"].append({"name": "kc", "kind": "const", "value": E.reify(rnd.choice([1, "v", True]))})
        for j, opn in enumerate(OPS):
            op = [opn] + ([None] if opn in ("omit", "pick") else [])
            steps.append(["derive", src, op, None])
        cfg = gen_cfg(rnd)
        prog, outs, fnd, _ = check_program(rnd, steps, rep, "corners", n_vals, cfg=cfg)
        add_case(prog, outs, fnd, cfg, "corners")
    # stream 4 (enumeration): one operator over a base class, its subclass and a sibling, in every order, both
    # spellings of omit / pick; the process-wide defaults rotate
    k = 0
    perms3 = list(itertools.permutations(range(3)))
    perms4 = list(itertools.permutations(range(4)))
    hier = [(o, sp, False) for o in perms3 for sp in ("subscript", "method")]
    extra = perms4 if not quick else rnd.sample(perms4, 4)
    hier += [(o, sp, True) for o in extra for sp in (("subscript", "method") if not quick else ("subscript",))]
    for rnd_round in range(1 if quick else 3):
        for order, spelling, grand in hier:
            cfg = dict(CONFIGS4[k % 4])
            steps = gen_hier_program(rnd, "h%d" % k, order, spelling, grand)
            prog, outs, fnd, _ = check_program(rnd, steps, rep, "hierarchy-orders", 2, cfg=cfg)
            rep.stat("hierarchy-orders", "order:%s/%s" % ("".join(map(str, order)), spelling))
            add_case(prog, outs, fnd, cfg, "hierarchy-orders")
            k += 1
    for j in range(4 if quick else 16):
        cfg = dict(CONFIGS4[j % 4])
        steps = gen_redefine_program(rnd, "r%d" % j, "subscript" if j % 2 == 0 else "method")
        prog, outs, fnd, _ = check_program(rnd, steps, rep, "hierarchy-orders", 2, cfg=cfg)
        rep.stat("hierarchy-orders", "order:redefined-class-of-the-same-name")
        add_case(prog, outs, fnd, cfg, "hierarchy-orders")
    # stream 5 (enumeration): every class-level option at every explicit value (own / inherited / overriding the
    # base's) under every combination of the process-wide defaults, all operators
    k = 0
    for rnd_round in range(1 if quick else 3):
        for shape in OPTION_SHAPES:
            for cfg0 in CONFIGS4:
                cfg = dict(cfg0)
                kind = ["Structure", "ImmutableStructure", "FinalStructure"][k % 3] if shape[1] in ("own", "absent") else "Structure"
                steps = gen_option_program(rnd, "o%d" % k, shape, kind)
                # every third program: the process-wide defaults are switched AFTER the classes were made
                cfg_use = dict(cfg, allow_none_for_optionals=not cfg["allow_none_for_optionals"]) if k % 3 == 2 else None
                prog, outs, fnd, _ = check_program(rnd, steps, rep, "class-options", 2, cfg=cfg, cfg_use=cfg_use)
                rep.stat("class-options", "defaults-switched-after-definition:%s" % bool(cfg_use))
                rep.stat("class-options", "shape:%s/%s/%s" % shape)
                rep.stat("class-options", "source-kind:" + kind)
                add_case(prog, outs, fnd, cfg, "class-options")
                k += 1
    for key, what, data in all_findings:
        rep.finding(key, what, data)
    rep.obligation("spec-on-implementation:behaviour/identity/source-unchanged", not all_findings,
                   "%d programs, %d disagreements" % (len(cases), len(all_findings)))
    sample_i = [0, len(cases) // 2, len(cases) - 1]
    for i in sample_i:
        rep.sample({"program": program_text(cases[i][0], cfgs[i])[len(D.IMPORTS):][:1500],
                    "outcomes": [o[0] if o[0] != "raise" else o[1] for o in cases[i][1]]})
    if model_ok:
        try:
            mism, spec, unm = evaluate(cases)
        except RuntimeError as ex:
            rep.broken("correspondence:define/coq-eval", str(ex))
            mism = None
        if mism is not None:
            n_steps = sum(len(p) for p, _, _ in cases)
            rep.cov["streams"].setdefault("chain", {})["programs"] = len(cases)
            rep.cov["streams"]["chain"]["steps_compared_in_coq"] = n_steps
            rep.cov["streams"]["chain"]["outside_model_domain_skipped"] = len(unm)
            n_spec = 0
            for ci, fails in enumerate(spec):
                prog, outs, _ = cases[ci]
                for step, clause in fails:
                    n_spec += 1
                    key = spec_key(prog, outs, step, clause, None)
                    rep.finding(key, "documented %s of %s[%s] not observed: source %s, derived %s" % (
                        CLAUSE[clause], D.OP_CLS[prog[step][2][0]], prog[step][1],
                        next((o[1] for s2, o in zip(prog, outs) if D.step_name(s2) == prog[step][1] and o[0] == "ok"), None),
                        outs[step][1] if outs[step][0] == "ok" else outs[step][1:]),
                        {"program": prog, "step": step, "clause": CLAUSE[clause], "python": program_text(prog, cfgs[ci]),
                         "globals": cfgs[ci]})
            rep.obligation("spec-on-observed:doc_fields/doc_required", n_spec == 0,
                           "%d derivations checked against the documented sets in Coq, %d clause failures" % (
                               sum(1 for p, _, _ in cases for s in p if s[0] == "derive"), n_spec))
            bad = [(ci, m) for ci, m in enumerate(mism) if m]
            rep.obligation("correspondence:define+derive", not bad, "%d programs (%d steps), %d with mismatches" % (
                len(cases), n_steps, len(bad)))
            if len(unm) * 5 > len(cases):
                rep.broken("correspondence:define/domain", "%d of %d programs fall outside the model" % (len(unm), len(cases)))
            if bad and not any(not v["no_input"] for v in rep.violations):
                ci, m = bad[0]
                prog, outs, _ = cases[ci]
                rep.broken("correspondence:define+derive",
                           "model (Struct/Define.v, Struct/Derive.v) and typedpy differ on %d generated programs "
                           "(first: step %s); no clause of C12 failed on any explored input" % (len(bad), m),
                           {"python": program_text(prog, cfgs[ci]), "steps": m, "globals": cfgs[ci],
                            "observed": [o[1] if o[0] != "mixin" else None for o in (outs[i] for i in m)]})
    if not proofs_ok:
        from harness.props.c17 import broken_build
        broken_build(rep)
    rep.assumptions += [
        "re.match is an oracle (Section variable), instantiated per case from the real re module (default validation)",
        "class objects are modelled as values keyed by class name; every class of a program has its own name",
        "field declarations of the sources contain no class references (defaults are validated with an empty class environment)",
    ]
    return rep.finish(
        rule="programs = source class (mutable / immutable / final / with inheritance, mix-in, defaults, _required/_optional, "
             "_ignore_none own or inherited, constants) followed by operator chains (<= %d operators, explicit or default class "
             "names, further class statements extending the derived class), all subsets of <= 5 field names through Omit and "
             "Pick, bad names; per derivation: sets compared in Coq, %d values per retained field compared source vs derived; "
             "distinct = distinct (operator, #names, outcome, source field set)" % (max_ops, n_vals + 1))


def replay_direct(prog, cfg, d, cfg_use=None):
    """Re-executes the one recorded comparison (field, value, construction or assignment) on source and derived."""
    ns = D.fresh_ns()
    with with_globals(cfg):
        for st in prog:
            try:
                exec(D.step_src(st), ns)
            except Exception as ex:  # noqa
                print("  step %s raises %r" % (D.step_name(st), ex))
    with with_globals(cfg_use or cfg):
        st = prog[d["step"]]
        S, Dc = ns.get(st[1]), ns.get(D.derived_name(st))
        if S is None or Dc is None:
            print("  source or derived class missing")
            return 1
        n = d["field"]
        res = []
        for cls in (S, Dc):
            kw = {k: eval(v, ns) for k, v in d["base"].items() if k in cls.get_all_fields_by_name()}
            val = eval(d["value"], ns)
            if d["mode"] == "init":
                kw[n] = val
                res.append(outcome(cls, kw, n))
            else:
                res.append(assign_outcome(cls, kw, n, val))
        print("  field %r, %s %s:" % (n, "constructed with" if d["mode"] == "init" else "assigned", d["value"]))
        print("    source  %-28s observed %s" % (S.__name__, res[0]))
        print("    derived %-28s observed %s   (required: the same as the source)" % (Dc.__name__, res[1]))
        return 1 if res[0] != res[1] else 0


def replay(obj):
    """Re-runs the recorded program on the implementation and prints what the clause in question observes."""
    prog = obj.get("program")
    if not prog:
        print(obj.get("detail", "no program recorded"))
        return 2
    cfg = obj.get("globals") or {}
    cfg_use = obj.get("globals_use") or None
    rnd = random.Random(7)
    rep = core.Report("C12", "quick")
    bad = 0
    print(program_text(prog, cfg, cfg_use)[len(D.IMPORTS):])
    if obj.get("direct") and obj["direct"].get("step") is not None:
        bad = replay_direct(prog, cfg, obj["direct"], cfg_use)
    prog2, outs, findings, ns = check_program(rnd, prog, rep, "replay", 6, cfg=cfg, cfg_use=cfg_use)
    for st, o in zip(prog2, outs):
        print(" ", D.step_name(st), "->", o[1] if o[0] != "mixin" else "mixin")
    for key, what, _ in findings:
        print("implementation-side clause fails:", key, "|", what)
        bad = 1
    try:
        mism, spec, unm = evaluate([(prog2, outs, (True, True, bool(cfg.get("additional_properties_default", True))))],
                                   tag="c12replay")
        for step, clause in spec[0]:
            print("documented-set clause fails at step %d: %s" % (step, CLAUSE[clause]))
            bad = 1
        if mism[0]:
            print("model/implementation mismatch at steps", mism[0])
    except RuntimeError as ex:
        print(ex)
    want = obj.get("finding_key")
    print("recorded finding:", want)
    return bad
