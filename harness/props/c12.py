"""C12 — Partial / Omit / Pick / Extend / AllFieldsRequired keep exact field sets and constraints.

Proof obligations: Props/C12.v (model: Struct/Define.v + Struct/Derive.v).  Tie: programs of class
statements and derivations are executed on the real typedpy; the observable facts of every class object
(field names, _required, signature, constants, MRO, defaults, _ignore_none) are compared in Coq with what
`define`/`derive` compute (correspondence), and the documented sets (`doc_fields`, `doc_required`) are
evaluated in Coq on the OBSERVED source class and compared with the OBSERVED derived class (spec).
Per-field accept/reject/normal form, field-object identity and "source unchanged" are evaluated on the
implementation directly (source vs derived)."""
import itertools
import random

from harness import core
from harness import coqemit as E
from harness import fieldgen as G
from harness import defgen as D

OPS = ["partial", "allreq", "extend", "omit", "pick"]
CLAUSE = {1: "fields", 2: "required", 3: "subclass", 4: "default", 5: "bad-name", 6: "not-produced", 7: "ignore-none"}


# ------------------------------------------------------------------ generation

def gen_source(rnd, tag, rich):
    """A list of steps ending with the source class, plus its name."""
    steps = []
    n = rnd.randint(1, 5)
    names = D.FIELD_NAMES[:n]
    kind = rnd.random()
    p_const = 0.12 if rnd.random() < 0.25 else 0.0
    if kind < 0.45:
        base = rnd.choice(["Structure", "Structure", "ImmutableStructure", "FinalStructure"])
        s = D.gen_stmt(rnd, "Src" + tag, [base], names, p_const=p_const)
        steps.append(["def", s])
    else:
        k = rnd.randint(1, max(1, n - 1)) if n > 1 else 1
        b = D.gen_stmt(rnd, "Base" + tag, ["Structure"], names[:k], p_const=p_const)
        if rnd.random() < 0.3:
            b["ignore_none"] = True
        steps.append(["def", b])
        bases = ["Base" + tag]
        if rnd.random() < 0.2:
            steps.append(["mixin", "Mix" + tag])
            bases = ["Mix" + tag] + bases if rnd.random() < 0.5 else bases + ["Mix" + tag]
        own = names[k:] if n > k else []
        if rnd.random() < 0.25 and names[:k]:
            own = own + [rnd.choice(names[:k])]          # redeclare an inherited field
        s = D.gen_stmt(rnd, "Src" + tag, bases, own)
        if s["required"] is not None and rnd.random() < 0.5:
            # _required of the subclass may name inherited fields, too
            s["required"] = sorted(set(s["required"]) | set(rnd.sample(names[:k], rnd.randint(0, k))))
        if s["optional"] is not None:
            s["optional"] = None if rnd.random() < 0.5 else s["optional"]
        steps.append(["def", s])
    return steps, "Src" + tag


def gen_names(rnd, fields, bad=False):
    ns = rnd.sample(fields, rnd.randint(0, len(fields))) if fields else []
    if bad:
        # not a field: an unknown name, or a name that IS an attribute of every Structure class (API method,
        # special attribute, dunder) -- "is it a field" and "does the class have it" are different questions
        ns.insert(rnd.randint(0, len(ns)), rnd.choice(
            ["zz", "nope", "A", "a_", "pick", "omit", "cast_to", "shallow_clone_with_overrides", "_required",
             "__init__", "get_all_fields_by_name", "to_other_class", "__validate__", "_fields", "__dict__"]))
    if ns and rnd.random() < 0.1:
        ns.append(ns[0])                                   # a repeated name
    return ns


def gen_chain_program(rnd, tag, max_ops):
    steps, src = gen_source(rnd, tag, True)
    cur = src
    fields = None
    n_ops = rnd.randint(1, max_ops)
    used = set()
    for i in range(n_ops):
        op = [rnd.choice(OPS)]
        if op[0] in ("omit", "pick"):
            op.append(None)       # filled in at run time from the real field list (see fill_names)
        # the default class name <Operator><Source> only for the first operator of a chain (later names
        # would depend on which earlier steps succeed); the 'corners' stream uses default names throughout
        cname = None if (i == 0 and rnd.random() < 0.6) else "D%s_%d" % (tag, i)
        st = ["derive", cur, op, cname]
        nm = D.derived_name(st)
        used.add(nm)
        steps.append(st)
        cur = nm
        if rnd.random() < 0.25:
            # extend the derived class further with new fields
            ext = D.gen_stmt(rnd, "Ext%s_%d" % (tag, i), [cur], ["x%d" % i, "y%d" % i][:rnd.randint(1, 2)])
            ext["optional"] = None
            steps.append(["def", ext])
            if rnd.random() < 0.5:
                cur = ext["name"]
    return steps


# ------------------------------------------------------------------ running (names are chosen from the REAL field list)

def run_steps(rnd, steps, exhaustive=False, bad_last=False):
    """Executes step by step; Omit/Pick name lists left open (None) are drawn from the real field names of
    the source at that point.  Returns (program, outcomes, ns, probes)."""
    from typedpy.structures import TypedPyDefaults
    ns = D.fresh_ns()
    prog, outs = [], []
    for idx, st in enumerate(steps):
        st = [x for x in st]
        if st[0] == "derive" and st[2][0] in ("omit", "pick") and st[2][1] is None:
            srccls = ns.get(st[1])
            fields = list(srccls.get_all_fields_by_name().keys()) if srccls is not None else []
            st[2] = [st[2][0], gen_names(rnd, fields, bad=(bad_last and idx == len(steps) - 1) or rnd.random() < 0.06)]
        name = D.step_name(st)
        try:
            exec(D.step_src(st), ns)
        except Exception as ex:  # noqa
            ns.pop(name, None)
            prog.append(st)
            outs.append(("raise", E.exn_name(ex), repr(ex)[:200]))
            if st[0] == "def":
                break          # nothing can be built on a class that does not exist
            if st[0] == "derive":
                # later steps deriving from the missing class: retarget to the source of this one
                for later in steps[idx + 1:]:
                    if later[0] == "derive" and later[1] == name:
                        later[1] = st[1]
                    if later[0] == "def" and name in later[1]["bases"]:
                        later[1]["bases"] = [st[1] if b == name else b for b in later[1]["bases"]]
            continue
        prog.append(st)
        outs.append(("mixin", name) if st[0] == "mixin" else ("ok", D.observe(ns[name])))
    return prog, outs, ns


# ------------------------------------------------------------------ implementation-side clauses

def norm_exc(name):
    return "TE/VE" if name in ("TypeError", "ValueError", "InvalidStructureErr") else name


def outcome(cls, kwargs, n):
    try:
        inst = cls(**kwargs)
    except Exception as ex:  # noqa
        return ("raise", norm_exc(E.exn_name(ex)))
    try:
        v = inst.__dict__.get(n, ("<unset>",))
        if v == ("<unset>",):
            return ("ok", ("unset", repr(E.reify(getattr(inst, n)))))
        return ("ok", repr(E.reify(v)))
    except Exception as ex:  # noqa
        return ("raise-get", norm_exc(E.exn_name(ex)))


def base_kwargs(rnd, cls, fmap, tries=10):
    """Valid values for every (non-constant) field of cls, checked on the real class."""
    for _ in range(tries):
        kw = {}
        for n, f in fmap.items():
            if f is None:
                continue
            try:
                kw[n] = G.gen_valid(rnd, f, {})
            except Exception:  # noqa
                return None
        try:
            real = {k: G.unreify(v, {}) for k, v in kw.items()}
            cls(**real)
            return kw
        except Exception:  # noqa
            continue
    return None


def test_values(rnd, f, n_vals):
    vals = []
    for i in range(n_vals):
        try:
            v = G.gen_valid(rnd, f, {})
            if i % 3 == 1:
                v = G.corrupt(rnd, f, v, {})
            elif i % 3 == 2:
                v = G.gen_any(rnd)
        except Exception:  # noqa
            v = G.gen_any(rnd)
        vals.append(v)
    vals.append(("none",))
    return vals


def behaviour_clauses(rnd, S, Dc, fmap_s, op, n_vals, rep, report):
    """Every retained field accepts / rejects / normalises exactly as in the source, is the very same
    field object and keeps its default."""
    sf = S.get_all_fields_by_name()
    df = Dc.get_all_fields_by_name()
    n_eval = 0
    for n in df:
        if n in sf and df[n] is not sf[n]:
            report("C12/behaviour/%s/field-object-not-shared" % op[0], "field %r of %s is not the source's field object" % (n, Dc.__name__), {"field": n})
    base = base_kwargs(rnd, S, fmap_s)
    if base is None:
        return 0
    based = {k: v for k, v in base.items() if k in df}
    try:
        Dc(**{k: G.unreify(v, {}) for k, v in based.items()})
    except Exception as ex:  # noqa
        report("C12/behaviour/%s/derived-rejects-valid-instance" % op[0],
               "%s(**valid values of its fields) raises %r while the source accepts them" % (Dc.__name__, ex),
               {"kwargs": {k: G.py_src(v) for k, v in based.items()}})
        return 0
    sreq = set(getattr(S, "_required"))
    dreq = set(getattr(Dc, "_required"))
    for n in df:
        f = fmap_s.get(n)
        if f is None:
            continue
        for v in test_values(rnd, f, n_vals):
            if v[0] == "none" and ((n in sreq) != (n in dreq)):
                continue       # None handling legitimately follows requiredness
            try:
                pv = G.unreify(v, {})
            except Exception:  # noqa
                continue
            ks = {k: G.unreify(x, {}) for k, x in base.items()}
            ks[n] = pv
            kd = {k: G.unreify(x, {}) for k, x in based.items()}
            kd[n] = pv
            os_ = outcome(S, ks, n)
            od = outcome(Dc, kd, n)
            n_eval += 1
            if os_ != od:
                if v[0] == "none" and bool(getattr(S, "_ignore_none", False)) != bool(getattr(Dc, "_ignore_none", False)):
                    inherited = "_ignore_none" not in S.__dict__
                    key = "C12/ignore-none/%s/%s" % (op[0], "inherited-not-copied" if inherited else "own")
                else:
                    key = "C12/behaviour/%s/%s/%s" % (op[0], f["t"], v[0])
                report(key, "field %r given %s: source %s -> %s, derived %s -> %s" % (
                    n, G.py_src(v), S.__name__, os_, Dc.__name__, od),
                    {"field": n, "value": G.py_src(v), "source_outcome": os_, "derived_outcome": od})
    return n_eval


def class_probe(rnd_seed, cls, fmap):
    """A deterministic fingerprint of how a class behaves (for `source unchanged`)."""
    rnd = random.Random(rnd_seed)
    obs = D.observe(cls)
    outs = []
    base = base_kwargs(rnd, cls, fmap)
    if base is not None:
        for n, f in fmap.items():
            if f is None:
                continue
            for v in test_values(rnd, f, 3):
                try:
                    k = {a: G.unreify(x, {}) for a, x in base.items()}
                    k[n] = G.unreify(v, {})
                except Exception:  # noqa
                    continue
                outs.append((n, repr(v), outcome(cls, k, n)))
        outs.append(("<no args>", outcome(cls, {}, "a")))
    ids = {n: id(f) for n, f in cls.get_all_fields_by_name().items()}
    return obs, outs, ids


# ------------------------------------------------------------------ one program

def check_program(rnd, steps, rep, stream, n_vals, bad_last=False):
    """Runs a program on the implementation, evaluates the implementation-side clauses.
    Returns (prog, outcomes, findings) — findings = [(key, what, data)]."""
    findings = []
    prog, outs, ns = run_steps(rnd, steps, bad_last=bad_last)
    fmaps = D.field_ast_map(prog, ns)
    src_text = D.program_src(prog)

    def report(key, what, data):
        findings.append((key, what, dict(data, python=src_text, program=prog)))

    # source-unchanged: fingerprint every class right after the program and compare with a fingerprint
    # of the same class object re-created in a fresh namespace WITHOUT the later steps
    first_derive = next((i for i, st in enumerate(prog) if st[0] == "derive"), None)
    if first_derive is not None:
        ns0 = D.fresh_ns()
        for st in prog[:first_derive]:
            try:
                exec(D.step_src(st), ns0)
            except Exception:  # noqa
                pass
        for st in prog[:first_derive]:
            nm = D.step_name(st)
            if st[0] == "def" and nm in ns and nm in ns0:
                p_after = class_probe(12345, ns[nm], fmaps.get(nm, {}))
                p_fresh = class_probe(12345, ns0[nm], fmaps.get(nm, {}))
                rep.count(stream + ":source-unchanged", 1)
                if p_after[0] != p_fresh[0] or p_after[1] != p_fresh[1]:
                    diff = [x for x in zip(p_after[1], p_fresh[1]) if x[0] != x[1]][:3]
                    report("C12/source-changed/%s" % "+".join(sorted({s[2][0] for s in prog if s[0] == "derive"})),
                           "class %s behaves differently after deriving from it" % nm,
                           {"class": nm, "after": p_after[0], "fresh": p_fresh[0], "diff": repr(diff)})
    for st, o in zip(prog, outs):
        if st[0] != "derive":
            continue
        op = st[2]
        S = ns.get(st[1])
        rep.count(stream, 1, (op[0], len(op[1]) if len(op) > 1 else -1, o[0],
                              tuple(sorted(S.get_all_fields_by_name())) if S is not None else ()))
        rep.stat(stream, "op:" + op[0])
        rep.stat(stream, "outcome:" + (o[0] if o[0] == "ok" else o[1]))
        if o[0] != "ok" or S is None:
            continue
        Dc = ns.get(D.derived_name(st))
        if Dc is None:
            continue
        if issubclass(Dc, S):
            report("C12/subclass/%s" % op[0], "%s is a subclass of its source %s" % (Dc.__name__, S.__name__), {})
        n = behaviour_clauses(rnd, S, Dc, fmaps.get(st[1], {}), op, n_vals, rep, report)
        rep.count(stream + ":values", n)
    return prog, outs, findings, ns


def spec_key(prog, outs, step, clause, ns_info):
    st = prog[step]
    op = st[2][0]
    src_obs = None
    for s2, o2 in zip(prog[:step], outs[:step]):
        if D.step_name(s2) == st[1] and o2[0] == "ok":
            src_obs = o2[1]
    src_stmt = next((s2[1] for s2 in prog if s2[0] == "def" and s2[1]["name"] == st[1]), None)
    if clause == 2:
        defaulted = {n for n, d in (src_obs or {}).get("defaults", []) if d is not None}
        if src_obs and defaulted & set(src_obs["required"]) and outs[step][0] == "ok":
            # the known shape: the ONLY difference from the documented set are the required names of the
            # source whose (inherited) field carries a default
            names = set(st[2][1]) if len(st[2]) > 1 else set()
            req = set(src_obs["required"])
            doc = {"extend": req, "omit": req - names, "pick": req & names}.get(op)
            got = set(outs[step][1]["required"])
            if doc is not None and got == doc - defaulted:
                return "C12/required/%s/source-requires-inherited-defaulted-field" % op
        return "C12/required/%s" % op
    if clause == 6:
        o = outs[step]
        if op == "allreq" and src_obs and src_obs["consts"] and o[1] == "AttributeError":
            return "C12/AllFieldsRequired/constant-member/AttributeError"
        return "C12/%s/raises:%s" % (op, o[1])
    if clause == 7:
        inherited = src_stmt is not None and src_stmt.get("ignore_none") is None
        return "C12/ignore-none/%s/%s" % (op, "inherited-not-copied" if inherited else "own")
    if clause == 5:
        o = outs[step]
        return "C12/bad-name/%s/%s" % (op, "accepted" if o[0] == "ok" else o[1])
    return "C12/%s/%s" % (CLAUSE[clause], op)


def evaluate(cases, tag="c12"):
    """cases: [(prog, outs, guards)].  Returns per-case mismatch step lists, spec failures, unmodelled flags."""
    per = 60
    shards = []
    for s in range(0, len(cases), per):
        items = [D.emit_case(p, o, g) for p, o, g in cases[s:s + per]]
        body = "Definition cases : list dcase := %s.\n" % E.lst(["\n " + i for i in items])
        body += "Eval vm_compute in (map (fun c => map (fun i => (i, 0%nat)) (dmismatch_steps c)) cases).\n"
        body += "Eval vm_compute in (map c12_spec_fail cases).\n"
        body += "Eval vm_compute in (indices_where dunmodelled cases 0).\n"
        shards.append(body)
    res = core.eval_cases(shards, tag, D.HEADER)
    mism, spec, unm = [], [], []
    for si, (rc, so, se) in enumerate(res):
        vals = core.parse_eval(so)
        n_here = len(cases[si * per:(si + 1) * per])
        if rc != 0 or len(vals) != 3:
            raise RuntimeError("case shard %d failed to evaluate: %s" % (si, (so + se)[-1500:]))
        m = D.parse_list_of_pairlists(vals[0])
        sp = D.parse_list_of_pairlists(vals[1])
        if len(m) != n_here or len(sp) != n_here:
            raise RuntimeError("case shard %d: unexpected output shape %r" % (si, vals[0][:300]))
        mism += [[a for a, _ in x] for x in m]
        spec += sp
        unm += [si * per + i for i in core.parse_nat_list(vals[2])]
    return mism, spec, unm


# ------------------------------------------------------------------ entry points

def subsets_program(rnd, tag, max_fields):
    """One source with <= max_fields fields and EVERY subset of its names through Omit and Pick."""
    steps, src = gen_source(rnd, tag, False)
    return steps, src


def run(rep, tier):
    rnd = random.Random(core.seed() * 1000003 + 12)
    proofs_ok, model_ok = core.standard_proof_obligations(rep, "C12", ["theories/Check/Defchk.vo"])
    quick = tier == "quick"
    n_chain = 260 if quick else 1200
    n_subsets = 5 if quick else 24
    max_ops = 3 if quick else 6
    n_vals = 5 if quick else 8
    cases = []
    all_findings = []
    # stream 1: operator chains (with further extension, occasional bad names)
    for i in range(n_chain):
        steps = gen_chain_program(rnd, "c%d" % i, max_ops)
        prog, outs, fnd, _ = check_program(rnd, steps, rep, "chain", n_vals, bad_last=(i % 9 == 0))
        cases.append((prog, outs, (True, True)))
        all_findings += fnd
    # stream 2: all subsets of the field names of a source (<= 5 fields), Omit and Pick
    for i in range(n_subsets):
        steps, src = gen_source(rnd, "s%d" % i, False)
        ns = D.fresh_ns()
        ok = True
        for st in steps:
            try:
                exec(D.step_src(st), ns)
            except Exception:  # noqa
                ok = False
        if not ok:
            continue
        fields = list(ns[src].get_all_fields_by_name().keys())
        k = 0
        for r in range(len(fields) + 1):
            for sub in itertools.combinations(fields, r):
                for opn in ("omit", "pick"):
                    steps.append(["derive", src, [opn, list(sub)], "S%d_%d" % (i, k)])
                    k += 1
        prog, outs, fnd, _ = check_program(rnd, steps, rep, "subsets", 2 if quick else 4)
        cases.append((prog, outs, (True, True)))
        all_findings += fnd
    # stream 3: every operator on sources with constants / inherited settings (the corners)
    for i in range(20 if quick else 80):
        steps, src = gen_source(rnd, "k%d" % i, True)
        for st in steps:
            if st[0] == "def" and st[1]["name"] == src and rnd.random() < 0.6:
                st[1]["members"].append({"name": "kc", "kind": "const", "value": E.reify(rnd.choice([1, "v", True]))})
        for j, opn in enumerate(OPS):
            op = [opn] + ([None] if opn in ("omit", "pick") else [])
            steps.append(["derive", src, op, None])
        prog, outs, fnd, _ = check_program(rnd, steps, rep, "corners", n_vals)
        cases.append((prog, outs, (True, True)))
        all_findings += fnd
    for key, what, data in all_findings:
        rep.finding(key, what, data)
    rep.obligation("spec-on-implementation:behaviour/identity/source-unchanged", not all_findings,
                   "%d programs, %d disagreements" % (len(cases), len(all_findings)))
    sample_i = [0, len(cases) // 2, len(cases) - 1]
    for i in sample_i:
        rep.sample({"program": D.program_src(cases[i][0])[len(D.IMPORTS):][:1500],
                    "outcomes": [o[0] if o[0] != "raise" else o[1] for o in cases[i][1]]})
    if model_ok:
        try:
            mism, spec, unm = evaluate(cases)
        except RuntimeError as ex:
            rep.broken("correspondence:define/coq-eval", str(ex))
            mism = None
        if mism is not None:
            n_steps = sum(len(p) for p, _, _ in cases)
            rep.cov["streams"].setdefault("chain", {})["programs"] = len(cases)
            rep.cov["streams"]["chain"]["steps_compared_in_coq"] = n_steps
            rep.cov["streams"]["chain"]["outside_model_domain_skipped"] = len(unm)
            n_spec = 0
            for ci, fails in enumerate(spec):
                prog, outs, _ = cases[ci]
                for step, clause in fails:
                    n_spec += 1
                    key = spec_key(prog, outs, step, clause, None)
                    rep.finding(key, "documented %s of %s[%s] not observed: source %s, derived %s" % (
                        CLAUSE[clause], D.OP_CLS[prog[step][2][0]], prog[step][1],
                        next((o[1] for s2, o in zip(prog, outs) if D.step_name(s2) == prog[step][1] and o[0] == "ok"), None),
                        outs[step][1] if outs[step][0] == "ok" else outs[step][1:]),
                        {"program": prog, "step": step, "clause": CLAUSE[clause], "python": D.program_src(prog)})
            rep.obligation("spec-on-observed:doc_fields/doc_required", n_spec == 0,
                           "%d derivations checked against the documented sets in Coq, %d clause failures" % (
                               sum(1 for p, _, _ in cases for s in p if s[0] == "derive"), n_spec))
            bad = [(ci, m) for ci, m in enumerate(mism) if m]
            rep.obligation("correspondence:define+derive", not bad, "%d programs (%d steps), %d with mismatches" % (
                len(cases), n_steps, len(bad)))
            if len(unm) * 5 > len(cases):
                rep.broken("correspondence:define/domain", "%d of %d programs fall outside the model" % (len(unm), len(cases)))
            if bad and not any(not v["no_input"] for v in rep.violations):
                ci, m = bad[0]
                prog, outs, _ = cases[ci]
                rep.broken("correspondence:define+derive",
                           "model (Struct/Define.v, Struct/Derive.v) and typedpy differ on %d generated programs "
                           "(first: step %s); no clause of C12 failed on any explored input" % (len(bad), m),
                           {"python": D.program_src(prog), "steps": m,
                            "observed": [o[1] if o[0] != "mixin" else None for o in (outs[i] for i in m)]})
    if not proofs_ok:
        from harness.props.c17 import broken_build
        broken_build(rep)
    rep.assumptions += [
        "re.match is an oracle (Section variable), instantiated per case from the real re module (default validation)",
        "class objects are modelled as values keyed by class name; every class of a program has its own name",
        "field declarations of the sources contain no class references (defaults are validated with an empty class environment)",
    ]
    return rep.finish(
        rule="programs = source class (mutable / immutable / final / with inheritance, mix-in, defaults, _required/_optional, "
             "_ignore_none own or inherited, constants) followed by operator chains (<= %d operators, explicit or default class "
             "names, further class statements extending the derived class), all subsets of <= 5 field names through Omit and "
             "Pick, bad names; per derivation: sets compared in Coq, %d values per retained field compared source vs derived; "
             "distinct = distinct (operator, #names, outcome, source field set)" % (max_ops, n_vals + 1))


def replay(obj):
    """Re-runs the recorded program on the implementation and prints what the clause in question observes."""
    prog = obj.get("program")
    if not prog:
        print(obj.get("detail", "no program recorded"))
        return 2
    rnd = random.Random(7)
    rep = core.Report("C12", "quick")
    prog2, outs, findings, ns = check_program(rnd, prog, rep, "replay", 6)
    print(D.program_src(prog2)[len(D.IMPORTS):])
    for st, o in zip(prog2, outs):
        print(" ", D.step_name(st), "->", o[1] if o[0] != "mixin" else "mixin")
    bad = 0
    for key, what, _ in findings:
        print("implementation-side clause fails:", key, "|", what)
        bad = 1
    try:
        mism, spec, unm = evaluate([(prog2, outs, (True, True))], tag="c12replay")
        for step, clause in spec[0]:
            print("documented-set clause fails at step %d: %s" % (step, CLAUSE[clause]))
            bad = 1
        if mism[0]:
            print("model/implementation mismatch at steps", mism[0])
    except RuntimeError as ex:
        print(ex)
    want = obj.get("finding_key")
    print("recorded finding:", want)
    return bad
