"""C16 — generated .pyi stubs parse and agree with the runtime constructor signatures.  (PARTIAL)

Proof obligations: Props/C16.v — theorems over ALL class definitions of the model
(Stubs/Signature.v = StructMeta.__new__/get_base_info/make_signature; Stubs/StubModel.v =
get_all_type_info/_get_ordered_args/get_init/get_additional_structure_methods).
Tie to the code: generated modules are written under .work/, the real create_stub_for_file runs
on them in one subprocess per PYTHONHASHSEED in {0,1,2,3}; the .pyi is parsed with `ast`; per
Structure class the parsed stub, inspect.signature, _required, _constants are compared with the
model inside Coq (vm_compute).  Runtime facts the theorems do not decide (the text parses,
every class appears, enum member names, byte-identity across hash seeds) and the statement's own
clauses (stub vs. signature / constructor behaviour) are evaluated here on the implementation."""
import ast
import json
import os
import random
import re
import subprocess

from harness import core
from harness import coqemit as E

# ------------------------------------------------------------------ field types of the generator
# tok: how the real generator renders the type: "plain" | "optbare" ("Optional[X]") | "optnone" ("Optional[X] = None": no type now)
# auto_opt: a typing.Optional annotation (StructMeta adds the name to _optional by itself)
# bad: the rendered string does not parse inside a signature
FT = {}


def _ft(id, annot, assign, sample, default=None, tok="plain", auto_opt=False, bad=None, cat=None):
    FT[id] = dict(id=id, annot=annot, assign=assign, sample=sample, default=default, tok=tok,
                  auto_opt=auto_opt, bad=bad, cat=cat or id)


_ft("int", "int", "Integer()", "3", "7")
_ft("str", "str", "String()", "'s'", "'d'")
_ft("Integer", "Integer", "Integer(minimum=0)", "4", "5")
_ft("PositiveInt", "PositiveInt", "PositiveInt()", "4", "5")
_ft("String", "String", "String(minLength=1)", "'s'", "'dd'")
_ft("float", "float", "Float()", "2.5", "1.5")
_ft("bool", "bool", "Boolean()", "False", "True")
_ft("boolF", "bool", "Boolean()", "True", "False")
_ft("Array", "Array[Integer]", "Array(items=Integer())", "[1, 2]")
_ft("ArrayStr", "Array[String]", "Array(items=String(), minItems=0)", "['a']")
_ft("Set", "Set[Integer]", "Set(items=Integer())", "{1}")
_ft("Tuple", "Tuple[Integer, String]", "Tuple(items=[Integer(), String()])", "(1, 'a')")
_ft("Deque", "Deque[Integer]", "Deque(items=Integer())", "__import__('collections').deque([1])")
_ft("Map", "Map[String, Array[Integer]]", "Map(items=[String(), Array(items=Integer())])", "{'k': [1]}")
_ft("MapMap", "Map[String, Map[String, Integer]]", None, "{'k': {'j': 1}}")
_ft("ArrayArray", "Array[Array[Integer]]", None, "[[1]]")
_ft("DictTyping", "Dict[str, List[int]]", None, "{'k': [1]}")
_ft("ListTyping", "List[str]", None, "['a']")
_ft("list", "list", None, "[1]")
_ft("dict", "dict", None, "{'a': 1}")
_ft("Enum", "Enum[Color]", "Enum(values=Color)", "Color.GREEN", "Color.RED")
_ft("EnumStr", None, "Enum(values=['x', 'y'])", "'x'")
_ft("Leaf", "Leaf", None, "Leaf(x=1)")
_ft("ArrayLeaf", "Array[Leaf]", None, "[Leaf(x=1)]")
_ft("Anything", "Anything", "Anything()", "1")
_ft("DateString", "DateString", "DateString()", "'2020-01-01'")
_ft("DateField", "DateField", "DateField()", "__import__('datetime').date(2020, 1, 2)")
_ft("DateTime", "DateTime", "DateTime()", "__import__('datetime').datetime(2020, 1, 2, 3, 4, 5)")
_ft("Decimal", "DecimalNumber", "DecimalNumber()", "__import__('decimal').Decimal('1.5')")
_ft("AnyOf2", "AnyOf[Integer, String]", "AnyOf(fields=[Integer(), String()])", "1")
_ft("AnyOf3N", "AnyOf[Integer, String, None]", None, "'s'")
_ft("Union", "Union[int, str]", None, "1")
# rendered "Optional[X]"; the "= None" follows _required alone (it was part of the type text, whatever _required said)
_ft("AnyOfNone", "AnyOf[Integer, None]", "AnyOf(fields=[Integer(), NoneField()])", "1", tok="optbare", cat="multi-with-None")
_ft("OneOfNone", "OneOf[String, None]", None, "'s'", tok="optbare", cat="multi-with-None")
_ft("AnyOfLeafNone", "AnyOf[Leaf, None]", None, "Leaf(x=1)", tok="optbare", cat="multi-with-None")
# typing.Optional: optional by itself
_ft("OptInt", "Optional[int]", None, "1", tok="optbare", auto_opt=True, cat="typing-optional")
_ft("OptList", "Optional[List[int]]", None, "[1]", tok="optbare", auto_opt=True, cat="typing-optional")
_ft("OptLeaf", "Optional[Leaf]", None, "Leaf(x=1)", tok="optbare", auto_opt=True, cat="typing-optional")
# an Optional nested inside brackets: "dict[str, Optional[int]]" (it was "dict[str, Optional[int] = None]", which does not
# parse: such declarations were kept to a few modules; they are ordinary field types now)
_ft("MapOfOpt", "Map[String, AnyOf[Integer, None]]", None, "{'k': 1}", cat="nested-optional")
_ft("SetOfOpt", "Array[Map[String, AnyOf[String, None]]]", None, "[{'k': 's'}]", cat="nested-optional")

COMMON = ["int", "str", "Integer", "String", "float", "bool", "Array", "Map", "Enum", "Leaf", "OptInt",
          "AnyOfNone", "list", "Set", "ArrayLeaf", "int", "str", "DateField", "Decimal", "Deque", "DateTime"]
FIELD_NAMES = ["a", "b", "c", "d", "e", "f", "g", "h", "name", "kind", "items", "value", "id", "count",
               "x", "y", "data", "size", "tags", "owner"]
RESERVED = ["cls", "source_object", "ignore_props"]
ENUM_MEMBERS = ["RED", "GREEN", "BLUE", "low", "HIGH", "mid", "A1", "b_2", "none_", "Other"]

HEADER_SRC = """import dataclasses
import enum
import typing
from typing import Optional, List, Dict, Union
from typedpy import (Structure, ImmutableStructure, Integer, PositiveInt, String, Float, Boolean, Array, Set,
                     Tuple, Deque, Map, Enum, AnyOf, OneOf, AllOf, NoneField, Anything, DateString, Constant,
                     DateField, DateTime, DecimalNumber,
                     Partial, Omit, Pick, Extend, AllFieldsRequired)


class Color(enum.Enum):
    RED = 1
    GREEN = 2
    BLUE = 3


class Leaf(Structure):
    x: int
    _additional_properties = False

"""


# ------------------------------------------------------------------ generator

def resolved_fields(cls_by_name, c):
    """name -> field decl (last definition wins, dict.update order) for a class AST."""
    out = {}
    b = c["base"]
    if b[0] == "cls":
        out.update(resolved_fields(cls_by_name, cls_by_name[b[1]]))
    elif b[0] in ("partial", "extend", "allreq"):
        out.update(resolved_fields(cls_by_name, cls_by_name[b[1]]))
    elif b[0] == "omit":
        out.update({k: v for k, v in resolved_fields(cls_by_name, cls_by_name[b[1]]).items() if k not in b[2]})
    elif b[0] == "pick":
        out.update({k: v for k, v in resolved_fields(cls_by_name, cls_by_name[b[1]]).items() if k in b[2]})
    for f in c["fields"]:
        out[f["name"]] = f
    return out


def gen_field(rnd, name, allow_bad, allow_default=True):
    r = rnd.random()
    if r < 0.10:
        return {"name": name, "kind": "const", "type": None, "style": "assign", "default": False,
                "const": rnd.choice(["3", "'k'", "Color.BLUE", "True", "2.5"])}
    tid = rnd.choice(COMMON) if rnd.random() < 0.6 else rnd.choice(sorted(FT))
    t = FT[tid]
    if t["bad"] and not allow_bad:
        tid = "Map"
        t = FT[tid]
    styles = [s for s in ("annot", "assign") if t[s]]
    style = rnd.choice(styles)
    default = allow_default and t["default"] is not None and rnd.random() < 0.3
    return {"name": name, "kind": "field", "type": tid, "style": style, "default": default}


def gen_class(rnd, idx, prior, cls_by_name, flags):
    name = "S%d" % idx
    c = {"name": name, "base": ["struct"], "fields": [], "required": None, "optional": None,
         "additional": None, "old_spelling": False, "custom_init": False, "extras": []}
    cands = [p for p in prior if not p.get("final")]
    r = rnd.random()
    if cands and r < 0.40:
        c["base"] = ["cls", rnd.choice(cands)["name"]]
    elif prior and r < 0.62:
        src = rnd.choice(prior)
        names = [k for k, f in resolved_fields(cls_by_name, src).items()]
        op = rnd.choice(["partial", "omit", "pick", "extend", "allreq"])
        if op in ("omit", "pick") and names:
            sel = rnd.sample(names, rnd.randint(1, max(1, len(names) // 2)))
            c["base"] = [op, src["name"], sorted(sel)]
        elif op in ("partial", "extend", "allreq"):
            c["base"] = [op, src["name"]]
    elif r < 0.70:
        c["base"] = ["immutable"]
        c["final"] = True
    inherited = resolved_fields(cls_by_name, c)
    pool = [n for n in FIELD_NAMES]
    if flags.get("reserved"):
        pool = pool + RESERVED * 3
    nf = rnd.choice([0, 1, 2, 2, 3, 3, 4, 5, 7]) if c["base"][0] != "struct" else rnd.choice([1, 2, 3, 3, 4, 5, 6, 9])
    used = set()
    for _ in range(nf):
        if inherited and rnd.random() < 0.2:
            n = rnd.choice(sorted(inherited))          # override an inherited name
        else:
            n = rnd.choice(pool)
        if n in used:
            continue
        used.add(n)
        c["fields"].append(gen_field(rnd, n, flags.get("bad")))
    allf = resolved_fields(cls_by_name, c)
    own = [f["name"] for f in c["fields"]]
    r = rnd.random()
    if r < 0.25 and allf:
        k = rnd.randint(0, min(3, len(allf)))
        c["required"] = sorted(rnd.sample(sorted(allf), k))
    elif r < 0.40 and own:
        c["optional"] = sorted(rnd.sample(own, rnd.randint(1, min(2, len(own)))))
    r = rnd.random()
    if r < 0.2:
        c["additional"] = True
    elif r < 0.45:
        c["additional"] = False
    c["old_spelling"] = c["additional"] is not None and rnd.random() < 0.2
    if rnd.random() < 0.12:
        c["custom_init"] = True
        c["final"] = True
    if rnd.random() < 0.3:
        c["extras"] = rnd.sample(["method", "property", "static", "classmethod", "dunder"], rnd.randint(1, 2))
    return c


def class_src(c):
    b = c["base"]
    base = {"struct": "Structure", "immutable": "ImmutableStructure"}.get(b[0])
    if b[0] == "cls":
        base = b[1]
    elif b[0] in ("partial", "extend", "allreq"):
        base = {"partial": "Partial", "extend": "Extend", "allreq": "AllFieldsRequired"}[b[0]] + "[%s]" % b[1]
    elif b[0] in ("omit", "pick"):
        base = "%s[%s, (%s,)]" % (b[0].capitalize(), b[1], ", ".join(repr(x) for x in b[2]))
    lines = ["class %s(%s):" % (c["name"], base)]
    for f in c["fields"]:
        if f["kind"] == "const":
            lines.append("    %s = Constant(%s)" % (f["name"], f["const"]))
            continue
        t = FT[f["type"]]
        if f["style"] == "annot":
            lines.append("    %s: %s%s" % (f["name"], t["annot"], (" = " + t["default"]) if f["default"] else ""))
        else:
            a = t["assign"]
            if f["default"]:
                a = a[:-1] + ("" if a[:-1].endswith("(") else ", ") + "default=%s)" % t["default"]
            lines.append("    %s = %s" % (f["name"], a))
    if c["required"] is not None:
        lines.append("    _required = %r" % (c["required"],))
    if c["optional"] is not None:
        lines.append("    _optional = %r" % (c["optional"],))
    if c["additional"] is not None:
        lines.append("    %s = %r" % ("_additionalProperties" if c["old_spelling"] else "_additional_properties",
                                     c["additional"]))
    if c["custom_init"]:
        lines.append("    def __init__(self, first=None, *, flag: bool = False, **kw):")
        lines.append("        super().__init__(**kw)")
    for x in c["extras"]:
        if x == "method":
            lines += ["    def total(self, factor: int = 1, *rest, named: Optional[str] = None) -> int:", "        return 0"]
        elif x == "property":
            lines += ["    @property", "    def label(self) -> str:", "        return 'x'"]
        elif x == "static":
            lines += ["    @staticmethod", "    def make(n: int, m=2) -> 'Leaf':", "        return Leaf(x=n)"]
        elif x == "classmethod":
            lines += ["    @classmethod", "    def build(cls, *args, **kwargs):", "        return cls(*args, **kwargs)"]
        elif x == "dunder":
            lines += ["    def __len__(self):", "        return 0"]
    if len(lines) == 1:
        lines.append("    pass")
    return "\n".join(lines) + "\n\n"


def gen_extras(rnd, idx, future=False):
    """enums, plain classes, dataclasses, functions, module constants (source text, enum table)."""
    src = []
    enums = {}
    for i in range(rnd.choice([0, 1, 1, 2])):
        en = "E%d" % i
        members = rnd.sample(ENUM_MEMBERS, rnd.randint(1, 5))
        enums[en] = members
        kind = rnd.choice(["enum.Enum", "enum.Enum", "enum.IntEnum", "str, enum.Enum"])
        src.append("class %s(%s):" % (en, kind))
        for j, m in enumerate(members):
            v = repr(m.lower()) if kind.startswith("str") else str(j + 1)
            src.append("    %s = %s" % (m, v))
        if rnd.random() < 0.3:
            src += ["    def describe(self) -> str:", "        return self.name"]
        src.append("")
    for i in range(rnd.choice([0, 1, 1, 2])):
        src.append("class Plain%d%s:" % (i, rnd.choice(["", "(object)", "" if i == 0 else "(Plain0)"])))
        if rnd.random() < 0.7:
            src += ["    def __init__(self, q: int, w=None, *more, key: str = 'k', **opts):",
                    "        self.q = q", "        self.w: Optional[str] = w"]
        src += ["    LIMIT = 10", "    def meth(self, a: str, b: List[int] = None) -> Dict[str, int]:",
                "        return {}", ""]
    for i in range(rnd.choice([0, 1, 1]) if not future else rnd.choice([0, 0, 0, 1])):
        src += ["@dataclasses.dataclass", "class DC%d:" % i, "    x: int", "    y: str = 'a'",
                "    z: Optional[List[int]] = None", ""]
    fsigs = ["(a: int, b: Optional[str] = None, *args, k=1, **kw) -> int",
             "()", "(x, y=2)", "(*, only: bool = False) -> None", "(p: 'Leaf', q: List[Leaf] = None) -> Leaf",
             "(a: Dict[str, int], /, b: float = 1.0)", "(cb: typing.Callable[[int], str] = None)"]
    for i in range(rnd.choice([0, 1, 2, 3])):
        src += ["def func%d%s:" % (i, rnd.choice(fsigs)), "    return None", ""]
    consts = ["LIMIT = 5", "NAME: str = 'abc'", "RATIO = 0.5", "FLAG = True", "TABLE = {'a': 1}", "ITEMS = [1, 2]",
              "NOTHING = None", "PAIR = (1, 2)", "TAGS: List[str] = []", "T = typing.TypeVar('T')"]
    for cst in rnd.sample(consts, rnd.randint(0, 4)):
        src.append(cst)
    src.append("")
    return "\n".join(src) + "\n", enums


def try_define(ns, src, apd):
    from typedpy import Structure
    from typedpy.structures.defaults import TypedPyDefaults
    saved = TypedPyDefaults.additional_properties_default
    try:
        Structure.set_additional_properties_default(apd)
        exec(src, ns)
        return None
    except Exception as e:  # noqa
        return "%s: %s" % (type(e).__name__, e)
    finally:
        Structure.set_additional_properties_default(saved)


def gen_module(rnd, mi):
    """A module AST: accepted classes (their class statements succeed on the real typedpy),
    rejected candidates (definition raises), extras."""
    apd = rnd.random() < 0.6
    future = rnd.random() < 0.08
    flags = {"bad": rnd.random() < 0.06, "reserved": rnd.random() < 0.03}
    ns = {"__name__": "c16_gen_probe_%d" % mi}
    err = try_define(ns, ("from __future__ import annotations\n" if future else "") + HEADER_SRC, apd)
    if err:
        raise RuntimeError("header does not import: " + err)
    accepted, rejected = [], []
    cls_by_name = {}
    n = rnd.choice([2, 3, 4, 5, 6, 7, 8])
    idx = 0
    for _ in range(n):
        c = gen_class(rnd, idx, accepted, cls_by_name, flags)
        idx += 1
        cls_by_name[c["name"]] = c
        err = try_define(ns, ("from __future__ import annotations\n" if future else "") + class_src(c), apd)
        if err is None:
            accepted.append(c)
        else:
            c["error"] = err
            rejected.append(c)
    extras, enums = gen_extras(rnd, mi, future)
    imports = [x for x in ("collections", "datetime", "decimal") if rnd.random() < 0.08]
    return {"name": "m%d" % mi, "imports": imports, "apd": apd, "classes": accepted, "rejected": rejected, "extras": extras,
            "enums": enums, "flags": flags, "future": future}


def module_src(m):
    order = m["classes"]
    pre = ("from __future__ import annotations\n" if m.get("future") else "") + "".join("import %s\n" % x for x in m.get("imports", []))
    return pre + HEADER_SRC + m["extras"] + "".join(class_src(c) for c in order)


def samples_for(m):
    by = {c["name"]: c for c in m["classes"] + m["rejected"]}
    out = {}
    for c in m["classes"]:
        s = {}
        for n, f in resolved_fields(by, c).items():
            if f["kind"] == "field":
                s[n] = FT[f["type"]]["sample"]
        out[c["name"]] = s
    return out


# ------------------------------------------------------------------ model terms

def body_of_ast(c):
    fields = []
    opt = set(c["optional"] or [])
    # class-body dict order: names bound by an assignment in the body come first (in source order),
    # annotation-only names are added afterwards by add_annotations_to_class_dict
    bound = [f for f in c["fields"] if f["kind"] == "const" or f["style"] == "assign" or f["default"]]
    for f in bound + [f for f in c["fields"] if f not in bound]:
        if f["kind"] == "const":
            fields.append((f["name"], True, False, "plain"))
        else:
            t = FT[f["type"]]
            fields.append((f["name"], False, f["default"], t["tok"]))
            if t["auto_opt"] and f["style"] == "annot":
                opt.add(f["name"])
    return {"fields": fields, "required": c["required"], "optional": sorted(opt), "additional": c["additional"]}


def hier_of(m, c, facts_by_cls):
    """Model hierarchy (leaf first) of class AST c.  Levels created by Partial/Omit/Pick/Extend/
    AllFieldsRequired are reified from the class object typedpy built (its own dict), with the
    type tokens looked up by field name in the source class."""
    by = {x["name"]: x for x in m["classes"] + m["rejected"]}
    out = [body_of_ast(c)]
    b = c["base"]
    if b[0] == "cls":
        rest = hier_of(m, by[b[1]], facts_by_cls)
        if rest is None:
            return None
        out += rest
    elif b[0] in ("partial", "omit", "pick", "extend", "allreq"):
        fc = facts_by_cls.get(c["name"])
        if fc is None or len(fc["mro"]) < 2:
            return None
        lvl = fc["mro"][1]
        src_fields = resolved_fields(by, by[b[1]])
        fields = []
        for f in lvl["fields"]:
            sf = src_fields.get(f["name"])
            tok = "plain" if (sf is None or sf["kind"] == "const") else FT[sf["type"]]["tok"]
            fields.append((f["name"], f["const"], f["default"], tok))
        out.append({"fields": fields, "required": lvl["required"], "optional": lvl["optional"],
                    "additional": lvl["additional"]})
    return out


def emit_body(b):
    tok = {"plain": "TPlain", "optnone": "TOptNone", "optbare": "TOptBare"}
    fs = ["{| f_name := %s; f_kind := %s; f_default := %s; f_tok := %s |}" %
          (E.pstr(n), "KConst" if k else "KField", E.blit(d), tok[t]) for n, k, d, t in b["fields"]]
    return "{| b_fields := %s; b_required := %s; b_optional := %s; b_additional := %s |}" % (
        E.lst(fs), E.opt(b["required"], lambda r: E.lst([E.pstr(x) for x in r])),
        E.lst([E.pstr(x) for x in b["optional"]]), E.opt(b["additional"], E.blit))


def emit_method(mt):
    if mt is None:
        return "None"
    ps, kw = mt
    return "(Some (%s, %s))" % (E.lst(["(%s, %s)" % (E.pstr(n), E.blit(d)) for n, d in ps]), E.blit(kw))


def emit_case(hier, apd, o):
    return ("(%s, %s, {| o_def_ok := %s; o_sig := %s; o_sig_kw := %s; o_required := %s; o_consts := %s; "
            "o_fields := %s; o_init := %s; o_clone := %s; o_other := %s; o_trusted := %s |})") % (
        E.lst([emit_body(b) for b in hier]), E.blit(apd), E.blit(o["def_ok"]),
        E.lst(["(%s, %s)" % (E.pstr(n), E.blit(d)) for n, d in o["sig"]]), E.blit(o["sig_kw"]),
        E.lst([E.pstr(x) for x in o["required"]]), E.lst([E.pstr(x) for x in o["consts"]]),
        E.lst([E.pstr(x) for x in o["fields"]]),
        emit_method(o["init"]), emit_method(o["clone"]), emit_method(o["other"]), emit_method(o["trusted"]))


HEADER = """From Coq Require Import NArith String List Bool. Import ListNotations.
From TP Require Import Check.C16chk.
Local Open Scope string_scope.
"""


# ------------------------------------------------------------------ parsing the stub

def split_chunks(text):
    """Top-level statements of the stub as (first line number, text) chunks."""
    chunks = []
    cur = None
    for i, line in enumerate(text.split("\n")):
        top = bool(line) and not line[0].isspace() and not line.startswith(")")
        if top and not (cur is not None and cur[1] and cur[1][-1].startswith("@")):
            cur = [i + 1, [line]]
            chunks.append(cur)
        elif cur is not None:
            cur[1].append(line)
    return [(n, "\n".join(ls)) for n, ls in chunks]


def fn_params(fn):
    a = fn.args
    pos = a.posonlyargs + a.args
    d = [None] * (len(pos) - len(a.defaults)) + list(a.defaults)
    p = [(x.arg, dv is not None) for x, dv in zip(pos, d)]
    k = [(x.arg, dv is not None) for x, dv in zip(a.kwonlyargs, a.kw_defaults)]
    return p, k, a.vararg is not None, a.kwarg is not None


def class_info(node):
    info = {"methods": {}, "assigns": [], "annots": []}
    for st in node.body:
        if isinstance(st, (ast.FunctionDef, ast.AsyncFunctionDef)):
            info["methods"].setdefault(st.name, []).append(fn_params(st))
        elif isinstance(st, ast.Assign):
            info["assigns"] += [t.id for t in st.targets if isinstance(t, ast.Name)]
        elif isinstance(st, ast.AnnAssign) and isinstance(st.target, ast.Name):
            info["annots"].append(st.target.id)
    info["bases"] = [ast.unparse(b) for b in node.bases]
    info["pass_body"] = all(isinstance(st, ast.Pass) for st in node.body)
    return info


def parse_stub(text):
    """-> (syntax error or None, {class name: info}, [(class name or None, line, message, line text)])."""
    errors = []
    classes = {}
    err = None
    try:
        tree = ast.parse(text)
        for node in tree.body:
            if isinstance(node, ast.ClassDef):
                classes[node.name] = class_info(node)
        return None, classes, errors
    except SyntaxError as e:
        err = e
    lines = text.split("\n")
    for start, chunk in split_chunks(text):
        m = re.match(r"class (\w+)", chunk)
        try:
            tree = ast.parse(chunk)
        except SyntaxError as e:
            ln = start + (e.lineno or 1) - 1
            errors.append((m.group(1) if m else None, ln, e.msg, lines[ln - 1] if 0 < ln <= len(lines) else ""))
            continue
        for node in tree.body:
            if isinstance(node, ast.ClassDef):
                classes[node.name] = class_info(node)
    if not errors:
        errors.append((None, err.lineno or 0, err.msg, lines[(err.lineno or 1) - 1] if lines else ""))
    return err, classes, errors


def stub_methods(info):
    """(init, clone, other, trusted) as (params [(name, has_default)], has **) or None."""
    def one(name, skip_pos, skip_kw):
        ms = info["methods"].get(name)
        if not ms or len(ms) != 1:
            return None
        p, k, va, kw = ms[0]
        return (p[skip_pos:] + k[skip_kw:], kw), (p[:skip_pos] + k[:skip_kw])
    return {"init": one("__init__", 1, 0), "clone": one("shallow_clone_with_overrides", 1, 0),
            "other": one("from_other_class", 2, 1), "trusted": one("from_trusted_data", 2, 1)}


# ------------------------------------------------------------------ running the real generator

RUNNER = "harness.c16_runner"


def run_batches(work, modules, hash_seeds=(0, 1, 2, 3)):
    src_root = os.path.join(work, "src")
    pkg = os.path.join(src_root, "pkg")
    os.makedirs(pkg, exist_ok=True)
    assert "/.work/" in os.path.realpath(pkg) + "/"
    jobs = []
    for m in modules:
        path = os.path.join(pkg, m["name"] + ".py")
        with open(path, "w") as f:
            f.write(module_src(m))
        jobs.append({"name": m["name"], "path": path, "apd": m["apd"], "samples": samples_for(m)})
    procs = []
    for hs in hash_seeds:
        stubs_root = os.path.join(work, "stubs%d" % hs)
        os.makedirs(stubs_root, exist_ok=True)
        jp = os.path.join(work, "job%d.json" % hs)
        op = os.path.join(work, "out%d.json" % hs)
        json.dump({"src_root": src_root, "stubs_root": stubs_root, "facts": hs == hash_seeds[0], "modules": jobs},
                  open(jp, "w"))
        env = dict(os.environ, PYTHONHASHSEED=str(hs), PYTHONDONTWRITEBYTECODE="1")
        procs.append((hs, op, stubs_root, subprocess.Popen(
            ["timeout", "600", core.PY, "-m", RUNNER, jp, op], cwd=core.VERIF, env=env,
            stdout=subprocess.PIPE, stderr=subprocess.PIPE, text=True)))
    out = {}
    for hs, op, stubs_root, p in procs:
        so, se = p.communicate()
        res = None
        if p.returncode == 0 and os.path.exists(op):
            res = json.load(open(op))
        out[hs] = {"rc": p.returncode, "stderr": se[-2000:], "result": res, "stubs_root": stubs_root}
    return out


def read_stub(stubs_root, name):
    p = os.path.join(stubs_root, "pkg", name + ".pyi")
    try:
        return open(p, encoding="UTF-8").read()
    except OSError:
        return None


# ------------------------------------------------------------------ the statement's clauses on the implementation

def field_category(m, cname, fname):
    by = {x["name"]: x for x in m["classes"] + m["rejected"]}
    f = resolved_fields(by, by[cname]).get(fname)
    if f is None:
        return "unknown-field"
    if f["kind"] == "const":
        return "constant"
    return FT[f["type"]]["cat"] if FT[f["type"]]["tok"] != "plain" or FT[f["type"]]["bad"] else "plain-type"


def inherits_additional(m, c):
    """(own flag, first flag found in the ancestors) of a class AST."""
    by = {x["name"]: x for x in m["classes"] + m["rejected"]}
    inh = None
    b = c["base"]
    while b[0] == "cls":
        p = by[b[1]]
        if p["additional"] is not None:
            inh = p["additional"]
            break
        b = p["base"]
    return c["additional"], inh


def check_class(m, c, facts, info, rep_finding):
    """Evaluate C16's clauses for one Structure class.  rep_finding(key, what, detail)."""
    cname = c["name"]
    sig = [(n, d) for n, d, k in facts["sig"] if k != "VAR_KEYWORD"]
    sig_kw = any(k == "VAR_KEYWORD" for n, d, k in facts["sig"])
    sm = stub_methods(info)
    probes = facts.get("probes") or {}
    consts = set(facts["constants"])
    det = {"class": cname}
    if c["custom_init"]:
        # the stub must carry the user's __init__
        want = [(n, d) for n, d, k in facts["init_sig"] if k not in ("VAR_KEYWORD", "VAR_POSITIONAL")]
        want_kw = any(k == "VAR_KEYWORD" for n, d, k in facts["init_sig"])
        got = sm["init"]
        if got is None:
            rep_finding("C16/custom-init/missing-or-duplicated", "stub of a class with its own __init__ has no single __init__", det)
        else:
            (ps, kw), _ = got
            if set(ps) != set(want) or kw != want_kw:
                rep_finding("C16/custom-init/differs", f"stub __init__ {ps},**={kw} differs from the class's own __init__ {want},**={want_kw}", det)
    else:
        got = sm["init"]
        if got is None and info.get("pass_body"):
            # `class X(Structure): pass`: the constructor is the inherited Structure.__init__(self, *args, **kwargs)
            got = (([], True), [("self", False)])
        if got is None:
            rep_finding("C16/init/missing-or-duplicated", "stub class has no single __init__", det)
        else:
            (ps, kw), fixed = got
            names = [n for n, _ in ps]
            if [n for n, _ in fixed] != ["self"]:
                rep_finding("C16/init/no-self", f"__init__ starts with {fixed}", det)
            if len(set(names)) != len(names):
                rep_finding("C16/params/duplicate", f"duplicate keyword in stub __init__: {names}", det)
            leaked = sorted(set(names) & consts)
            if leaked:
                rep_finding("C16/params/constant-in-init", f"Constant field(s) {leaked} appear in the stub __init__", det)
            missing = sorted(set(n for n, _ in sig) - set(names))
            extra = sorted(set(names) - set(n for n, _ in sig) - consts)
            if missing:
                rep_finding("C16/params/missing", f"runtime parameter(s) {missing} missing from the stub __init__ {names}", det)
            if extra:
                rep_finding("C16/params/extra", f"stub __init__ has parameter(s) {extra} the runtime signature {sig} lacks", det)
            sigd = dict(sig)
            for n, d in ps:
                if n not in sigd:
                    continue
                runtime_required = not sigd[n]
                w = (probes.get("without") or {}).get(n)
                if probes.get("all") == "ok" and w is not None and (w != "ok") != runtime_required:
                    rep_finding("C16/runtime/signature-vs-constructor",
                                f"signature says required={runtime_required} for {n} but constructing without it gives {w}", det)
                if d and runtime_required:
                    rep_finding("C16/defaults/stub-default-but-required/" + field_category(m, cname, n),
                                f"{cname}.{n} is required at run time (signature {facts['sig']}, _required {facts['required']}) "
                                f"but the stub __init__ gives it a default", dict(det, field=n))
                if not d and not runtime_required:
                    rep_finding("C16/defaults/stub-mandatory-but-optional/" + field_category(m, cname, n),
                                f"{cname}.{n} is optional at run time but has no default in the stub __init__", dict(det, field=n))
                if (n in facts["required"]) != runtime_required:
                    rep_finding("C16/runtime/required-attr-vs-signature",
                                f"{n}: in _required = {n in facts['required']}, no default in signature = {runtime_required}", det)
            seen_default = False
            for n, d in ps:
                if seen_default and not d:
                    rep_finding("C16/order/mandatory-after-optional", f"parameter {n} without default follows one with default: {ps}", det)
                    break
                seen_default = seen_default or d
            # ** parameter
            admits = None
            if probes.get("all") == "ok":
                admits = probes.get("extra") == "ok"
            flag_admits = sig_kw and facts["eff_additional"]
            if admits is not None and admits != flag_admits:
                rep_finding("C16/runtime/flags-vs-constructor",
                            f"signature **={sig_kw}, effective flag={facts['eff_additional']} but an unknown keyword gives {probes.get('extra')}", det)
            adm = admits if admits is not None else flag_admits
            if kw != adm:
                own, inh = inherits_additional(m, c)
                shape = "own=%s,inherited=%s,default=%s" % (own, inh, m["apd"])
                if info.get("pass_body"):
                    shape = "fieldless-class-rendered-pass"
                rep_finding("C16/kwargs/%s/%s" % ("stub-has-kw-runtime-rejects" if kw else "stub-lacks-kw-runtime-admits", shape),
                            f"{cname}: stub ** = {kw}; constructor admits an unknown keyword = {adm} "
                            f"(signature ** = {sig_kw}, inherited flag = {facts['eff_additional']})", det)
            for cn in (probes.get("constant") or {}):
                if probes["constant"][cn] == "ok":
                    rep_finding("C16/runtime/constant-accepted", f"constructor accepted a value for Constant {cn}", det)
    # the three helper methods carry the same field keywords
    if info.get("pass_body"):
        return
    ref = None
    if sm["init"] is not None and not c["custom_init"]:
        ref = (set(n for n, _ in sm["init"][0][0]), sm["init"][0][1])
    else:
        ref = (set(facts["all_fields"]) - consts, None)
    for mn, fixed_want in (("clone", ["self"]), ("other", ["cls", "source_object", "ignore_props"]),
                           ("trusted", ["cls", "source_object", "ignore_props"])):
        g = sm[mn]
        if g is None:
            rep_finding("C16/methods/missing/" + mn, f"stub class lacks a single {mn} helper", det)
            continue
        (ps, kw), fixed = g
        # the field keywords of a helper are the constructor's keywords that can reach its **kw at run time: a keyword
        # named like one of the helper's own parameters (from_other_class(cls, source_object, *, ignore_props=None, **kw))
        # is bound to that parameter, it is not a field keyword of the helper (and cannot be written twice in a def)
        want = ref[0] - set(fixed_want)
        if set(n for n, _ in ps) != want:
            rep_finding("C16/methods/keywords-differ/" + mn,
                        f"{mn}: keywords {sorted(n for n, _ in ps)} differ from the constructor's {sorted(want)}"
                        + (f" (without the helper's own parameter(s) {sorted(ref[0] & set(fixed_want))})" if ref[0] & set(fixed_want) else ""),
                        det)
        if ref[1] is not None and kw != ref[1]:
            rep_finding("C16/methods/kw-differs/" + mn, f"{mn}: ** = {kw} but __init__ ** = {ref[1]}", det)
        if [n for n, _ in fixed] != fixed_want:
            rep_finding("C16/methods/fixed-params/" + mn, f"{mn}: leading parameters {fixed}", det)
        if not all(d for _, d in ps):
            rep_finding("C16/methods/keyword-without-default/" + mn, f"{mn}: {ps}", det)


def classify_parse_error(m, errs):
    """Key of a stub that does not parse, from the offending line."""
    cname, ln, msg, text = errs[0]
    if re.search(r"\[[^\]]*= None\s*[\],]", text) or re.search(r"= None\]", text):
        return "C16/parse/optional-none-inside-brackets", cname, ln, msg, text
    mm = re.search(r"duplicate argument '(\w+)'", msg)
    if mm and mm.group(1) in RESERVED + ["self"]:
        return "C16/parse/field-named-like-fixed-parameter/" + mm.group(1), cname, ln, msg, text
    return "C16/parse/other", cname, ln, msg, text


def check_module(m, res, stubs, rep):
    """All clauses for one module.  Returns list of Coq case terms (+ meta) for the correspondence."""
    name = m["name"]
    src = module_src(m)
    cases = []

    def finding(key, what, detail):
        rep.finding(key, what, dict(detail, module=name, apd=m["apd"], source=src, python=replay_python(m), ast=m))

    r0 = res.get("result")
    if r0 is None or r0.get("stub_error") or r0.get("facts_error"):
        what = (r0 or {}).get("stub_error") or (r0 or {}).get("facts_error") or "runner failed"
        key = "C16/harness/module-does-not-load"
        if (r0 or {}).get("stub_error"):
            fr = re.findall(r'File "[^"]*typedpy/[^"]*", line \d+, in (\w+)', r0.get("stub_trace") or "")
            key = "C16/generator-raises/%s@%s" % (what.split(":")[0].split()[-1], fr[-1] if fr else "?")
            if m.get("future") and "@dataclasses.dataclass" in src and "sys.modules.get(cls.__module__)" in (r0.get("stub_trace") or ""):
                key = "C16/generator-raises/module-not-in-sys.modules/dataclass-under-future-annotations"
            if key.endswith("AttributeError@add_imports") and not re.search(r"module '(\w+)' has no attribute '__module__'", what):
                key += "/other"
        finding(key, f"create_stub_for_file on {name}: {what}", {"trace": (r0 or {}).get("stub_trace") or (r0 or {}).get("facts_trace")})
        return cases
    texts = [stubs[hs] for hs in sorted(stubs)]
    if any(t is None for t in texts):
        finding("C16/no-stub-written", "create_stub_for_file wrote no .pyi", {})
        return cases
    if any(t != texts[0] for t in texts[1:]):
        k = next(i for i, t in enumerate(texts) if t != texts[0])
        a, b = texts[0].split("\n"), texts[k].split("\n")
        dl = next((i for i, (x, y) in enumerate(zip(a, b)) if x != y), min(len(a), len(b)))
        finding("C16/determinism/hash-seed", f"stub differs between PYTHONHASHSEED {sorted(stubs)[0]} and {sorted(stubs)[k]} "
                f"at line {dl + 1}: {a[dl] if dl < len(a) else ''!r} vs {b[dl] if dl < len(b) else ''!r}", {"line": dl + 1})
    text = texts[0]
    err, classes, errs = parse_stub(text)
    if err is not None:
        key, cname, ln, msg, ltext = classify_parse_error(m, errs)
        if key.endswith("inside-brackets") and not m["flags"]["bad"]:
            key = "C16/parse/optional-none-inside-brackets/unexpected"
        finding(key, f"the generated stub does not parse: line {ln}: {msg}: {ltext.strip()!r}", {"class": cname, "line": ln})
    else:
        # beyond ast.parse: the stub must also be acceptable to the compiler's symbol-table pass
        # (duplicate argument names are only detected there)
        try:
            compile(text, name + ".pyi", "exec", dont_inherit=True)
        except SyntaxError as e:
            mm = re.search(r"duplicate argument '(\w+)'", e.msg or "")
            key = "C16/compile/other"
            if mm and mm.group(1) in RESERVED and any(f["name"] == mm.group(1) for c in m["classes"] for f in c["fields"]):
                key = "C16/compile/duplicate-argument/field-named-" + mm.group(1)
            finding(key, f"the generated stub passes ast.parse but is not valid Python: line {e.lineno}: {e.msg}", {"line": e.lineno})
    rep.stat("modules", "parse:" + ("ok" if err is None else "syntax-error"))
    facts = r0["classes"]
    for c in m["classes"]:
        cn = c["name"]
        if cn not in facts:
            finding("C16/harness/class-not-loaded", f"{cn} not found in the loaded module", {"class": cn})
            continue
        fc = facts[cn]
        info = classes.get(cn)
        unparsable = any(e[0] == cn for e in errs)
        if info is None and not unparsable:
            finding("C16/class-missing", f"Structure class {cn} is not declared in the stub", {"class": cn})
        if info is not None:
            if "Structure" not in info["bases"]:
                finding("C16/class-bases", f"{cn}: stub bases {info['bases']} do not include Structure", {"class": cn})
            check_class(m, c, fc, info, finding)
        # correspondence case
        hier = hier_of(m, c, facts)
        if hier is None:
            continue
        sm = stub_methods(info) if info is not None else {"init": None, "clone": None, "other": None, "trusted": None}
        o = {"def_ok": True,
             "sig": [(n, d) for n, d, k in fc["sig"] if k != "VAR_KEYWORD"],
             "sig_kw": any(k == "VAR_KEYWORD" for n, d, k in fc["sig"]),
             "required": fc["required"], "consts": fc["constants"], "fields": fc["all_fields"],
             "init": None if (c["custom_init"] or sm["init"] is None) else sm["init"][0],
             "clone": sm["clone"][0] if sm["clone"] else None, "other": sm["other"][0] if sm["other"] else None,
             "trusted": sm["trusted"][0] if sm["trusted"] else None}
        cases.append((emit_case(hier, m["apd"], o), {"module": name, "class": cn, "apd": m["apd"], "source": src,
                                                     "observed": o, "python": replay_python(m)}))
        shape = (c["base"][0], len(hier), len(fc["all_fields"]), bool(fc["constants"]), c["additional"], m["apd"],
                 c["required"] is not None, tuple(sorted({t for b in hier for (_, _, _, t) in b["fields"]})))
        rep.count("classes", 1, shape)
        rep.stat("classes", "base:" + c["base"][0])
        rep.stat("classes", "depth:%d" % len(hier))
        rep.stat("classes", "stub:" + ("parsed" if info is not None else "unparsable"))
    for c in m["rejected"]:
        rep.stat("classes", "definition-raises")
        if all(x[0] in ("struct", "cls") for x in chain_bases(m, c)):
            hier = hier_of(m, c, {})
            if hier is not None:
                o = {"def_ok": False, "sig": [], "sig_kw": False, "required": [], "consts": [], "fields": [],
                     "init": None, "clone": None, "other": None, "trusted": None}
                cases.append((emit_case(hier, m["apd"], o), {"module": name, "class": c["name"], "apd": m["apd"],
                                                             "source": src + class_src(c), "error": c["error"],
                                                             "observed": o}))
                rep.count("rejected-definitions", 1, (c["error"].split(":")[0], len(hier)))
    # enums keep their member names
    for en, members in list(m["enums"].items()) + [("Color", ["RED", "GREEN", "BLUE"])]:
        info = classes.get(en)
        rep.count("enums", 1)
        if info is None:
            if not any(e[0] == en for e in errs):
                finding("C16/enum/missing", f"enum class {en} is not declared in the stub", {"class": en})
            continue
        if info["assigns"] != members or r0["enums"].get(en) != members:
            finding("C16/enum/members", f"enum {en}: stub members {info['assigns']}, run time {r0['enums'].get(en)}, declared {members}", {"class": en})
    return cases


def chain_bases(m, c):
    by = {x["name"]: x for x in m["classes"] + m["rejected"]}
    out = [c["base"]]
    while out[-1][0] == "cls":
        out.append(by[out[-1][1]]["base"])
    return out


def replay_python(m):
    return ("# write `source` to <dir>/pkg/%s.py (a scratch dir), then:\n"
            "from typedpy import Structure, create_stub_for_file\n"
            "Structure.set_additional_properties_default(%r)\n"
            "create_stub_for_file('<dir>/pkg/%s.py', '<dir>', '<dir>/stubs', additional_properties_default=%r)\n"
            % (m["name"], m["apd"], m["name"], m["apd"]))


# ------------------------------------------------------------------ fixed corpus (shapes the generator must not miss)

def corpus_modules():
    def cls(name, base, fields, **kw):
        c = {"name": name, "base": base, "fields": fields, "required": None, "optional": None, "additional": None,
             "old_spelling": False, "custom_init": False, "extras": []}
        c.update(kw)
        return c

    def f(name, type, style="annot", default=False):
        return {"name": name, "kind": "field", "type": type, "style": style, "default": default}

    def k(name, v="3"):
        return {"name": name, "kind": "const", "type": None, "style": "assign", "default": False, "const": v}
    mods = []
    # inheritance with constants overriding fields, defaults, _required, depth 3
    mods.append({"name": "k0", "apd": True, "flags": {"bad": False, "reserved": False}, "rejected": [], "extras": "LIMIT = 5\n\n",
                 "enums": {}, "future": False, "classes": [
        cls("S0", ["struct"], [f("i", "int", default=True), f("subject", "Enum")], required=["subject"]),
        cls("S1", ["cls", "S0"], [k("subject", "Color.RED"), f("name", "str")]),
        cls("S2", ["cls", "S1"], [f("val", "int"), f("opt", "OptInt")], additional=False),
        cls("S3", ["cls", "S2"], [f("extra", "Map")]),
        cls("S2b", ["struct"], [f("p", "OptInt"), f("q", "int", default=True), f("r", "AnyOfNone")], optional=["r"]),
        cls("S4", ["partial", "S2"], [f("z", "int")]),
        cls("S5", ["omit", "S2", ["name"]], []),
        cls("S6", ["pick", "S2", ["name", "val"]], [], additional=True),
        cls("S7", ["allreq", "S2b"], [f("w", "str", "assign", True)]),
        cls("S8", ["extend", "S3"], [k("kk", "'v'")]),
    ]})
    # additional properties default False: own / inherited / unset
    mods.append({"name": "k1", "apd": False, "flags": {"bad": False, "reserved": False}, "rejected": [], "extras": "",
                 "enums": {"E0": ["A1", "b_2"]}, "future": False, "classes": [
        cls("S0", ["struct"], [f("a", "int")], additional=True),
        cls("S1", ["cls", "S0"], [f("b", "str")], additional=False),
        cls("S2", ["cls", "S1"], [f("c", "float")]),
        cls("S3", ["struct"], [f("a", "int"), f("b", "OptLeaf")]),
        cls("S4", ["cls", "S3"], [f("c", "Array", "assign")], additional=True, old_spelling=True),
        cls("S5", ["immutable"], [f("a", "int")], custom_init=True),
    ]})
    mods[1]["extras"] = "class E0(enum.Enum):\n    A1 = 1\n    b_2 = 2\n\n"
    # the Python type of a field is named like a module the source imports (datetime.datetime / module datetime;
    # decimal.Decimal is not: kept as the control) -- add_imports must not read .__module__ of the module object
    mods.append({"name": "k2", "apd": True, "flags": {"bad": False, "reserved": False}, "rejected": [], "extras": "",
                 "enums": {}, "future": False, "imports": ["datetime", "decimal", "collections"], "classes": [
        cls("S0", ["struct"], [f("when", "DateTime"), f("amount", "Decimal"), f("day", "DateField")]),
        cls("S1", ["cls", "S0"], [f("queue", "Deque"), f("t2", "DateTime", "assign")], additional=False),
    ]})
    # fields named like the fixed parameters of from_other_class / from_trusted_data: the .pyi must compile
    mods.append({"name": "k3", "apd": True, "flags": {"bad": False, "reserved": True}, "rejected": [], "extras": "",
                 "enums": {}, "future": False, "classes": [
        cls("S0", ["struct"], [f("cls", "int"), f("a", "str")]),
        cls("S1", ["cls", "S0"], [f("source_object", "OptInt"), f("ignore_props", "Array", "assign")], additional=False),
        cls("S2", ["struct"], [f("ignore_props", "str", default=True), f("b", "int")], optional=["b"]),
    ]})
    return mods


# ------------------------------------------------------------------ entry points

def run(rep, tier):
    rnd = random.Random(core.seed() * 1000003 + 16)
    nmods = 120 if tier == "quick" else 700
    proofs_ok, model_ok = core.standard_proof_obligations(rep, "C16", ["theories/Check/C16chk.vo"])
    rep.assumptions += [
        "PARTIAL: the theorems are about the model of StructMeta/make_signature and of the stub generator at the level "
        "(name, has-default, **); that the rendered text parses, that every class appears, that enum member names are kept "
        "and byte-identity across PYTHONHASHSEED in {0,1,2,3} are decided by this harness on generated modules, not proved",
        "type strings are opaque tokens with the two facts the generator inspects (startswith 'Optional[', endswith '= None')",
        "single inheritance between Structure classes in the model; Partial/Omit/Pick/Extend/AllFieldsRequired levels are "
        "reified from the class object typedpy built",
        "additional_properties_default passed to create_stub_for_file equals TypedPyDefaults.additional_properties_default",
    ]
    work = core.workdir("c16")
    try:
        modules = corpus_modules()
        mi = 0
        while len(modules) < nmods:
            modules.append(gen_module(rnd, mi))
            mi += 1
        res = run_batches(work, modules)
        ok_run = all(res[hs]["rc"] == 0 and res[hs]["result"] is not None for hs in res)
        rep.obligation("runner:create_stub_for_file-batches", ok_run,
                       "" if ok_run else "; ".join("seed %d rc=%s %s" % (hs, res[hs]["rc"], res[hs]["stderr"][-300:]) for hs in res))
        if not ok_run:
            rep.broken("runner", "a stub-generation subprocess failed: " +
                       "; ".join("seed %d rc=%s %s" % (hs, res[hs]["rc"], res[hs]["stderr"][-600:]) for hs in res))
            return rep.finish()
        cases = []
        for m in modules:
            stubs = {hs: read_stub(res[hs]["stubs_root"], m["name"]) for hs in res}
            r0 = {"result": res[0]["result"].get(m["name"])}
            for hs in res:
                rr = res[hs]["result"].get(m["name"]) or {}
                if hs != 0 and rr.get("stub_error") and not (r0["result"] or {}).get("stub_error"):
                    r0["result"] = dict(r0["result"] or {}, stub_error="under PYTHONHASHSEED=%d: %s" % (hs, rr["stub_error"]))
            rep.count("modules", 1, (len(m["classes"]), m["apd"], m["flags"]["bad"], m["flags"]["reserved"]))
            rep.count("hash-seed-runs", len(res))
            cases += check_module(m, r0, stubs, rep)
        if modules:
            rep.sample({"module": modules[2]["name"], "apd": modules[2]["apd"], "source": module_src(modules[2])[len(HEADER_SRC):][:1500],
                        "stub_excerpt": (read_stub(res[0]["stubs_root"], modules[2]["name"]) or "")[-900:]})
    finally:
        core.cleanup(work)
    # correspondence in Coq
    if model_ok:
        per = 250
        shards = []
        for s in range(0, len(cases), per):
            body = "Definition cases : list case := %s.\n" % E.lst(["\n " + c for c, _ in cases[s:s + per]])
            for fn in ("defok_mismatch", "sig_mismatch", "req_mismatch", "stub_mismatch"):
                body += "Eval vm_compute in (indices_where %s cases 0).\n" % fn
            body += "Eval vm_compute in (List.length (filter hyp_tok_safe cases), List.length (filter hyp_kw_safe cases), List.length (filter order_differs cases)).\n"
            shards.append(body)
        results = core.eval_cases(shards, "c16", HEADER)
        mism = {}
        bad_shard = None
        ntok = nkw = nord = 0
        for si, (rc, out, err) in enumerate(results):
            vals = core.parse_eval(out)
            if rc != 0 or len(vals) != 5:
                bad_shard = (si, (out + err)[-1500:])
                continue
            for fn, v in zip(("defok", "sig", "required", "stub"), vals[:4]):
                for i in core.parse_nat_list(v):
                    mism.setdefault(fn, []).append(si * per + i)
            nums = core.parse_nat_list(vals[4])
            ntok += nums[0]
            nkw += nums[1]
            nord += nums[2]
        total = sum(len(v) for v in mism.values())
        rep.obligation("correspondence:classes", not mism and bad_shard is None,
                       f"{len(cases)} class definitions, {total} mismatches " + ", ".join(f"{k}:{len(v)}" for k, v in mism.items()))
        rep.cov["streams"].setdefault("classes", {})["theorem_hypotheses_hold"] = {"tok_safe": ntok, "kw_safe": nkw}
        rep.cov["streams"]["classes"]["keyword_order_differs_from_model(informational)"] = nord
        if bad_shard is not None:
            rep.broken("correspondence:classes/coq-eval", f"case shard {bad_shard[0]} failed to evaluate: {bad_shard[1]}")
        if mism and not rep.violations:
            fn = sorted(mism)[0]
            i = mism[fn][0]
            rep.broken("correspondence:classes/" + fn,
                       f"model (Stubs/Signature.v, Stubs/StubModel.v) and typedpy differ ({fn}) on {total} generated class "
                       "definitions; no clause of C16 failed on any explored input", cases[i][1])
        elif mism:
            rep.obligation("correspondence:classes:explained-by-violation", True,
                           "mismatching cases accompany a concrete violation reported above")
    if not proofs_ok:
        from harness.props.c17 import broken_build
        broken_build(rep)
    return rep.finish(
        level="proof (partial)",
        rule="cases = Structure classes of generated modules (single inheritance to depth 8, Partial/Omit/Pick/Extend/"
             "AllFieldsRequired bases, typing.Optional, defaults, Constants, nested collections, enums, additional properties "
             "on/off/old spelling, custom __init__, extra methods) beside plain classes, dataclasses, functions, constants; "
             "additional_properties_default in {True, False}; each module run under PYTHONHASHSEED 0..3; "
             "distinct = distinct (base kind, depth, #fields, constants?, own flag, default, _required?, token kinds)")


class _Collect:
    """Report stand-in used by replay: collects findings, ignores coverage."""

    def __init__(self):
        self.found = []

    def finding(self, key, what, detail):
        self.found.append((key, what))

    def stat(self, *a, **k):
        pass

    def count(self, *a, **k):
        pass


def replay(obj):
    """Re-run a replay on the implementation alone: write the module to scratch, run the real generator under
    PYTHONHASHSEED 0..3, evaluate every clause of C16; fails iff the replayed finding key is observed again."""
    m = obj.get("ast")
    if not m:
        print("replay object carries no module (broken obligation without failing input):", obj.get("what", "")[:500])
        return 1
    work = core.workdir("c16replay")
    try:
        res = run_batches(work, [m])
        if any(res[hs]["rc"] != 0 or res[hs]["result"] is None for hs in res):
            print("FAILS    : the stub-generation subprocess failed:", [res[hs]["stderr"][-300:] for hs in res])
            return 1
        stubs = {hs: read_stub(res[hs]["stubs_root"], m["name"]) for hs in res}
        col = _Collect()
        check_module(m, {"result": res[0]["result"].get(m["name"])}, stubs, col)
        print("module   : %s  (additional_properties_default = %s); classes: %s" %
              (m["name"], m["apd"], ", ".join(c["name"] for c in m["classes"])))
        want = obj.get("finding_key")
        cls = obj.get("class")
        if cls:
            text = stubs[0] or ""
            mm = re.search(r"^class %s\(.*?(?=^class |\Z)" % re.escape(cls), text, re.S | re.M)
            fc = (res[0]["result"].get(m["name"]) or {}).get("classes", {}).get(cls)
            if fc:
                print("runtime  : %s%s  _required=%s  constants=%s  additional flag=%s" %
                      (cls, "(" + ", ".join(("**" if k == "VAR_KEYWORD" else "") + n + ("=None" if d else "") for n, d, k in fc["sig"]) + ")",
                       fc["required"], fc["constants"], fc["eff_additional"]))
            if mm:
                init = re.search(r"    def __init__\(.*?\): \.\.\.", mm.group(0), re.S)
                print("stub     :", re.sub(r"\s+", " ", init.group(0)) if init else mm.group(0)[:300])
        hit = False
        for key, what in col.found:
            same = key == want
            hit = hit or same
            print("%s: %s - %s" % ("FAILS    " if same else "also     ", key, what[:300]))
        if not hit:
            print("the replayed finding (%s) is not observed on this implementation now" % want)
        return 1 if hit else 0
    finally:
        core.cleanup(work)
